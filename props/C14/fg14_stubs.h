/* harness-side stubs of the scheduler boundary used by flow-graph nodes (contract in comments); derived from props/C15/fg_stubs.h.
 * The including harness defines before: TASK_KINDS (1|2) and, per kind k, the wrapper's typed storage accessors through
 *   static u8* task_mem(unsigned kind, unsigned i); static unsigned task_size(unsigned kind);
 * It may define VP_ON_ALLOC(kind, idx) / VP_ON_FREE(kind, idx) observers. */
#ifndef BAGMAX
#define BAGMAX 6
#endif
#ifndef TASKMAX
#define TASKMAX 8      /* <= 16 (typed task storage of the wrappers) */
#endif
static void* bag[BAGMAX]; static unsigned bag_n;
static unsigned n_alloc[2], n_free; static unsigned n_live[2];
static unsigned vp_new_n, vp_new64_n, vp_new512_n;
static unsigned alloc_kind_hint;
static unsigned in_arena;       /* is the calling thread a thread of the graph's arena (worker running a task / attached master) */
static void fg_reset(void) { bag_n = 0; n_alloc[0] = n_alloc[1] = 0; n_free = 0; n_live[0] = n_live[1] = 0; vp_new_n = 0; vp_new64_n = 0; vp_new512_n = 0; in_arena = 0; alloc_kind_hint = 0; }
static int task_kind_of(void* p) {
  for (unsigned i = 0; i < TASKMAX; i++) if (p == (void*)task_mem(0, i)) return 0;
  return 1; }
/* r1::allocate(small_object_pool*&, size_t): fresh storage (typed, per task type: chosen by the requested size) */
u8* _ZN3tbb6detail2r18allocateERPNS0_2d117small_object_poolEm(struct S_class_tbb__detail__d1__small_object_pool** pool, u64 n) {
  unsigned k = alloc_kind_hint;   /* which typed pool: the driver knows which task type the current operation can create (checked when the task runs) */
  VP_ASSERT(n == task_size(k), "VP bound: task allocation of an unknown task type");
  VP_ASSERT(n_alloc[k] < TASKMAX, "VP bound: more task allocations than the typed task storage");
  n_live[k]++;
#ifdef VP_ON_ALLOC
  VP_ON_ALLOC(k, n_alloc[k]);
#endif
  return task_mem(k, n_alloc[k]++); }
/* r1::deallocate(small_object_pool&, void*, size_t, const execution_data&) */
void _ZN3tbb6detail2r110deallocateERNS0_2d117small_object_poolEPvmRKNS2_14execution_dataE(struct S_class_tbb__detail__d1__small_object_pool* pool, u8* p, u64 n, struct S_struct_tbb__detail__d1__execution_data* ed) {
  unsigned k = task_kind_of(p);
  VP_ASSERT(n == task_size(k), "task deallocated with a wrong size");
  VP_ASSERT(n_live[k] > 0, "task deallocated twice / never allocated"); n_live[k]--; n_free++;
#ifdef VP_ON_FREE
  VP_ON_FREE(p);
#endif
}
/* r1::execution_slot(const task_arena_base&): slot of the calling thread in that arena, slot_id(-1) if it is not in it */
u16 _ZN3tbb6detail2r114execution_slotERKNS0_2d115task_arena_baseE(struct S_class_tbb__detail__d1__task_arena_base* a) { return in_arena ? 0 : 0xffff; }
/* r1::notify_waiters(uintptr_t): wake-up only, no state */
static unsigned n_notify;
void _ZN3tbb6detail2r114notify_waitersEm(u64 a) { n_notify++; }
/* libstdc++ out-of-line pieces of std::list (successor lists): documented node-hook semantics */
void _ZNSt8__detail15_List_node_base7_M_hookEPS0_(struct S_struct_std____detail___List_node_base* self, struct S_struct_std____detail___List_node_base* pos) {
  self->f0 = pos; self->f1 = pos->f1; pos->f1->f0 = self; pos->f1 = self; }
void _ZNSt8__detail15_List_node_base9_M_unhookEv(struct S_struct_std____detail___List_node_base* self) {
  struct S_struct_std____detail___List_node_base* nx = self->f0; struct S_struct_std____detail___List_node_base* pv = self->f1; pv->f0 = nx; nx->f1 = pv; }
/* operator new / delete: std::list nodes, body leaves (<= 32 bytes), input queue object / std::deque map (64 bytes) and deque chunk
   (512 bytes) of the predecessor caches; pointer-typed cells so that cbmc keeps stored pointers concrete; never reused (bounded, asserted) */
static struct { void* a[4]; } vp_new_pool[12];
static struct { void* a[8]; } vp_new_pool64[4];
static struct { void* a[64]; } vp_new_pool512[4];
u8* _Znwm(u64 n) {
#ifdef VP_TYPED_NEW
  { u8* p = VP_TYPED_NEW(n); if (p) return p; }
#endif
  if (n <= 32) { VP_ASSERT(vp_new_n < 12, "VP bound: operator new beyond the node pool"); return (u8*)&vp_new_pool[vp_new_n++]; }
  if (n <= 64) { VP_ASSERT(vp_new64_n < 4, "VP bound: operator new beyond the 64-byte pool"); return (u8*)&vp_new_pool64[vp_new64_n++]; }
  VP_ASSERT(n <= 512 && vp_new512_n < 4, "VP bound: operator new beyond the 512-byte pool"); return (u8*)&vp_new_pool512[vp_new512_n++]; }
void _ZdlPv(u8* p) { }
void _ZdlPvm(u8* p, u64 n) { }
/* r1::submit(task&, task_group_context&, arena*, uintptr_t as_critical): the task becomes runnable; the harness runs it later */
void _ZN3tbb6detail2r16submitERNS0_2d14taskERNS2_18task_group_contextEPNS1_5arenaEm(struct S_class_tbb__detail__d1__task* t, struct S_class_tbb__detail__d1__task_group_context* c, struct S_class_tbb__detail__r1__arena* a, u64 crit) {
  VP_ASSERT(bag_n < BAGMAX, "VP bound: more spawned tasks than BAGMAX"); if (bag_n < BAGMAX) bag[bag_n++] = t; }
/* d2::prioritize_task(graph&, graph_task&) is cut (it drags the graph's concurrent_priority_queue into every caller): for a task
   without priority it is the identity; nodes in these units never have a priority (asserted) */
struct S_class_tbb__detail__d2__graph_task* _ZN3tbb6detail2d215prioritize_taskERNS1_5graphERNS1_10graph_taskE(struct S_class_tbb__detail__d2__graph* g, struct S_class_tbb__detail__d2__graph_task* t) {
  VP_ASSERT(!vp_task_has_priority(t), "prioritized task in a unit whose nodes have no priority"); return t; }
/* r1::cache_aligned_allocate / deallocate (item_buffer arrays) */
u8* _ZN3tbb6detail2r122cache_aligned_allocateEm(u64 n) { u8* p = malloc(n); __CPROVER_assume(p != 0); return p; }
void _ZN3tbb6detail2r124cache_aligned_deallocateEPv(u8* p) { free(p); }
/* memset of the translated code (cbmc is run with -Dmemset=vp_memset): word-wise stores, which cbmc resolves to the struct members
   they hit; its built-in byte-wise memset turns the whole node object into a byte-array expression and ends constant propagation */
#ifdef memset
void* vp_memset(void* p, int c, size_t n) { u64 i = 0; u64 w = 0x0101010101010101ull * (u8)c;
  for (; i + 8 <= n; i += 8) *(u64*)((u8*)p + i) = w;
  for (; i < n; i++) ((u8*)p)[i] = (u8)c;
  return p; }
#endif
/* graph::reset(): r1::reset(task_group_context&) clears the cancellation state of the context (the harness keeps that state itself: `cancelled`);
   prepare_task_arena(reinit): r1::attach / initialize / terminate of the graph's task_arena - no arena in this model */
static unsigned n_ctx_reset;
void _ZN3tbb6detail2r15resetERNS0_2d118task_group_contextE(struct S_class_tbb__detail__d1__task_group_context* c) { n_ctx_reset++; }
u8 _ZN3tbb6detail2r16attachERNS0_2d115task_arena_baseE(struct S_class_tbb__detail__d1__task_arena_base* a) { return 1; }
void _ZN3tbb6detail2r110initializeERNS0_2d115task_arena_baseE(struct S_class_tbb__detail__d1__task_arena_base* a) { }
void _ZN3tbb6detail2r19terminateERNS0_2d115task_arena_baseE(struct S_class_tbb__detail__d1__task_arena_base* a) { }
/* take a task out of the bag: which = 0 oldest, 1 newest */
static void* bag_take(int newest) {
  void* t;
  if (newest) { t = bag[bag_n - 1]; }
  else { t = bag[0]; for (unsigned i = 0; i + 1 < BAGMAX; i++) bag[i] = bag[i + 1]; }
  bag_n--; bag[bag_n] = 0; return t; }

// shared by the C14 wrappers (same way of compiling flow-graph nodes as props/C15/fg_common.h, adapted):
// a graph object built white-box (no scheduler, no arena), harness receivers/senders, typed task storage, task execution.
#include "oneapi/tbb/flow_graph.h"
using namespace tbb::detail::d2;
namespace d1 = tbb::detail::d1;
extern "C" unsigned vp_sink(unsigned id, int v);            // harness: successor `id` is offered v; returns accept?
extern "C" unsigned vp_sink_regpred(unsigned id);           // harness: rejected successor `id` asked to switch the edge to pull mode; returns agreed?
// graph without scheduler: only the members the node code reads are initialised (my_is_active, wait vertex, node list).
// my_task_arena / my_context are opaque tokens handed to the r1:: stubs of the harness.
// (typed storage without running the constructor: keeps the IR accesses typed, which cbmc needs for constant propagation)
template <class X> union vp_raw { X x; vp_raw() {} ~vp_raw() {} };
static vp_raw<graph> vp_graph_mem;
// arena / context objects: zero-initialised typed storage, never constructed (only graph::reset touches them: through r1:: stubs)
static vp_raw<tbb::task_arena> vp_arena_tok;
static vp_raw<tbb::task_group_context> vp_ctx_tok;
static graph& vp_graph() { return vp_graph_mem.x; }
static void vp_graph_init() {
  graph& g = vp_graph();
  new (&g.my_wait_context_vertex) d1::wait_context_vertex();
  g.my_context = &vp_ctx_tok.x;
  g.my_task_arena = &vp_arena_tok.x;
  g.my_is_active = true; g.my_nodes = g.my_nodes_last = nullptr; g.cancelled = g.caught_exception = false; g.own_context = false;
  new (&g.nodelist_mutex) tbb::spin_mutex();
}
// harness successor: accepts / rejects as the harness says; on rejection the sender's cache asks it to become a predecessor
// (edge flips to pull mode) - also answered by the harness
struct vp_recv : receiver<int> {
  unsigned id;
  graph_task* try_put_task(const int& t) override { return vp_sink(id, t) ? SUCCESSFULLY_ENQUEUED : nullptr; }
  graph& graph_reference() const override { return vp_graph(); }
  bool register_predecessor(predecessor_type&) override { return vp_sink_regpred(id); }
};
static vp_raw<vp_recv> vp_succ_mem[3];
#define vp_succ(i) (vp_succ_mem[i].x)
// per-thread reference vertex of the worker thread that executes tasks (what r1::get_thread_reference_vertex hands out:
// a d1::reference_vertex whose parent is the graph's wait vertex, created with count 0); real class, harness stub returns it
static vp_raw<d1::reference_vertex> vp_refv_mem[2];
extern "C" {
unsigned vp_task_has_priority(graph_task* t) { return t->priority != no_priority; }
// number of outstanding references on the graph's wait context (reserve_wait / tasks alive): wait_for_all returns iff 0
unsigned long vp_graph_refs() { return vp_graph().my_wait_context_vertex.get_context().m_ref_count.load(std::memory_order_relaxed); }
void vp_reserve_wait() { vp_graph().graph::reserve_wait(); }   // (non-virtual: the white-box graph has no vtable pointer)
void vp_release_wait() { vp_graph().graph::release_wait(); }
void vp_refv_init(unsigned k) { new (&vp_refv_mem[k].x) d1::reference_vertex(&vp_graph().my_wait_context_vertex, 0); }
void* vp_refv(unsigned k) { return static_cast<d1::wait_tree_vertex_interface*>(&vp_refv_mem[k].x); }
void* vp_graph_vertex() { return static_cast<d1::wait_tree_vertex_interface*>(&vp_graph().my_wait_context_vertex); }
unsigned long vp_refv_count(unsigned k) { return vp_refv_mem[k].x.m_ref_count.load(std::memory_order_relaxed); }
void vp_graph_deactivate() { deactivate_graph(vp_graph()); }
// the real graph::reset(flags): deactivate, context reset (r1 stub), every registered node's reset_node(flags), arena re-attach (r1 stubs), activate
void vp_graph_reset(unsigned flags) { vp_graph().graph::reset(static_cast<reset_flags>(flags)); }
unsigned vp_graph_active() { return is_graph_active(vp_graph()); }
}
// typed storage handed out by the harness's r1::allocate stub (cbmc cannot constant-propagate a vptr stored into malloc'ed
// bytes; separate globals, not an array: its simplifier decides pointer (in)equalities only for offset-0 addresses)
#define VP_TASK_STORAGE(PFX, TASK_T) \
  static vp_raw<TASK_T> PFX##_s0, PFX##_s1, PFX##_s2, PFX##_s3, PFX##_s4, PFX##_s5, PFX##_s6, PFX##_s7, PFX##_s8, PFX##_s9, PFX##_s10, PFX##_s11, PFX##_s12, PFX##_s13, PFX##_s14, PFX##_s15; \
  extern "C" void* PFX##_mem(unsigned i) { \
    switch (i) { case 0: return &PFX##_s0.x; case 1: return &PFX##_s1.x; case 2: return &PFX##_s2.x; case 3: return &PFX##_s3.x; \
                 case 4: return &PFX##_s4.x; case 5: return &PFX##_s5.x; case 6: return &PFX##_s6.x; case 7: return &PFX##_s7.x; \
                 case 8: return &PFX##_s8.x; case 9: return &PFX##_s9.x; case 10: return &PFX##_s10.x; case 11: return &PFX##_s11.x; \
                 case 12: return &PFX##_s12.x; case 13: return &PFX##_s13.x; case 14: return &PFX##_s14.x; default: return &PFX##_s15.x; } } \
  extern "C" unsigned PFX##_size() { return sizeof(TASK_T); }
// run a spawned task the way a worker does: execute(), or cancel() when its group context is cancelled. Returns the bypass task.
#define VP_RUN_TASK() \
  extern "C" void* vp_run_task(d1::task* t, unsigned cancelled) { d1::execution_data ed{}; return cancelled ? t->cancel(ed) : t->execute(ed); }
// Single-threaded model of the aggregator for operation type OP handled by HANDLER (explicit specialization replaces
// d1::aggregator_generic<OP>::execute): one caller, no contention => the pending list is just this operation and the caller
// runs the handler inline, which is what the real execute() does when it finds the list empty (its protocol: C13).
#define VP_SEQ_AGGREGATOR(OP, HANDLER) \
  namespace tbb { namespace detail { namespace d1 { \
  template<> template<> void aggregator_generic<OP>::execute<HANDLER>(OP* op, HANDLER& handle_operations, bool) { op->next = nullptr; handle_operations(op); } }}}

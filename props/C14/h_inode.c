/* C14 / input_node<int>: activation, body invocation, cached item, push to successors (broadcast_cache) with rejection / edge flip,
 * pull protocol try_get / try_reserve / try_release / try_consume, input_node_task_bypass, graph wait accounting.
 * The harness body produces NPROD items (symbolic, pairwise distinct values) and then stops. Harness successors as in h_edge.c
 * (k-th offer accepted iff bit k of the accept pattern; a rejecting successor s takes the edge over iff FLIP bit s).
 *   1 activate()    2 / 3 run the oldest / newest spawned task    10+s successor s pulls with try_get (on failure it gives the edge back)
 *   20+s successor s pulls with try_reserve    30 release    31 consume    40+s register successor s (initially unregistered ones)
 *   60 recovery: graph cancelled, wait_for_all (pending tasks get cancel()), the real graph::reset() (default flags), successors that hold the edge in pull mode
 *      give it back (their own reset_receiver); the node must then be inactive, hold no item and no reservation, and work like a fresh one after activate()
 * Oracle: the body is never invoked before activate() nor while an unconsumed item is cached (=> no item overwritten / lost) nor while a
 * reservation is held; every offer / hand-out is the current cached item; it is offered only to push-mode successors, at most once per
 * successor per forwarding attempt; it is consumed exactly when a successor accepts it, try_get succeeds or a reservation is consumed -
 * never twice; a rejected / released item stays cached and is what the next offer or pull delivers; items are consumed in production
 * order; at the end produced == consumed + (1 if an item is still cached); graph wait count == pending tasks. */
#include "w.h"
#include "vp.h"
static u8* task_mem(unsigned kind, unsigned i) { return vp_ft_mem(i); }
static unsigned task_size(unsigned kind) { return vp_ft_size(); }
#include "fg14_stubs.h"
#ifndef NSUCC
#define NSUCC 1
#endif
#ifndef NPROD
#define NPROD 2
#endif
#ifndef BAGRUNS
#define BAGRUNS 6
#endif
static const int ops[] = { OPS };
#define NOPS ((int)(sizeof ops / sizeof ops[0]))
enum { M_PUSH = 1, M_PULL = 2, M_REMOVED = 3 };
#ifndef NPROD2
#define NPROD2 0          /* items the body produces after a reset */
#endif
static int item[NPROD + NPROD2 + 1]; static unsigned nprod, ncons, nbodycalls, activated, noffer, acc_bits, flip_bits, reserved;
static unsigned mode[3]; static unsigned att_off[3], att_acc; static unsigned in_task;
static unsigned last_rejected, nflip_total, npull_total, cancelled, nprod_max;
u32 vp_ibody(u32* v) {
  nbodycalls++;
  VP_ASSERT(activated, "input_node body invoked before activate()");
  VP_ASSERT(in_task, "input_node body invoked outside a graph task");
  VP_ASSERT(nprod == ncons, "input_node body invoked while the previous item is still cached and unconsumed (it would be overwritten = lost)");
  VP_ASSERT(!reserved, "input_node body invoked while a reservation is held");
  if (nprod >= nprod_max) return 0;
  int x = (int)vp_nd(); for (unsigned i = 0; i < nprod; i++) __CPROVER_assume(item[i] != x);
  item[nprod++] = x; *v = (u32)x; return 1;
}
static void consumed(int v) {
  VP_ASSERT(ncons < nprod, "an item was consumed although none is outstanding (duplicated)");
  VP_ASSERT(item[ncons] == v, "consumed item is not the outstanding produced one (reordered / payload changed)");
  ncons++;
}
u32 vp_sink(u32 id, u32 v) {
  VP_ASSERT(id < 3 && mode[id] == M_PUSH, "item pushed along an edge that is in pull mode / not registered");
  VP_ASSERT(ncons < nprod && item[ncons] == (int)v, "offered item is not the outstanding produced one");
  VP_ASSERT(in_task, "input_node pushed an item outside a graph task");
  VP_ASSERT(att_off[id] == 0, "item offered twice to the same successor in one forwarding attempt");
  att_off[id] = 1; last_rejected = 0;
  unsigned acc = (acc_bits >> noffer) & 1; noffer++;
  if (acc) att_acc = 1; else last_rejected = id + 1;
  return acc;
}
u32 vp_sink_regpred(u32 id) {
  VP_ASSERT(last_rejected == id + 1, "register_predecessor on a successor that did not just reject");
  last_rejected = 0;
  unsigned f = (flip_bits >> id) & 1;
  if (f) { mode[id] = M_PULL; nflip_total++; }
  return f;
}
static void run_one(int newest) {
  if (!bag_n) return;
  void* t = bag_take(newest);
  for (unsigned s = 0; s < 3; s++) att_off[s] = 0; att_acc = 0; in_task = 1;
  unsigned cons0 = ncons, prod0 = nprod;
  u8* b = vp_run_task((struct S_class_tbb__detail__d1__task*)t, cancelled);
  in_task = 0;
  /* one forwarding attempt: the outstanding item is consumed iff somebody accepted it */
  if (att_acc) { VP_ASSERT(ncons < nprod, "accepted item was not outstanding"); ncons++; }
  VP_ASSERT(vp_has_cached() == (nprod > ncons), "cached-item flag differs: an accepted item is still cached (would be delivered twice) or a rejected item was dropped (lost)");
  if (b) { VP_ASSERT(bag_n < BAGMAX, "VP bound: bag"); bag[bag_n++] = b; }
}
static void settled(void) {
  VP_ASSERT(n_live[0] == bag_n, "a live task is neither spawned nor returned for execution / a spawned task was destroyed");
  VP_ASSERT(vp_graph_refs() == bag_n, "graph wait count differs from the number of pending tasks");
  VP_ASSERT(vp_has_cached() == (nprod > ncons), "cached-item flag differs from produced - consumed");
  if (nprod > ncons) VP_ASSERT((int)vp_cached() == item[ncons], "cached item is not the outstanding produced one");
  VP_ASSERT((vp_reserved() != 0) == (reserved != 0), "node reservation flag differs from the protocol state");
}
static void give_back(unsigned s) { vp_add_succ(s); mode[s] = M_PUSH; }
static void run(unsigned accpat, unsigned flippat) {
  fg_reset(); nprod = ncons = nbodycalls = activated = noffer = reserved = 0; cancelled = 0; nprod_max = NPROD; acc_bits = accpat; flip_bits = flippat; in_task = 0; last_rejected = 0;
  for (unsigned s = 0; s < 3; s++) mode[s] = s < NSUCC ? M_PUSH : M_REMOVED;
  vp_init(NSUCC); vp_init_extra_succ(NSUCC);
  VP_ASSERT(bag_n == 0, "an inactive input_node spawned a task at registration");
  settled();
  for (int k = 0; k < NOPS; k++) {
    int op = ops[k];
    if (op == 1) { vp_activate(); activated = 1; }
    else if (op == 2) run_one(0);
    else if (op == 3) run_one(1);
    else if (op >= 10 && op < 13) { unsigned s = op - 10; if (mode[s] != M_PULL) continue;
      npull_total++; int out = (int)vp_nd(), out0 = out; unsigned r = vp_get((u32*)&out);
      VP_ASSERT(r == (nprod > ncons && !reserved), "input_node try_get: success iff an item is cached and not reserved");
      if (r) consumed(out); else { VP_ASSERT(out == out0, "failed try_get wrote its output"); give_back(s); } }
    else if (op >= 20 && op < 23) { unsigned s = op - 20; if (mode[s] != M_PULL || reserved) continue;
      npull_total++; int out = (int)vp_nd(); unsigned r = vp_reserve((u32*)&out);
      VP_ASSERT(r == (nprod > ncons), "input_node try_reserve: success iff an item is cached");
      if (r) { VP_ASSERT(out == item[ncons], "reserved item is not the outstanding one"); reserved = 1; } else give_back(s); }
    else if (op == 60) {
      cancelled = 1;
      for (int i = 0; i < BAGRUNS; i++) run_one(0);
      VP_ASSERT(bag_n == 0 && vp_graph_refs() == 0, "graph wait count not 0 after every pending task was cancelled (wait_for_all would hang)");
      unsigned ctx0 = n_ctx_reset;
      vp_graph_reset(0);
      VP_ASSERT(n_ctx_reset == ctx0 + 1 && vp_graph_active(), "graph::reset did not reset the context once / left the graph inactive");
      VP_ASSERT(bag_n == 0 && vp_graph_refs() == 0, "reset() spawned a task / touched the wait count");
      VP_ASSERT(!vp_active() && !vp_has_cached() && !vp_reserved(), "reset() left input_node state behind (active / cached item / reservation)");   /* WB */
      for (unsigned s = 0; s < 3; s++) if (mode[s] == M_PULL) give_back(s);    /* the pulling successors' own reset: predecessor_cache::reset() */
      VP_ASSERT(bag_n == 0, "an inactive (reset) input_node spawned a task at registration");
      cancelled = 0; activated = 0; reserved = 0; ncons = nprod;             /* an outstanding item is discarded by reset (documented) */
      nprod_max = nprod + NPROD2; if (nprod_max > NPROD + NPROD2) nprod_max = NPROD + NPROD2;
    }
    else if (op == 30) { if (!reserved) continue; vp_release(); reserved = 0; }
    else if (op == 31) { if (!reserved) continue; vp_consume(); reserved = 0; consumed(item[ncons]); }
    else if (op >= 40 && op < 43) { unsigned s = op - 40; if (mode[s] != M_REMOVED) continue; vp_add_succ(s); mode[s] = M_PUSH; }
    settled();
  }
  if (reserved) { vp_release(); reserved = 0; }
  for (int i = 0; i < BAGRUNS; i++) { run_one(0); settled(); }
  VP_ASSERT(bag_n == 0, "VP bound: tasks still pending after BAGRUNS executions");
  VP_ASSERT(n_alloc[0] == n_free, "a finished task was not deallocated / deallocated twice");
  VP_ASSERT(nprod == ncons + (vp_has_cached() ? 1 : 0), "conservation: produced != consumed + cached");
  VP_ASSERT(nbodycalls <= NPROD + NPROD2 + 6, "harness: unexpectedly many body calls");
#ifdef EXPECTALL   /* liveness of the reused node: with a willing successor registered every item was produced and delivered */
  VP_ASSERT(nprod == nprod_max && ncons == nprod, "reused input_node did not produce / deliver all its items (stuck after reset)");
#endif
}
static const unsigned accs[] = { ACCS };
static const unsigned flips[] = { FLIPS };
#ifndef MINFLIP
#define MINFLIP 0
#endif
int main(void) {
  for (unsigned a = 0; a < sizeof accs / sizeof accs[0]; a++)
    for (unsigned f = 0; f < sizeof flips / sizeof flips[0]; f++) run(accs[a], flips[f]);
  VP_ASSERT(nflip_total >= MINFLIP && npull_total >= MINFLIP, "scenario: no edge flip / pull happened in any run of this query");
  VP_REACHED();
}

// C02 `arena_flag` unit: real arena::advertise_new_work<work_spawned|work_enqueued>, arena::out_of_work, has_tasks, atomic_flag, request_workers
// on an arena built by the real arena::allocate_arena. threading_control (adjust_demand, get_waiting_threads_monitor) is the external boundary.
#include "src/tbb/arena.cpp"
using namespace tbb::detail;
using namespace tbb::detail::r1;
extern "C" void vp_done(int tid);
// Pre-state = what arena::allocate_arena(tc, num_slots, num_reserved, prio) leaves in every field that the encoded functions read:
// zeroed storage (its memset) + the scalar assignments of arena::arena(). Mailboxes, task-stream lanes, task dispatchers and the default
// context are NOT constructed (not read by advertise_new_work / out_of_work / has_tasks / arena_slot::spawn); the real constructor's
// allocation loops are too expensive for the solver's symbolic executor.
extern "C" unsigned long vp_arena_alloc_size(unsigned num_slots, unsigned num_reserved) { return arena::allocation_size(arena::num_arena_slots(num_slots, num_reserved)); }
extern "C" arena* vp_arena_prestate(unsigned char* zeroed_storage, threading_control* tc, unsigned num_slots, unsigned num_reserved) {
  arena* a = reinterpret_cast<arena*>(zeroed_storage + arena::num_arena_slots(num_slots, num_reserved) * sizeof(mail_outbox));
  a->my_threading_control = tc;
  a->my_limit = 1;
  a->my_num_slots = arena::num_arena_slots(num_slots, num_reserved);
  a->my_num_reserved_slots = num_reserved;
  a->my_max_num_workers = num_slots - num_reserved;
  a->my_priority_level = 1;
  a->my_references = arena::ref_external;
  a->my_mandatory_requests = 0;
  return a;
}
// producer: what r1::spawn does (task_dispatcher.cpp): slot->spawn(t); a->advertise_new_work<work_spawned>()
extern "C" void vp_thr_spawner(arena* a, d1::task* t, int tid, int slot) {
  a->my_slots[slot].spawn(*t);
  a->advertise_new_work<arena::work_spawned>();
  vp_done(tid);
}
// worker that found nothing and is about to leave (waiters.h outermost_worker_waiter::continue_execution): a->out_of_work()
extern "C" void vp_thr_idle(arena* a, int tid) {
  a->out_of_work();
  vp_done(tid);
}
extern "C" void vp_arena_advertise(arena* a) { a->advertise_new_work<arena::work_spawned>(); }
extern "C" int vp_arena_pool_state(arena* a) { return a->my_pool_state.test(std::memory_order_relaxed); }
extern "C" unsigned long vp_arena_pool_word(arena* a) { return a->my_pool_state.my_state.load(std::memory_order_relaxed); }
extern "C" int vp_arena_has_tasks(arena* a) { return a->has_tasks(); }
extern "C" int vp_arena_max_workers(arena* a) { return a->my_max_num_workers; }
extern "C" void vp_arena_occupy(arena* a, unsigned slot) { a->my_slots[slot].occupy(); unsigned l = a->my_limit.load(); if (l < slot + 1) a->my_limit.store(slot + 1); }
extern "C" void vp_tcm_init(thread_control_monitor* m) { new (m) thread_control_monitor; }
extern "C" unsigned long vp_tcm_waitset_size(thread_control_monitor* m) { return m->my_waitset.size(); }
extern "C" int vp_cmm_is_free(concurrent_monitor_mutex* mx) { return mx->my_flag.load(std::memory_order_relaxed) == 0; }

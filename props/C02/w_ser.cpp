// C02 `serializer` unit: the real thread_request_serializer (pending-delta aggregator in front of thread_dispatcher::adjust_job_count_estimate)
// and thread_request_serializer_proxy (mandatory concurrency). External boundaries: thread_dispatcher::adjust_job_count_estimate (accumulator
// stub) and the r1:: address-waiter entry points used by tbb::mutex / tbb::rw_mutex (idealised wait/notify stub; the real ones are the `addr` harnesses).
#include "src/tbb/thread_request_serializer.cpp"
using namespace tbb::detail;
using namespace tbb::detail::r1;
extern "C" void vp_done(int tid);
extern "C" void vp_thr_upd(thread_request_serializer* s, int tid, int delta) {
  s->thread_request_serializer::update(delta);
  vp_done(tid);
}
extern "C" void vp_thr_lim(thread_request_serializer* s, int tid, int soft_limit) {
  s->set_active_num_workers(soft_limit);
  vp_done(tid);
}
extern "C" void vp_ser_init(thread_request_serializer* s, thread_dispatcher* td, int soft_limit) { new (s) thread_request_serializer(*td, soft_limit); }
extern "C" int vp_ser_total(thread_request_serializer* s) { return s->my_total_request.load(std::memory_order_relaxed); }
extern "C" int vp_ser_limit(thread_request_serializer* s) { return s->my_soft_limit; }
extern "C" int vp_ser_pending_idle(thread_request_serializer* s) { return s->my_pending_delta.load(std::memory_order_relaxed) == thread_request_serializer::pending_delta_base; }
extern "C" int vp_ser_mutex_flag(thread_request_serializer* s) { return s->my_mutex.my_flag.load(std::memory_order_relaxed); }
extern "C" int vp_limit_delta(int delta, int limit, int new_value) { return thread_request_serializer::limit_delta(delta, limit, new_value); }
#if VP_PROXY
// ---- proxy: op 0 register_mandatory_request(+1), 1 register_mandatory_request(-1), 2 set_active_num_workers(limit), 3 update(delta)
extern "C" void vp_thr_proxy(thread_request_serializer_proxy* p, int tid, int op, int arg) {
  if (op == 0) p->register_mandatory_request(1);
  else if (op == 1) p->register_mandatory_request(-1);
  else if (op == 2) p->set_active_num_workers(arg);
  else p->thread_request_serializer_proxy::update(arg);
  vp_done(tid);
}
extern "C" void vp_proxy_register(thread_request_serializer_proxy* p, int d) { p->register_mandatory_request(d); }
extern "C" void vp_proxy_init(thread_request_serializer_proxy* p, thread_dispatcher* td, int soft_limit) { new (p) thread_request_serializer_proxy(*td, soft_limit); }
extern "C" int vp_proxy_mandatory(thread_request_serializer_proxy* p) { return p->my_num_mandatory_requests.load(std::memory_order_relaxed); }
extern "C" int vp_proxy_enabled(thread_request_serializer_proxy* p) { return p->my_is_mandatory_concurrency_enabled; }
extern "C" thread_request_serializer* vp_proxy_ser(thread_request_serializer_proxy* p) { return &p->my_serializer; }
extern "C" long vp_proxy_rw_state(thread_request_serializer_proxy* p) { return p->my_mutex.m_state.load(std::memory_order_relaxed); }
#endif

/* C02 `addr` (shared with C08): tbb::mutex through the REAL src/tbb/address_waiter.cpp:
 *   lock -> try_lock | waitable_atomic::wait -> [timed spin] -> r1::wait_on_address -> address_waiter_table[hash].wait<sleep_node>(pred, {addr,ctx})
 *   unlock -> exchange(false) ; r1::notify_by_address_one -> notify_one_relaxed(pred)
 * NT threads, OPi: 0 = lock;cs;unlock  1 = try_lock;[cs;unlock]  2 = starts as the holder (real try_lock run before the threads start), unlocks. Futex syscall stubbed (futex_stub.h).
 * Oracles: mutual exclusion; truthful try_lock; blocked-state oracle (a thread asleep in wait_on_address while the mutex is free and
 * nobody else will notify = lost wake-up); at the end: mutex free, its address-waiter slot empty, slot mutex free, no waiter count leak,
 * nobody left in the kernel futex queue. */
#include "w.h"
#include "vp.h"
#define FX_NT NT
#include "futex_stub.h"
struct S_class_tbb__detail__d1__mutex MTX;
int holders, entered[3], try_ok[3];
void vp_enter(u32 tid, u32 w) { VP_ASSERT(holders == 0, "mutual exclusion: two holders inside the critical section"); holders++; entered[tid] = 1; }
void vp_leave(u32 tid, u32 w) { holders--; }
void vp_try_result(u32 tid, u32 ok) { try_ok[tid] = ok; if (ok) VP_ASSERT(holders == 0, "try_lock reported success while the mutex was held"); }
/* ---- stubs */
#include "addr_stubs.h"
#include "closure_stub.h"
VP_CLOSURE_STUB(_ZN3tbb6detail2d021timed_spin_wait_untilIZNS0_2d115waitable_atomicIbE4waitEbmSt12memory_orderEUlvE_EEbT_) {
  VP_POLL(_ZNK3tbb6detail2d118delegated_functionIZNS1_15waitable_atomicIbE4waitEbmSt12memory_orderEUlvE_EclEv, closure)
}
#define THR(s) vp_thr_mutex_##s
int main(void) {
  vp_mutex_init(&MTX); vp_aw_init(&SLOT);
#define PRELOCK(i, op) if ((op) == 2) { int ok = vp_mutex_prelock(&MTX); VP_ASSERT(ok && holders == 0, "pre-state: try_lock on a free mutex"); holders = 1; entered[i] = 1; }
  PRELOCK(0, OP0) PRELOCK(1, OP1)
#if NT == 3
  PRELOCK(2, OP2)
#endif
  THR(a_start)(&MTX, 0, OP0); THR(b_start)(&MTX, 1, OP1);
#if NT == 3
  THR(c_start)(&MTX, 2, OP2);
#endif
  for (int r = 0; r < ROUNDS; r++) {
    VP_RUNT(THR(a), 0) VP_RUNT(THR(b), 1)
#if NT == 3
    VP_RUNT(THR(c), 2)
#endif
  }
#if NT == 3
  VP_QUIESCE3(THR(a), THR(b), THR(c))
#else
  VP_QUIESCE2(THR(a), THR(b))
#endif
  VP_ASSERT(!vp_deadlock, "lost wake-up / deadlock: every unfinished thread is asleep or blocked and nothing changes");
  __CPROVER_assume(!vp_unfinished);
  VP_ASSERT(OP0 == 1 || entered[0], "blocking lock returned without entering");
  VP_ASSERT(OP1 == 1 || entered[1], "blocking lock returned without entering");
  int others0 = entered[1], others1 = entered[0];
#if NT == 3
  VP_ASSERT(OP2 == 1 || entered[2], "blocking lock returned without entering");
  others0 |= entered[2]; others1 |= entered[2];
  if (OP2 == 1 && !try_ok[2]) VP_ASSERT(entered[0] || entered[1], "try_lock failed although nobody else ever held the mutex");
#endif
  if (OP0 == 1 && !try_ok[0]) VP_ASSERT(others0, "try_lock failed although nobody else ever held the mutex");
  if (OP1 == 1 && !try_ok[1]) VP_ASSERT(others1, "try_lock failed although nobody else ever held the mutex");
  VP_ASSERT(vp_mutex_flag(&MTX) == 0, "mutex not free after all holders released");
  VP_ASSERT(vp_aw_waitset_size(&SLOT) == 0 && vp_aw_list_closed(&SLOT), "address waiter slot not empty at the end");
  VP_ASSERT(vp_aw_mutex_flag(&SLOT) == 0 && vp_aw_mutex_waiters(&SLOT) == 0, "address waiter slot mutex held / waiter count leaked");
  VP_ASSERT(!fx_anyone_sleeping(), "a thread finished while the kernel still has it queued on a futex");
  VP_REACHED();
  return 0;
}

/* C02 `addr_mutex_shared` (also meant for C08): TWO real tbb::mutex objects A and B whose addresses hash to the SAME address_waiter monitor
 * (get_address_waiter is cut to one harness-owned slot, so any two mutexes share it - the collision case of the real 2048-entry table).
 * Pre-state by construction: A and B are held by the owner (real try_lock); TA runs A.lock() until it is asleep in wait_on_address, THEN TB runs
 * B.lock() until it is asleep (forced first slices; wait-set order: TA older than TB). Then the owner thread runs WHICH ? A.unlock() : B.unlock()
 * (the other mutex stays held for good) while the sleepers get free slices.
 * Oracle: no quiescent state (every unfinished thread asleep/blocked, nothing changes) in which the sleeper of the released mutex has not got it:
 * unlock() must wake a sleeper of ITS address even if a sleeper of another address sits in the same monitor queue (a woken wrong sleeper
 * re-checks, sleeps again, and the notification is gone). The sleeper of the mutex that stays held remains parked: legal. Plus mutual exclusion
 * per mutex and a consistent end state (released mutex free again after its new owner unlocked, the other one held, exactly the legal sleeper
 * left in the wait set, slot lock free). */
#include "w.h"
#include "vp.h"
#define FX_NT 3
#include "futex_stub.h"
struct S_class_tbb__detail__d1__mutex MA_, MB_;
int holders[2], entered[3];
static int mtx_of(u32 tid) { return tid == 0 ? 0 : tid == 1 ? 1 : WHICH ? 0 : 1; }
void vp_enter(u32 tid, u32 w) { int k = mtx_of(tid); VP_ASSERT(holders[k] == 0, "mutual exclusion: two holders of one mutex"); holders[k]++; entered[tid] = 1; }
void vp_leave(u32 tid, u32 w) { holders[mtx_of(tid)]--; }
void vp_try_result(u32 tid, u32 ok) {}
#include "addr_stubs.h"
#include "closure_stub.h"
VP_CLOSURE_STUB(_ZN3tbb6detail2d021timed_spin_wait_untilIZNS0_2d115waitable_atomicIbE4waitEbmSt12memory_orderEUlvE_EEbT_) {
  VP_POLL(_ZNK3tbb6detail2d118delegated_functionIZNS1_15waitable_atomicIbE4waitEbmSt12memory_orderEUlvE_EclEv, closure)
}
#define TA vp_thr_mutex_a
#define TB vp_thr_mutex_b
#define TO vp_thr_mutex_c
#ifndef EXTRA
#define EXTRA 1
#endif
#if WHICH
#define TWOKEN TA
#define TPARKED TB
#else
#define TWOKEN TB
#define TPARKED TA
#endif
#define FIN(t) FIN_(t)
#define FIN_(t) t##_fin
#define BLK(t) BLK_(t)
#define BLK_(t) t##_blocked
int main(void) {
  vp_mutex_init(&MA_); vp_mutex_init(&MB_); vp_aw_init(&SLOT);
  { int ok = vp_mutex_prelock(&MA_) && vp_mutex_prelock(&MB_); VP_ASSERT(ok, "pre-state: the owner holds A and B"); holders[0] = holders[1] = 1; }
  vp_thr_mutex_a_start(&MA_, 0, 0); vp_thr_mutex_b_start(&MB_, 1, 0); vp_thr_mutex_c_start(WHICH ? &MA_ : &MB_, 2, 2);
  /* sequential prefix: TA parks, then TB parks */
  vp_cur = 0; VP_RUNMAX(TA) vp_cur = 1; VP_RUNMAX(TB)
  VP_ASSERT(BLK(TA) && BLK(TB) && fx_sleeping[0] && fx_sleeping[1] && vp_aw_waitset_size(&SLOT) == 2, "pre-state: both sleepers are asleep in the shared monitor, TA first");
  for (int r = 0; r < ROUNDS; r++) {
    VP_RUNT(TO, 2) VP_RUNT(TA, 0) VP_RUNT(TB, 1)
    for (int x = 0; x < EXTRA; x++) { VP_RUNT(TO, 2) VP_RUNT(TWOKEN, WHICH ? 0 : 1) }   /* list walks over the other sleeper's node cost one slice per node (unroll 1) */
  }
  VP_QUIESCE3(TA, TB, TO)
  VP_ASSERT(!(vp_deadlock && !FIN(TWOKEN)), "lost wake-up: the mutex was released but its sleeper is still asleep (a sleeper of another mutex sharing the monitor was woken instead, or nobody) and nothing can change any more");
  __CPROVER_assume(FIN(TWOKEN) && FIN(TO));
  VP_ASSERT(entered[WHICH ? 0 : 1], "the woken sleeper returned from lock() without entering");
  VP_ASSERT(!FIN(TPARKED) && !entered[WHICH ? 1 : 0], "the sleeper of the mutex that stays held cannot have acquired it");
  VP_ASSERT(vp_mutex_flag(WHICH ? &MA_ : &MB_) == 0 && vp_mutex_flag(WHICH ? &MB_ : &MA_) == 1, "released mutex free again / the other one still held");
  if (vp_deadlock) {   /* global quiescence reached: the other sleeper is parked (a spurious wake-up of it on the way is legal: it re-checks and parks again) */
    VP_ASSERT(BLK(TPARKED) && vp_aw_waitset_size(&SLOT) == 1, "at quiescence exactly the sleeper of the held mutex is parked in the shared wait set");
    VP_ASSERT(vp_aw_mutex_flag(&SLOT) == 0 && vp_aw_mutex_waiters(&SLOT) == 0, "slot lock held / waiter count leaked");
    VP_ASSERT(fx_sleeping[WHICH ? 1 : 0] && !fx_sleeping[WHICH ? 0 : 1] && !fx_sleeping[2], "kernel futex queue: only the legal sleeper");
  }
  VP_REACHED();
  return 0;
}

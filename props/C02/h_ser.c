/* C02 `serializer`: real thread_request_serializer::update (pending-delta aggregator) [+ set_active_num_workers].
 * NU updater threads call update(d_i) with symbolic d_i in [-DMAX, DMAX]; optionally (LIMTHR) one more thread calls
 * set_active_num_workers(L1) with symbolic L1; initial soft limit L0 symbolic in [0, LMAX].
 * Stub thread_dispatcher::adjust_job_count_estimate(delta) accumulates the estimate handed to the thread server.
 * Oracles at quiescence: no update lost or duplicated: my_total_request == sum d_i, pending word idle;
 *   estimate == min(limit_final, total) (what a single sequential update of the sum would have produced: telescoping of limit_delta);
 *   adjust_job_count_estimate is never entered by two threads at once (it is serialised by my_mutex); no deadlock. */
#include "w.h"
#include "vp.h"
struct S_class_tbb__detail__r1__thread_request_serializer S;
u8 TD[64];   /* thread_dispatcher is only passed through by reference */
long estimate; int in_adjust, done[3];
void vp_done(u32 tid) { done[tid] = 1; }
void _ZN3tbb6detail2r117thread_dispatcher25adjust_job_count_estimateEi(struct S_class_tbb__detail__r1__thread_dispatcher* td, u32 delta) {
  VP_ASSERT((u8*)td == TD, "adjust_job_count_estimate on the wrong dispatcher");
  VP_ASSERT(vp_ser_mutex_flag(&S) == 1, "adjust_job_count_estimate called without holding the serializer mutex");
  estimate += (int)delta;
}
void _ZdlPv(u8* p) { VP_ASSERT(0, "operator delete"); }
/* tbb::mutex slow path. timed_spin_wait_until: one poll of the real lambda (see addr_stubs.h for the argument). r1::wait_on_address /
 * notify_by_address_*: idealised: the waiter is parked until its wake-up condition (the real delegate) holds; the real implementation is
 * checked by the addr_* harnesses. */
struct vp_df { void* vptr; void* closure; };
#include "closure_stub.h"
VP_CLOSURE_STUB(_ZN3tbb6detail2d021timed_spin_wait_untilIZNS0_2d115waitable_atomicIbE4waitEbmSt12memory_orderEUlvE_EEbT_) {
  struct vp_df df; df.vptr = 0; df.closure = closure;
  return _ZNK3tbb6detail2d118delegated_functionIZNS1_15waitable_atomicIbE4waitEbmSt12memory_orderEUlvE_EclEv((void*)&df);
}
void _ZN3tbb6detail2r115wait_on_addressEPvRNS0_2d113delegate_baseEm(u8* addr, struct S_class_tbb__detail__d1__delegate_base* pred, u64 ctx) {
  if (!_ZNK3tbb6detail2d118delegated_functionIZNS1_15waitable_atomicIbE4waitEbmSt12memory_orderEUlvE_EclEv((void*)pred)) VP_BLOCK();
}
void _ZN3tbb6detail2r121notify_by_address_oneEPv(u8* addr) {}
void _ZN3tbb6detail2r117notify_by_addressEPvm(u8* addr, u64 ctx) {}
void _ZN3tbb6detail2r121notify_by_address_allEPv(u8* addr) {}
#ifndef DMAX
#define DMAX 3
#endif
#ifndef LMAX
#define LMAX 4
#endif
static int nd_int(int lo, int hi) { return (int)vp_nd_range(0, (u64)(hi - lo)) + lo; }
int main(void) {
  int l0 = nd_int(0, LMAX), l1 = l0;
  vp_ser_init(&S, (struct S_class_tbb__detail__r1__thread_dispatcher*)TD, l0);
  int d0 = nd_int(-DMAX, DMAX), d1 = nd_int(-DMAX, DMAX), d2 = 0;
  vp_thr_upd_a_start(&S, 0, d0); vp_thr_upd_b_start(&S, 1, d1);
#if NU == 3
  d2 = nd_int(-DMAX, DMAX);
  vp_thr_upd_c_start(&S, 2, d2);
#define T_C vp_thr_upd_c
#elif defined(LIMTHR)
  l1 = nd_int(0, LMAX);
  vp_thr_lim_c_start(&S, 2, l1);
#define T_C vp_thr_lim_c
#endif
  for (int r = 0; r < ROUNDS; r++) {
    VP_RUNT(vp_thr_upd_a, 0) VP_RUNT(vp_thr_upd_b, 1)
#ifdef T_C
    VP_RUNT(T_C, 2)
#endif
  }
#ifdef T_C
  VP_QUIESCE3(vp_thr_upd_a, vp_thr_upd_b, T_C)
#else
  VP_QUIESCE2(vp_thr_upd_a, vp_thr_upd_b)
#endif
  VP_ASSERT(!vp_deadlock, "deadlock: every unfinished thread is blocked and nothing changes");
  __CPROVER_assume(!vp_unfinished);
  int sum = d0 + d1 + d2;
  VP_ASSERT(vp_ser_pending_idle(&S), "pending-delta word not idle at quiescence (an update is still pending: lost request)");
  VP_ASSERT((int)vp_ser_total(&S) == sum, "my_total_request != sum of the deltas (lost or duplicated update)");
  VP_ASSERT((int)vp_ser_limit(&S) == l1, "soft limit not the one set last");
  VP_ASSERT(estimate == (sum < l1 ? sum : l1), "job count estimate handed to the thread server != min(soft_limit, total request)");
  VP_ASSERT(vp_ser_mutex_flag(&S) == 0, "serializer mutex still held");
  VP_REACHED();
  return 0;
}

/* C02 `monitor`: real concurrent_monitor_base<uintptr_t> + sleep_node + binary_semaphore (futex 0/1/2) + concurrent_monitor_mutex.
 * NS sleepers (threads a[,b]) wait for "FLAG >= NEEDi" ; 1 notifier (last thread) publishes the event and notifies.
 * Scenario (concrete): SOPi = how sleeper i waits (0 wait(pred,node), 1 manual prepare/commit loop), CTXi/NEEDi its context / ticket,
 * NOP = what the notifier does (see w_mon.cpp), VAL = value it publishes.
 * Oracles: (1) blocked-state oracle: no quiescent state with an unfinished thread (a sleeper asleep although its condition holds,
 * the notifier being done = lost wake-up); (2) a wait returns only when the condition holds (no wake-up before the event);
 * (3) at the end: wait set empty and closed, monitor mutex free with no registered waiters, nobody left in the kernel futex queue,
 * epoch = number of notifications that found a non-empty wait set (<= notifications), no semaphore has a pending V (token leak),
 * and no semaphore word changed after its node died (V on a destroyed node). */
#include "w.h"
#include "vp.h"
#define FX_NT (NS + 1)
#include "futex_stub.h"
struct S_class_tbb__detail__r1__concurrent_monitor_base M;
struct S_struct_std__atomic FLAG;
static struct S_class_tbb__detail__r1__sleep_node* node[NS];
static int born[NS], dead[NS], sem_at_death[NS], woke[NS], notified;

/* ---- observers */
void vp_node_born(u32 tid, struct S_class_tbb__detail__r1__sleep_node* n) { node[tid] = n; born[tid] = 1; }
void vp_node_dead(u32 tid) {
  dead[tid] = 1; sem_at_death[tid] = (int)vp_node_sem(node[tid]);
  VP_ASSERT(sem_at_death[tid] != 0, "semaphore destroyed with a pending V (skipped wake-up never pumped)");
  VP_ASSERT(!vp_node_in_list(node[tid]), "wait node destroyed while still linked in the wait set");
}
void vp_woke(u32 tid, u32 cond, u32 committed) {
  woke[tid] = 1;
  VP_ASSERT(cond, "wait returned although the waited-for condition does not hold (woken without an event)");
}
void vp_notified(u32 tid) { notified = 1; }
/* ---- stubs */
void _ZN3tbb6detail2r115throw_exceptionENS0_2d012exception_idE(u32 id) { VP_ASSERT(0, "throw_exception: no abort in this scenario"); }
void vpx___cxa_pure_virtual(void) { VP_ASSERT(0, "pure virtual call"); }
void _ZdlPv(u8* p) { VP_ASSERT(0, "operator delete: nodes live on the stack"); }
/* cut: d0::timed_spin_wait_until(cond) in concurrent_monitor_mutex::lock = poll cond a bounded number of times (pause/yield
 * between polls), return the last poll. Contract stub: one poll. Polls have no side effect, so k failed polls followed by
 * "time is up" are indistinguishable from one failed poll, and a successful poll from being scheduled at that moment. */
u8 _ZN3tbb6detail2d021timed_spin_wait_untilIZNS0_2r124concurrent_monitor_mutex4lockEvEUlvE_EEbT_(struct S_class_tbb__detail__r1__concurrent_monitor_mutex* mx) {
  return (u8)vp_cmm_is_free(mx);
}

#ifndef CTX0
#define CTX0 1
#endif
#ifndef NEED0
#define NEED0 1
#endif
#ifndef CTX1
#define CTX1 2
#endif
#ifndef NEED1
#define NEED1 1
#endif
#ifndef NEXTRA
#define NEXTRA 0
#endif
#ifndef VAL
#define VAL 1
#endif
#define NNOTIFY ((NOP == 3 || NOP == 4) ? 2 : 1)
#define CAT_START(t) CAT_START_(t)
#define CAT_START_(t) t##_start
#if NS == 1
#define T_N vp_thr_notifier_b
#else
#define T_N vp_thr_notifier_c
#endif
int main(void) {
  vp_mon_init(&M);
  vp_thr_sleeper_a_start(&M, &FLAG, 0, CTX0, NEED0, SOP0);
#if NS == 2
  vp_thr_sleeper_b_start(&M, &FLAG, 1, CTX1, NEED1, SOP1);
#endif
  CAT_START(T_N)(&M, &FLAG, NS, VAL, NOP);
  for (int r = 0; r < ROUNDS; r++) {
    VP_RUNT(vp_thr_sleeper_a, 0)
#if NS == 2
    VP_RUNT(vp_thr_sleeper_b, 1)
#endif
    VP_RUNT(T_N, NS)
    /* the notifier's list-walking loops (notify_all / notify(pred)) advance one iteration per slice (LLVM unroll 1, back edge = end of slice):
       with two enqueued sleepers it needs 5 slices to get through, so it is scheduled NEXTRA more times per round (only adds schedules) */
    for (int x = 0; x < NEXTRA; x++) { VP_RUNT(T_N, NS) }
  }
#if NS == 2
  VP_QUIESCE3(vp_thr_sleeper_a, vp_thr_sleeper_b, T_N)
#else
  VP_QUIESCE2(vp_thr_sleeper_a, T_N)
#endif
  VP_ASSERT(!vp_deadlock, "lost wake-up: every unfinished thread is asleep/blocked although the event was published and nothing changes");
  __CPROVER_assume(!vp_unfinished);
  for (int i = 0; i < NS; i++) {
    VP_ASSERT(woke[i] && dead[i], "sleeper finished without returning from its wait");
    VP_ASSERT((int)vp_node_sem(node[i]) == sem_at_death[i], "semaphore of a destroyed wait node was touched afterwards (V on a dead node)");
  }
  VP_ASSERT(vp_mon_waitset_size(&M) == 0 && vp_mon_list_closed(&M), "wait set not empty / list corrupted at the end");
  VP_ASSERT(vp_mon_mutex_flag(&M) == 0, "monitor mutex still held at the end");
  VP_ASSERT(vp_mon_mutex_waiters(&M) == 0, "monitor mutex waiter count leaked");
  VP_ASSERT(!fx_anyone_sleeping(), "a thread finished while the kernel still has it queued on a futex");
  VP_ASSERT(vp_mon_epoch(&M) <= NNOTIFY, "epoch advanced more often than notifications were issued");
  VP_REACHED();
  return 0;
}

/* Stub definition for a cut function whose parameter is a pointer to a compiler-generated lambda closure: the generated C name of that closure
 * struct (S_class_anon_<n>) depends on how many other lambdas the TU contains, so it must not be spelled in a harness (a source change that adds or
 * removes a lambda would make the native replay build fail with "conflicting types" while cbmc, which treats all object pointers as compatible,
 * still reports the counterexample -> INCONCLUSIVE instead of VIOLATION). cbmc: define the function with a void* parameter. Native (gcc): define it
 * under another C identifier bound to the same assembler symbol; the calls in the generated w.c resolve to it at link time. */
#ifndef VP_CLOSURE_STUB_H
#define VP_CLOSURE_STUB_H
#ifdef VP_NATIVE
#define VP_CLOSURE_STUB(NAME) u8 vp_stub__##NAME(void* closure) __asm__(#NAME); u8 vp_stub__##NAME(void* closure)
#else
#define VP_CLOSURE_STUB(NAME) u8 NAME(void* closure)
#endif
#endif

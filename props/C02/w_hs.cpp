// C02 `mutex_handshake_{sc,tso}`: the Dekker hand-shake between tbb::mutex::unlock() and a sleeper, minimal enough for the store-buffer (x86-TSO) model.
//   U: REAL d1::mutex::unlock(): my_flag.exchange(false); my_flag.notify_one_relaxed() -> r1::notify_by_address_one -> notify_one_relaxed(pred):
//      if (my_waitset.empty()) return; ... lock, epoch++, dequeue, V
//   W: REAL waitable_atomic<bool>::wait(true, 0, relaxed) past its spinning phase [timed_spin_wait_until cut: "time is up"] ->
//      r1::wait_on_address -> monitor.wait<sleep_node>(pred, ctx): prepare_wait (wait-set insertion under the real concurrent_monitor_mutex, then
//      atomic_fence_seq_cst) -> predicate re-check (load of the mutex word) -> commit_wait | cancel_wait
// Cut: get_address_waiter (one slot), binary_semaphore::P/V (one-flag stub), timed_spin_wait_until, concurrent_monitor_mutex::lock/unlock (plain lock
// whose acquire/release are full fences, as the real locked exchanges are).
#include "src/tbb/address_waiter.cpp"
#include "oneapi/tbb/mutex.h"
using namespace tbb::detail;
extern "C" void vp_done(int tid);
extern "C" void vp_thr_unlocker(d1::mutex* m, int tid) { m->unlock(); vp_done(tid); }
extern "C" void vp_thr_sleeper(d1::mutex* m, int tid) { m->my_flag.wait(true, /*context*/ 0, std::memory_order_relaxed); vp_done(tid); }
extern "C" void vp_mutex_init_locked(d1::mutex* m) { new (m) d1::mutex; bool ok = m->try_lock(); (void)ok; }
extern "C" int vp_mutex_flag(d1::mutex* m) { return m->my_flag.load(std::memory_order_relaxed); }
extern "C" void vp_aw_init(r1::address_waiter* w) { new (w) r1::address_waiter; }
extern "C" unsigned long vp_aw_waitset_size(r1::address_waiter* w) { return w->my_waitset.size(); }
extern "C" int vp_aw_mutex_flag(r1::address_waiter* w) { return w->my_mutex.my_flag.load(std::memory_order_relaxed); }
extern "C" int vp_cmm_is_free(r1::concurrent_monitor_mutex* mx) { return mx->my_flag.load(std::memory_order_relaxed) == 0; }

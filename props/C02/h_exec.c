/* C02 `execute_slot_wait`: waiting for a free slot in task_arena::execute (src/tbb/arena.cpp task_arena_impl::execute).
 * Arena A: 2 slots (1 reserved), all occupied when the threads start. Threads (MODE bit 1: L present; GATE: W is the entrant's own dispatch loop):
 *   E (tid 0): REAL task_arena_impl::execute(ta, d): occupy_free_slot fails -> delegated_task, enqueue_task [cut: recorded] ->
 *              do { my_exit_monitors.prepare_wait(waiter); if (!wo.continue_execution()) {cancel_wait; break;} index2 = occupy_free_slot;
 *              if (index2 != out_of_arena) {cancel_wait; nested_arena_context; r1::wait [stub: runs the recorded task]; break;} commit_wait } while (...)
 *              (if the leaver is faster, E gets a slot at once and runs d() directly: also legal)
 *   L (tid 1): an execute() caller that entered earlier through the real occupy_free_slot + nested_arena_context constructor, now leaving through
 *              the REAL ~nested_arena_context(): ... my_arena_slot->release(); my_exit_monitors.notify_one()
 *   W        : whoever executes the delegated task (a worker in the other slot; with GATE=1 the entrant's own dispatch loop inside r1::wait, see the stub): REAL delegated_task::execute -> d(); finalize():
 *              m_wait_ctx.release(); m_monitor.notify(ctx == &delegate)
 * LSLOT = slot the leaver occupies (0 reserved slot / 1 worker slot: then the real request_workers(0,+-1) calls are made too).
 * Oracles: blocked-state oracle (E asleep in its semaphore although a slot is free / its work is done and nobody else will notify);
 * the functor ran exactly once when E returns; at the end: every slot that L/E used is free again, the permanently occupied slot still is,
 * exit monitor wait set empty and its mutex free, nobody in the kernel futex queue, thread_data of E and L re-attached to their home arena,
 * net worker-demand delta 0. */
#include "w.h"
#include "vp.h"
#define HAS_L (MODE & 1)
#define HAS_W (MODE & 2)
#define FX_NT 3
#include "futex_stub.h"
typedef struct S_class_tbb__detail__r1__arena ARENA;
typedef struct S_class_tbb__detail__r1__thread_data TD;
typedef struct S_class_tbb__detail__r1__task_dispatcher DISP;
/* zero-initialised memory with the layout allocate_arena uses: [mail_outbox x slots][arena incl. slot 0][slot 1] */
struct amem { struct S_class_tbb__detail__r1__mail_outbox mb[2]; ARENA a; struct S_class_tbb__detail__r1__arena_slot slot1; u8 pad[256]; };
extern struct amem MA; struct amem MHOME_E, MHOME_L;          /* the arena under test; the (other) arenas E and L come from */
u8 TC[512] __attribute__((aligned(64)));
DISP SLOTDISP[2], DISP_E, DISP_L;
TD TD_E, TD_L, TD_W;
struct S_class_tbb__detail__d1__task_arena_base TA;
struct S_class_tbb__detail__r1__nested_arena_context SCOPE_L;
int functor_calls, done[3];
struct S_class_tbb__detail__d1__task* enq_task; int n_enq, task_taken, task_finished;
struct S_class_tbb__detail__d1__wait_context* enq_wo;
long demand;

void vp_functor(u32 tid) { VP_ASSERT(tid == 0, "functor of an unexpected delegate"); functor_calls++; }
void vp_done(u32 tid) { done[tid] = 1; if (tid == 0) VP_ASSERT(functor_calls == 1, "execute() returned but its functor did not run exactly once"); }
/* ptrhooks: the only integer->pointer conversion on these paths is the load of task_arena_base::my_arena (an atomic<arena*> read as a word);
 * tell the solver which object the word denotes (an integer of unknown provenance would make every later access a case split over all objects) */
struct amem MA;
u64 vp_p2i(u8* p) { return (u64)p; }
u8* vp_i2p(u64 x) { return (u8*)&MA.a; }   /* total and constant (it is also evaluated on not-yet-reached code during prefix replay); main() checks that the word in TA is &MA.a */
/* ---- external boundary */
static TD* cur_td(void) { return vp_cur == 0 ? &TD_E : vp_cur == 1 && HAS_L ? &TD_L : &TD_W; }
u8* vpx_pthread_getspecific(u32 key) { return (u8*)cur_td(); }            /* governor::get_thread_data(): the calling thread's thread_data */
void _ZN3tbb6detail2r18governor20init_external_threadEv(void) { VP_ASSERT(0, "thread_data exists"); }
/* cut: arena::enqueue_task(dt, ctx, td) = push to the FIFO stream + advertise_new_work<work_enqueued> (arena_flag / C01 cover those): record it */
void _ZN3tbb6detail2r15arena12enqueue_taskERNS0_2d14taskERNS3_18task_group_contextERNS1_11thread_dataE(ARENA* a, struct S_class_tbb__detail__d1__task* t,
    struct S_class_tbb__detail__d1__task_group_context* ctx, TD* td) { VP_ASSERT(a == &MA.a && n_enq == 0, "one delegated task"); enq_task = t; n_enq++; }
/* r1::wait(wo, ctx): the entrant now owns a slot and runs the dispatch loop until wo is released. The dispatch loop is modelled by model thread W
 * (real delegated_task::execute on the entrant's current dispatcher): with GATE the recorded task becomes available to W only once the entrant
 * is in here (nobody else can run it: both other occupants are busy); without GATE W is an independent worker. The stub parks the entrant until
 * wo is released (wait_context::release -> notify_waiters is what wakes it in reality). */
int e_in_wait;
void _ZN3tbb6detail2r14waitERNS0_2d112wait_contextERNS2_18task_group_contextE(struct S_class_tbb__detail__d1__wait_context* wo, struct S_class_tbb__detail__d1__task_group_context* ctx) {
  if (!e_in_wait) { e_in_wait = 1; vp_changed = 1; }
  if (!vp_wait_ctx_done(wo)) VP_BLOCK();
}
struct S_class_tbb__detail__d1__task* vp_take_task(u32 tid) {
  if (done[0]) return 0;                                   /* the entrant needed no delegation (it got a slot at once) */
  if (!n_enq || (GATE && !e_in_wait)) { VP_BLOCK(); return 0; }
  VP_ASSERT(!task_taken, "delegated task taken twice"); task_taken = 1; vp_changed = 1; return enq_task;
}
void _ZN3tbb6detail2r114notify_waitersEm(u64 w) {}                          /* wakes threads parked in r1::wait on this wait_context: the stub above polls */
void _ZN3tbb6detail2r117threading_control13adjust_demandENS1_24threading_control_clientEii(struct S_class_tbb__detail__r1__threading_control* tc,
    struct S_class_tbb__detail__r1__pm_client* c1, struct S_class_tbb__detail__r1__thread_dispatcher_client* c2, u32 md, u32 wd) { demand += (int)wd; }
void _ZN3tbb6detail2r123task_group_context_impl16copy_fp_settingsERNS0_2d118task_group_contextERKS4_(struct S_class_tbb__detail__d1__task_group_context* a, struct S_class_tbb__detail__d1__task_group_context* b) {}
void _ZN3tbb6detail2r110initializeERNS0_2d118task_group_contextE(struct S_class_tbb__detail__d1__task_group_context* c) {}
void _ZN3tbb6detail2r17destroyERNS0_2d118task_group_contextE(struct S_class_tbb__detail__d1__task_group_context* c) {}
void _ZN3tbb6detail2r117tbb_exception_ptr10throw_selfEv(struct S_class_tbb__detail__r1__tbb_exception_ptr* e) { VP_ASSERT(0, "no exception in this scenario"); }
void _ZN3tbb6detail2r113observer_list25do_notify_entry_observersERPNS1_14observer_proxyEb(struct S_class_tbb__detail__r1__observer_list* l, struct S_class_tbb__detail__r1__observer_proxy** p, u8 w) { VP_ASSERT(0, "no observers"); }
void _ZN3tbb6detail2r113observer_list24do_notify_exit_observersEPNS1_14observer_proxyEb(struct S_class_tbb__detail__r1__observer_list* l, struct S_class_tbb__detail__r1__observer_proxy* p, u8 w) { VP_ASSERT(0, "no observers"); }
void _ZN3tbb6detail2r117do_throw_noexceptEPFvvE(vp_fn f) { VP_ASSERT(0, "do_throw_noexcept"); }
void _ZN3tbb6detail2r115throw_exceptionENS0_2d012exception_idE(u32 id) { VP_ASSERT(0, "throw_exception"); }
void vpx___cxa_pure_virtual(void) { VP_ASSERT(0, "pure virtual call"); }
void _ZdlPv(u8* p) { VP_ASSERT(0, "operator delete"); }
void vpx___clang_call_terminate(u8* p) { VP_ASSERT(0, "terminate"); }
u8 _ZN3tbb6detail2d021timed_spin_wait_untilIZNS0_2r124concurrent_monitor_mutex4lockEvEUlvE_EEbT_(struct S_class_tbb__detail__r1__concurrent_monitor_mutex* mx) { return (u8)vp_cmm_is_free(mx); }

#if HAS_L
#define T_L vp_thr_leaver_b
#define T_W vp_thr_worker_c
#else
#define T_W vp_thr_worker_b
#endif
#undef HAS_W
#define HAS_W 1
#define START(t) START_(t)
#define START_(t) t##_start
int main(void) {
  vp_arena_prestate(&MA.a, (struct S_class_tbb__detail__r1__threading_control*)TC, 2, 1, SLOTDISP);
  vp_ta_set(&TA, &MA.a);
  VP_ASSERT(vp_ta_get(&TA) == &MA.a, "pre-state: the task_arena refers to the arena under test (see vp_i2p)");
  vp_td_prestate(&TD_E, &MHOME_E.a, &DISP_E);
  unsigned perm = HAS_L ? 1 - LSLOT : 0;            /* slot of the occupant that never leaves (the worker W, if present) */
  { int ok = vp_slot_occupy(&MA.a, perm); VP_ASSERT(ok, "pre-state: permanent occupant"); }
#if HAS_L
  vp_td_prestate(&TD_L, &MHOME_L.a, &DISP_L);
  { u64 idx = vp_enter_nested(&SCOPE_L, &TD_L, &MA.a); VP_ASSERT(idx == LSLOT, "pre-state: the leaver entered the remaining slot through the real path"); }
#else
  { int ok = vp_slot_occupy(&MA.a, 1); VP_ASSERT(ok, "pre-state: second permanent occupant"); }
#endif
#if !GATE
  vp_worker_attach(&TD_W, &MA.a, HAS_L ? perm : 1);
#endif
  long demand0 = demand;
  vp_thr_entrant_a_start(&TA, 0);
#if HAS_L
  START(T_L)(&SCOPE_L, 1);
#endif
#if HAS_W
  START(T_W)(GATE ? &TD_E : &TD_W, HAS_L ? 2 : 1);
#endif
  for (int r = 0; r < ROUNDS; r++) {
    VP_RUNT(vp_thr_entrant_a, 0)
#if HAS_L
    VP_RUNT(T_L, 1)
#endif
#if HAS_W
    VP_RUNT(T_W, HAS_L ? 2 : 1)
#endif
    for (int x = 0; x < EXTRA_E; x++) { VP_RUNT(vp_thr_entrant_a, 0) }     /* E's loops (wait loop, destructor pump) take one iteration per slice */
  }
#if HAS_L
  VP_QUIESCE3(vp_thr_entrant_a, T_L, T_W)
#else
  VP_QUIESCE2(vp_thr_entrant_a, T_W)
#endif
  VP_ASSERT(!vp_deadlock, "lost wake-up: the entrant sleeps on the exit monitor although a slot is free / its work is done and nobody else will notify");
  __CPROVER_assume(!vp_unfinished);
  VP_ASSERT(functor_calls == 1, "functor did not run exactly once");
  VP_ASSERT(vp_slot_occupied(&MA.a, perm), "the permanent occupant lost its slot");
#if HAS_L
  VP_ASSERT(!vp_slot_occupied(&MA.a, LSLOT), "the slot used by the leaver / the entrant is still occupied at the end");
  VP_ASSERT(vp_td_arena(&TD_L) == &MHOME_L.a, "leaver not re-attached to its home arena");
#else
  VP_ASSERT(vp_slot_occupied(&MA.a, 1), "second permanent occupant lost its slot");
#endif
  VP_ASSERT(vp_td_arena(&TD_E) == &MHOME_E.a, "entrant not re-attached to its home arena");
  VP_ASSERT(vp_exit_waitset_size(&MA.a) == 0 && vp_exit_mutex_flag(&MA.a) == 0, "exit monitor wait set not empty / mutex held at the end");
  VP_ASSERT(!fx_anyone_sleeping(), "a thread finished while the kernel still has it queued on a futex");
  VP_ASSERT(demand - demand0 == (HAS_L && LSLOT == 1 ? 1 : 0), "net worker demand: +1 for the freed worker slot iff the leaver held it, otherwise unchanged");
  VP_REACHED();
  return 0;
}

/* C02 `execute_slot_wait`: waiting for a free slot in task_arena::execute (src/tbb/arena.cpp task_arena_impl::execute).
 * The whole real execute() against the whole real ~nested_arena_context() in one query does not fit (solver out of memory, see NOTES.md), so the
 * hand-shake is checked one real side at a time against a minimal counterpart. Arena A: 2 slots (1 reserved), all occupied at the start.
 *  SIDE 1  E = REAL task_arena_impl::execute(ta, d): occupy_free_slot fails -> delegated_task -> enqueue_task [cut: recorded] ->
 *              do { my_exit_monitors.prepare_wait(waiter); if (!wo.continue_execution()) {cancel_wait; break;} index2 = occupy_free_slot();
 *                   if (index2 != out_of_arena) {cancel_wait; nested_arena_context [ctor/dtor cut]; r1::wait [stub: runs the recorded task]; break;}
 *                   commit_wait(waiter); } while (wo.continue_execution());   (if L is faster E gets the slot at once and runs d() directly)
 *          L' = the leave sequence of ~nested_arena_context as two real calls: my_slots[LSLOT].release(); my_exit_monitors.notify_one()
 *  SIDE 2  E as above, both slots stay occupied; W = a worker executing the delegated task: REAL delegated_task::execute -> d(); finalize():
 *              m_wait_ctx.release(); m_monitor.notify(ctx == &delegate)
 *  SIDE 3  L = REAL ~nested_arena_context() of an execute() caller that entered through the real occupy_free_slot + constructor:
 *              ... leave_task_dispatcher(); my_arena_slot->release(); my_exit_monitors.notify_one(); re-attach to the home arena
 *          E' = minimal entrant with the same hand-shake: loop { prepare_wait; real occupy_free_slot(); got one ? cancel_wait : commit_wait }
 * Granularity: prepare_wait / cancel_wait / notify_one_relaxed are one atomic step each here (kept out of line; their internals are what the
 * monitor_* harnesses interleave); commit_wait, the semaphore, the slot test/release and everything else interleave at IR-memory-operation level.
 * Oracles: blocked-state oracle (the entrant asleep in its semaphore although a slot is free / its work is done and nobody else will notify);
 * the functor ran exactly once when the entrant returns; at the end the slot used by L / the entrant is free, the permanently occupied slot still
 * is, exit-monitor wait set empty and mutex free, nobody in the kernel futex queue. */
#include "w.h"
#include "vp.h"
#define FX_NT 2
#include "futex_stub.h"
typedef struct S_class_tbb__detail__r1__arena ARENA;
typedef struct S_class_tbb__detail__r1__thread_data TD;
typedef struct S_class_tbb__detail__r1__task_dispatcher DISP;
/* zero-initialised memory with the layout allocate_arena uses: [mail_outbox x slots][arena incl. slot 0][slot 1] */
struct amem { struct S_class_tbb__detail__r1__mail_outbox mb[2]; ARENA a; struct S_class_tbb__detail__r1__arena_slot slot1; };
struct amem MA, MHOME_E, MHOME_L;          /* the arena under test; the (other) arenas the entrant and the leaver come from */
u8 TC[512] __attribute__((aligned(64)));
DISP SLOTDISP[2], DISP_E, DISP_L;
TD TD_E, TD_L, TD_W;
struct S_class_tbb__detail__d1__task_arena_base TA;
struct S_class_tbb__detail__r1__nested_arena_context SCOPE_L;
int functor_calls, done[2];
struct S_class_tbb__detail__d1__task* enq_task; int n_enq, task_taken;
long demand;
/* ptrhooks: the only integer->pointer conversion on these paths is the load of task_arena_base::my_arena (an atomic<arena*> read as a word); tell
 * the solver which object it denotes. Total and constant (it is also evaluated on not-yet-reached code during prefix replay); main() checks it. */
u64 vp_p2i(u8* p) { return (u64)p; }
u8* vp_i2p(u64 x) { return (u8*)&MA.a; }

void vp_functor(u32 tid) { functor_calls++; }
void vp_done(u32 tid) { done[tid] = 1; if (tid == 0) VP_ASSERT(functor_calls == 1, "the entrant returned but its functor did not run exactly once"); }
/* ---- external boundary */
struct S_class_tbb__detail__r1__basic_tls _ZN3tbb6detail2r18governor6theTLSE;   /* governor::theTLS (defined in governor.cpp): only its key is read, and passed to pthread_getspecific */
static TD* cur_td(void) { return vp_cur == 0 ? &TD_E : SIDE == 3 ? &TD_L : &TD_W; }
u8* vpx_pthread_getspecific(u32 key) { return (u8*)cur_td(); }            /* governor::get_thread_data(): the calling thread's thread_data (declared pure) */
void _ZN3tbb6detail2r18governor20init_external_threadEv(void) { VP_ASSERT(0, "thread_data exists"); }
/* cut: arena::enqueue_task(dt, ctx, td) = push to the FIFO stream + advertise_new_work<work_enqueued> (arena_flag / C01 cover those): record it */
void _ZN3tbb6detail2r15arena12enqueue_taskERNS0_2d14taskERNS3_18task_group_contextERNS1_11thread_dataE(ARENA* a, struct S_class_tbb__detail__d1__task* t,
    struct S_class_tbb__detail__d1__task_group_context* ctx, TD* td) { VP_ASSERT(a == &MA.a && n_enq == 0, "one delegated task"); enq_task = t; n_enq++; }
#if SIDE != 3
/* cut: nested_arena_context constructor / destructor (thread-private re-attachment bookkeeping; the destructor's release + notify_one is SIDE 3).
 * Stubs: remember the slot; leave through the same two real calls. */
int e_slot = -1, e_nested;
void _ZN3tbb6detail2r120nested_arena_contextC2ERNS1_11thread_dataERNS1_5arenaEm(struct S_class_tbb__detail__r1__nested_arena_context* s, TD* td, ARENA* a, u64 idx) {
  VP_ASSERT(a == &MA.a && idx < 2 && e_nested == 0 && vp_slot_occupied(&MA.a, (u32)idx), "the entrant enters the arena through a slot it has occupied"); e_slot = (int)idx; e_nested = 1; }
void _ZN3tbb6detail2r120nested_arena_contextD2Ev(struct S_class_tbb__detail__r1__nested_arena_context* s) { VP_ASSERT(e_nested == 1, "leave without enter"); e_nested = 0; vp_leave_slot(&MA.a, (u32)e_slot); }
#endif
/* r1::wait(wo, ctx): the entrant owns a slot and runs the dispatch loop until wo is released. Contract stub: take the recorded delegated task if it
 * is still there and run it inline (functor, wait_context release, completion flag; see vp_dt_run_inline), then return once wo is released. */
void _ZN3tbb6detail2r14waitERNS0_2d112wait_contextERNS2_18task_group_contextE(struct S_class_tbb__detail__d1__wait_context* wo, struct S_class_tbb__detail__d1__task_group_context* ctx) {
  if (!task_taken && n_enq) { task_taken = 1; vp_changed = 1; vp_dt_run_inline(enq_task); }
  if (!vp_wait_ctx_done(wo)) VP_BLOCK();
}
/* worker side (SIDE 2): the task becomes available once enqueued; null if the entrant needed no delegation */
struct S_class_tbb__detail__d1__task* vp_take_task(u32 tid) {
  if (done[0]) return 0;
  if (!n_enq) { VP_BLOCK(); return 0; }
  VP_ASSERT(!task_taken, "delegated task taken twice"); task_taken = 1; vp_changed = 1; return enq_task;
}
void _ZN3tbb6detail2r114notify_waitersEm(u64 w) {}                          /* wakes threads parked in r1::wait on this wait_context: the stub above polls */
void _ZN3tbb6detail2r117threading_control13adjust_demandENS1_24threading_control_clientEii(struct S_class_tbb__detail__r1__threading_control* tc,
    struct S_class_tbb__detail__r1__pm_client* c1, struct S_class_tbb__detail__r1__thread_dispatcher_client* c2, u32 md, u32 wd) { demand += (int)wd; }
void _ZN3tbb6detail2r123task_group_context_impl16copy_fp_settingsERNS0_2d118task_group_contextERKS4_(struct S_class_tbb__detail__d1__task_group_context* a, struct S_class_tbb__detail__d1__task_group_context* b) {}
void _ZN3tbb6detail2r110initializeERNS0_2d118task_group_contextE(struct S_class_tbb__detail__d1__task_group_context* c) {}
void _ZN3tbb6detail2r17destroyERNS0_2d118task_group_contextE(struct S_class_tbb__detail__d1__task_group_context* c) {}
void _ZN3tbb6detail2r117tbb_exception_ptr10throw_selfEv(struct S_class_tbb__detail__r1__tbb_exception_ptr* e) { VP_ASSERT(0, "no exception in this scenario"); }
void _ZN3tbb6detail2r113observer_list25do_notify_entry_observersERPNS1_14observer_proxyEb(struct S_class_tbb__detail__r1__observer_list* l, struct S_class_tbb__detail__r1__observer_proxy** p, u8 w) { VP_ASSERT(0, "no observers"); }
void _ZN3tbb6detail2r113observer_list24do_notify_exit_observersEPNS1_14observer_proxyEb(struct S_class_tbb__detail__r1__observer_list* l, struct S_class_tbb__detail__r1__observer_proxy* p, u8 w) { VP_ASSERT(0, "no observers"); }
void _ZN3tbb6detail2r117do_throw_noexceptEPFvvE(vp_fn f) { VP_ASSERT(0, "do_throw_noexcept"); }
void _ZN3tbb6detail2r115throw_exceptionENS0_2d012exception_idE(u32 id) { VP_ASSERT(0, "throw_exception"); }
void vpx___cxa_pure_virtual(void) { VP_ASSERT(0, "pure virtual call"); }
void _ZdlPv(u8* p) { VP_ASSERT(0, "operator delete"); }
void vpx___clang_call_terminate(u8* p) { VP_ASSERT(0, "terminate"); }
u8 _ZN3tbb6detail2d021timed_spin_wait_untilIZNS0_2r124concurrent_monitor_mutex4lockEvEUlvE_EEbT_(struct S_class_tbb__detail__r1__concurrent_monitor_mutex* mx) { return (u8)vp_cmm_is_free(mx); }

#if SIDE == 1
#define T_A vp_thr_entrant_a
#define T_B vp_thr_leaver2_b
#elif SIDE == 2
#define T_A vp_thr_entrant_a
#define T_B vp_thr_worker_b
#else
#define T_A vp_thr_waiter_a
#define T_B vp_thr_leaver_b
#endif
#define START(t) START_(t)
#define START_(t) t##_start
#ifndef EXTRA_E
#define EXTRA_E 0
#endif
int main(void) {
  vp_arena_prestate(&MA.a, (struct S_class_tbb__detail__r1__threading_control*)TC, 2, 1, SLOTDISP);
  vp_ta_set(&TA, &MA.a);
  VP_ASSERT(vp_ta_get(&TA) == &MA.a, "pre-state: the task_arena refers to the arena under test (see vp_i2p)");
  vp_td_prestate(&TD_E, &MHOME_E.a, &DISP_E);
  unsigned perm = SIDE == 2 ? 1 : 1 - LSLOT;        /* slot of the occupant that never leaves */
  { int ok = vp_slot_occupy(&MA.a, perm); VP_ASSERT(ok, "pre-state: permanent occupant"); }
#if SIDE == 1
  { int ok = vp_slot_occupy(&MA.a, LSLOT); VP_ASSERT(ok, "pre-state: the leaving occupant holds the other slot"); }
  vp_thr_entrant_a_start(&TA, 0); vp_thr_leaver2_b_start(&MA.a, LSLOT, 1);
#elif SIDE == 2
  { int ok = vp_slot_occupy(&MA.a, 0); VP_ASSERT(ok, "pre-state: second permanent occupant"); }
  vp_worker_attach(&TD_W, &MA.a, 1);
  vp_thr_entrant_a_start(&TA, 0); vp_thr_worker_b_start(&TD_W, 1);
#else
  vp_td_prestate(&TD_L, &MHOME_L.a, &DISP_L);
  { u64 idx = vp_enter_nested(&SCOPE_L, &TD_L, &MA.a); VP_ASSERT(idx == LSLOT, "pre-state: the leaver entered the remaining slot through the real path"); }
  vp_thr_waiter_a_start(&MA.a, 0); vp_thr_leaver_b_start(&SCOPE_L, 1);
#endif
  long demand0 = demand;
  for (int r = 0; r < ROUNDS; r++) {
    VP_RUNT(T_A, 0) VP_RUNT(T_B, 1)
    for (int x = 0; x < EXTRA_E; x++) { VP_RUNT(T_A, 0) }     /* the entrant's wait loop takes one iteration per slice */
  }
  VP_QUIESCE2(T_A, T_B)
  VP_ASSERT(!vp_deadlock, "lost wake-up: the entrant sleeps on the exit monitor although a slot is free / its work is done and nobody else will notify");
  __CPROVER_assume(!vp_unfinished);
  VP_ASSERT(functor_calls == 1, "functor did not run exactly once");
  VP_ASSERT(vp_slot_occupied(&MA.a, perm), "the permanent occupant lost its slot");
#if SIDE == 2
  VP_ASSERT(vp_slot_occupied(&MA.a, 0), "second permanent occupant lost its slot");
#else
  VP_ASSERT(!vp_slot_occupied(&MA.a, LSLOT), "the slot used by the leaver / the entrant is still occupied at the end");
#endif
#if SIDE == 3
  VP_ASSERT(vp_td_arena(&TD_L) == &MHOME_L.a, "leaver not re-attached to its home arena");
  VP_ASSERT(demand - demand0 == (LSLOT == 1 ? 1 : 0), "net worker demand: +1 iff the leaver held a worker slot");
#else
  VP_ASSERT(e_nested == 0, "entrant still inside the nested arena context");
#endif
  VP_ASSERT(vp_exit_waitset_size(&MA.a) == 0 && vp_exit_mutex_flag(&MA.a) == 0, "exit monitor wait set not empty / mutex held at the end");
  VP_ASSERT(!fx_anyone_sleeping(), "a thread finished while the kernel still has it queued on a futex");
  VP_REACHED();
  return 0;
}

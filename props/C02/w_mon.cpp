// C02 `monitor` unit: thread bodies over the real concurrent_monitor_base<uintptr_t> / sleep_node / binary_semaphore (futex protocol)
// / concurrent_monitor_mutex. Only the futex syscall is external (harness stub, see futex_stub.h).
#include "src/tbb/concurrent_monitor.h"
using namespace tbb::detail::r1;
using namespace tbb::detail;
typedef concurrent_monitor_base<std::uintptr_t> mon_t;
typedef sleep_node<std::uintptr_t> node_t;

extern "C" void vp_node_born(int tid, node_t* n);      // observer: the sleeper's wait node (lives on the sleeper's stack)
extern "C" void vp_node_dead(int tid);                 // observer: the node has been destroyed
extern "C" void vp_woke(int tid, int cond, int committed);   // observer: the wait returned; cond = value of the waited-for condition now
extern "C" void vp_notified(int tid);

// ---- sleeper. sop 0: monitor.wait<node>(pred, ctx) as used by concurrent_bounded_queue / address_waiter / waiters.h
//               sop 1: manual prepare_wait / re-check / cancel_wait | commit_wait loop with a reused node, as in task_arena::execute (arena.cpp)
// The condition is "*flag >= need" (need = 1 for a plain flag; tickets for notify(pred) scenarios).
extern "C" void vp_thr_sleeper(mon_t* m, std::atomic<int>* flag, int tid, std::uintptr_t ctx, int need, int sop) {
  bool committed = false;
  {
    node_t node(ctx);
    vp_node_born(tid, &node);
    if (sop == 0) {
      committed = m->wait([&] { return flag->load(std::memory_order_relaxed) >= need; }, node);
    } else {
      do {
        m->prepare_wait(node);
        if (flag->load(std::memory_order_relaxed) >= need) { m->cancel_wait(node); break; }
        committed = m->commit_wait(node);
      } while (flag->load(std::memory_order_relaxed) < need);
    }
    vp_woke(tid, flag->load(std::memory_order_relaxed) >= need, committed);
  }   // ~sleep_node: pumps a skipped wake-up
  vp_node_dead(tid);
}

// ---- notifier: publish the event, then notify. nop 0 notify_one, 1 notify_all, 2 notify(ctx <= value) [bounded-queue style predicate_leq],
//      3 = two events: flag=1; notify(leq 1); flag=2; notify(leq 2), 4 = notify_one twice (first one before the event: spurious for the sleeper)
struct vp_leq { std::uintptr_t t; bool operator()(std::uintptr_t c) const { return c <= t; } };
extern "C" void vp_thr_notifier(mon_t* m, std::atomic<int>* flag, int tid, int value, int nop) {
  if (nop == 4) { m->notify_one(); }
  if (nop == 3) {
    flag->store(1, std::memory_order_relaxed); m->notify(vp_leq{1});
    flag->store(2, std::memory_order_relaxed); m->notify(vp_leq{2});
  } else {
    flag->store(value, std::memory_order_relaxed);
    if (nop == 0 || nop == 4) m->notify_one();
    else if (nop == 1) m->notify_all();
    else m->notify(vp_leq{(std::uintptr_t)value});
  }
  vp_notified(tid);
}

// ---- construction and white-box accessors for the final-state oracle
extern "C" void vp_mon_init(mon_t* m) { new (m) mon_t; }
extern "C" unsigned vp_mon_epoch(mon_t* m) { return m->my_epoch.load(std::memory_order_relaxed); }
extern "C" unsigned long vp_mon_waitset_size(mon_t* m) { return m->my_waitset.size(); }
extern "C" int vp_mon_list_closed(mon_t* m) { return m->my_waitset.head.next == &m->my_waitset.head && m->my_waitset.head.prev == &m->my_waitset.head; }
extern "C" int vp_mon_mutex_flag(mon_t* m) { return m->my_mutex.my_flag.load(std::memory_order_relaxed); }
extern "C" int vp_mon_mutex_waiters(mon_t* m) { return m->my_mutex.my_waiters.load(std::memory_order_relaxed); }
// futex word of the node's semaphore: 0 open (a V is pending), 1 closed, 2 closed + possible sleepers; -1 not initialised
extern "C" int vp_node_sem(node_t* n) { return n->my_initialized ? n->semaphore().my_sem.load(std::memory_order_relaxed) : -1; }
extern "C" int vp_node_in_list(node_t* n) { return n->my_is_in_list.load(std::memory_order_relaxed); }
// the condition polled by concurrent_monitor_mutex::lock's timed spin (for the contract stub of the cut timed_spin_wait_until)
extern "C" int vp_cmm_is_free(concurrent_monitor_mutex* mx) { return mx->my_flag.load(std::memory_order_relaxed) == 0; }

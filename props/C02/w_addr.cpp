// C02 `addr` unit (also usable for C08): tbb::mutex / tbb::rw_mutex over the REAL src/tbb/address_waiter.cpp
// (wait_on_address / notify_by_address* -> concurrent_monitor_base<address_context> -> sleep_node -> binary_semaphore -> futex stub)
#include "src/tbb/address_waiter.cpp"
#include "oneapi/tbb/mutex.h"
#if VP_RW
#include "oneapi/tbb/rw_mutex.h"
#endif
using namespace tbb::detail;
extern "C" void vp_enter(int tid, int writer);
extern "C" void vp_leave(int tid, int writer);
extern "C" void vp_try_result(int tid, int ok);

// ---- tbb::mutex: op 0 = lock, 1 = try_lock, 2 = the thread already holds the mutex (pre-state built by vp_mutex_prelock) and releases it
extern "C" void vp_thr_mutex(d1::mutex* m, int tid, int op) {
  if (op == 2) { vp_leave(tid, 1); m->unlock(); }
  else if (op == 0) { m->lock(); vp_enter(tid, 1); vp_leave(tid, 1); m->unlock(); }
  else { bool ok = m->try_lock(); vp_try_result(tid, ok); if (ok) { vp_enter(tid, 1); vp_leave(tid, 1); m->unlock(); } }
}
extern "C" void vp_mutex_init(d1::mutex* m) { new (m) d1::mutex; }
extern "C" int vp_mutex_prelock(d1::mutex* m) { return m->try_lock(); }
extern "C" int vp_mutex_flag(d1::mutex* m) { return m->my_flag.load(std::memory_order_relaxed); }
#if VP_RW
// ---- tbb::rw_mutex. role 0 reader, 1 writer, 2 reader then upgrade, 3 writer then downgrade,
//      4 = starts as the writer (pre-state), releases ; 5 = starts as a reader (pre-state), releases ; 6 = starts as the writer, downgrades, releases
extern "C" void vp_upgraded(int tid, int atomic_upgrade);
extern "C" void vp_thr_rw(d1::rw_mutex* m, int tid, int role) {
  if (role == 4) { vp_leave(tid, 1); m->unlock(); return; }
  if (role == 5) { vp_leave(tid, 0); m->unlock_shared(); return; }
  if (role == 6) { vp_leave(tid, 3); m->downgrade(); vp_leave(tid, 0); m->unlock_shared(); return; }   // starts as the writer: downgrade, then release
  if (role == 0) { m->lock_shared(); vp_enter(tid, 0); vp_leave(tid, 0); m->unlock_shared(); return; }
  if (role == 1) { m->lock(); vp_enter(tid, 1); vp_leave(tid, 1); m->unlock(); return; }
  if (role == 2) {
    m->lock_shared(); vp_enter(tid, 0);
    vp_leave(tid, 0);                 // observer: the reader section ends where the upgrade begins
    bool ok = m->upgrade();
    vp_upgraded(tid, ok); vp_enter(tid, 1); vp_leave(tid, 1);
    m->unlock(); return;
  }
  m->lock(); vp_enter(tid, 1);
  vp_leave(tid, 3);                   // observer BEFORE the call: from here on this thread counts as a reader (once downgrade() has run, other
  m->downgrade();                     // readers may legitimately enter at once; a writer getting in now is a violation either way)
  vp_leave(tid, 0);
  m->unlock_shared();
}
extern "C" void vp_rw_init(d1::rw_mutex* m) { new (m) d1::rw_mutex; }
extern "C" int vp_rw_prelock(d1::rw_mutex* m, int writer) { return writer ? m->try_lock() : m->try_lock_shared(); }
extern "C" long vp_rw_state(d1::rw_mutex* m) { return m->m_state.load(std::memory_order_relaxed); }
#endif
// white-box view of an address-waiter slot (the harness owns the slot: get_address_waiter is cut, see h_addr.c)
extern "C" void vp_aw_init(r1::address_waiter* w) { new (w) r1::address_waiter; }
extern "C" unsigned long vp_aw_waitset_size(r1::address_waiter* w) { return w->my_waitset.size(); }
extern "C" int vp_aw_list_closed(r1::address_waiter* w) { return w->my_waitset.head.next == &w->my_waitset.head && w->my_waitset.head.prev == &w->my_waitset.head; }
extern "C" int vp_aw_mutex_flag(r1::address_waiter* w) { return w->my_mutex.my_flag.load(std::memory_order_relaxed); }
extern "C" int vp_aw_mutex_waiters(r1::address_waiter* w) { return w->my_mutex.my_waiters.load(std::memory_order_relaxed); }
extern "C" int vp_cmm_is_free(r1::concurrent_monitor_mutex* mx) { return mx->my_flag.load(std::memory_order_relaxed) == 0; }

/* C02 `mutex_handshake_{sc,tso}`: tbb::mutex::unlock() vs a thread going to sleep on the mutex (see w_hs.cpp). The mutex starts locked (by U).
 * Oracle: blocked-state: W committed to sleep (parked in the semaphore stub) although the mutex word is false and U finished without waking it.
 * Under TSO (unit hs_tso) every plain/relaxed/release store goes through a per-thread FIFO store buffer (depth 2) that is drained by locked RMWs,
 * seq_cst stores and fences; buffers are flushed nondeterministically at slice starts and completely before the forced rounds. */
#include "w.h"
#include "vp.h"
struct S_class_tbb__detail__d1__mutex MTX;
struct S_class_tbb__detail__r1__address_waiter SLOT;
int done[2], sem_token, sem_sleeping, n_P, n_V;
void vp_done(u32 tid) { done[tid] = 1; }
/* cut: get_address_waiter -> the one slot (pure); timed_spin_wait_until of waitable_atomic::wait -> "time is up" (W is past its spinning phase: the word
 * was true when it last polled, which holds in the pre-state); of concurrent_monitor_mutex::lock -> one poll */
struct S_class_tbb__detail__r1__address_waiter* _ZN3tbb6detail2r1L18get_address_waiterEPv(u8* addr) { return &SLOT; }
#include "closure_stub.h"
VP_CLOSURE_STUB(_ZN3tbb6detail2d021timed_spin_wait_untilIZNS0_2d115waitable_atomicIbE4waitEbmSt12memory_orderEUlvE_EEbT_) { return 0; }
/* cut: concurrent_monitor_mutex::lock / unlock (the wait-set lock; its own sleeping protocol is monitor_*'s subject) = a plain lock whose acquire and
 * release are what they are on x86: locked exchanges, i.e. FULL FENCES that drain the caller's store buffer (modelled by the explicit flush). */
int slot_locked;
static void full_fence(void) {
#ifdef VP_TSO
  if (vp_cur == 0) vp_thr_unlocker_a_flush(SBD); else vp_thr_sleeper_b_flush(SBD);
#endif
}
void _ZN3tbb6detail2r124concurrent_monitor_mutex4lockEv(struct S_class_tbb__detail__r1__concurrent_monitor_mutex* mx) {
  if (slot_locked) { VP_BLOCK(); return; }
  full_fence(); slot_locked = 1; vp_changed = 1;
}
void _ZN3tbb6detail2r124concurrent_monitor_mutex6unlockEv(struct S_class_tbb__detail__r1__concurrent_monitor_mutex* mx) { VP_ASSERT(slot_locked, "unlock of a free wait-set lock"); full_fence(); slot_locked = 0; vp_changed = 1; }
/* cut: binary_semaphore::P / V = one-flag semaphore (the futex protocol below it is monitor_*'s subject). Both are locked RMWs / system calls in
 * reality, i.e. they drain the caller's store buffer; the model does not need that for this hand-shake (no store of W matters after it sleeps). */
void _ZN3tbb6detail2r116binary_semaphore1PEv(struct S_class_tbb__detail__r1__binary_semaphore* s) {
  if (sem_token) { sem_token = 0; sem_sleeping = 0; vp_changed = 1; n_P++; return; }
  sem_sleeping = 1; VP_BLOCK();
}
void _ZN3tbb6detail2r116binary_semaphore1VEv(struct S_class_tbb__detail__r1__binary_semaphore* s) { VP_ASSERT(!sem_token, "two V in a row"); sem_token = 1; vp_changed = 1; n_V++; }
void _ZN3tbb6detail2r115throw_exceptionENS0_2d012exception_idE(u32 id) { VP_ASSERT(0, "throw_exception"); }
void vpx___cxa_pure_virtual(void) { VP_ASSERT(0, "pure virtual call"); }
void _ZdlPv(u8* p) { VP_ASSERT(0, "operator delete"); }
int main(void) {
  vp_mutex_init_locked(&MTX); vp_aw_init(&SLOT);
  VP_ASSERT(vp_mutex_flag(&MTX) == 1, "pre-state: the mutex is held");
  vp_thr_unlocker_a_start(&MTX, 0); vp_thr_sleeper_b_start(&MTX, 1);
  for (int r = 0; r < ROUNDS; r++) { VP_RUNT(vp_thr_unlocker_a, 0) VP_RUNT(vp_thr_sleeper_b, 1) }
#ifdef VP_TSO
  vp_thr_unlocker_a_flush(SBD); vp_thr_sleeper_b_flush(SBD);   /* every store eventually reaches memory */
#endif
  VP_QUIESCE2(vp_thr_unlocker_a, vp_thr_sleeper_b)
  VP_ASSERT(!vp_deadlock, "lost wake-up: the sleeper committed to sleep on a free mutex and the unlocking thread finished without waking it");
  __CPROVER_assume(!vp_unfinished);
  VP_ASSERT(vp_mutex_flag(&MTX) == 0, "mutex word not false after unlock");
  VP_ASSERT(vp_aw_waitset_size(&SLOT) == 0 && !slot_locked, "wait set not empty / wait-set lock held at the end");
  VP_REACHED();
  return 0;
}

/* stubs shared by the harnesses over the real address_waiter.cpp (h_addr.c tbb::mutex, h_rw.c tbb::rw_mutex) */
#ifndef VP_ADDR_STUBS_H
#define VP_ADDR_STUBS_H
void _ZN3tbb6detail2r115throw_exceptionENS0_2d012exception_idE(u32 id) { VP_ASSERT(0, "throw_exception: no abort in this scenario"); }
void vpx___cxa_pure_virtual(void) { VP_ASSERT(0, "pure virtual call"); }
void _ZdlPv(u8* p) { VP_ASSERT(0, "operator delete: nothing is heap allocated here"); }
/* cut: r1::get_address_waiter(addr) = hash-table lookup into the static 2048-slot address_waiter_table (all slots are identical,
 * default-constructed monitors; the same address always maps to the same slot). Contract stub: one harness-owned slot, constructed by the
 * real address_waiter constructor (a 2048-element table of monitors exhausts the solver's memory). The hash function is not checked.
 * Declared `pure` in spec.py: total, no side effects (it is re-evaluated on every replay of a thread prefix). */
struct S_class_tbb__detail__r1__address_waiter SLOT;
struct S_class_tbb__detail__r1__address_waiter* _ZN3tbb6detail2r1L18get_address_waiterEPv(u8* addr) { return &SLOT; }
/* cut: d0::timed_spin_wait_until(cond) = bounded number of polls of cond with pause/yield in between, returns the last poll.
 * Contract stub: one poll (polls have no side effects: k failed polls + "time is up" == one failed poll; a successful poll == being
 * scheduled at that moment). The poll itself is the REAL lambda, reached through the real delegated_function<lambda>::operator()():
 * a delegated_function object is {vptr, lambda*}; the vptr is not used by operator(). */
struct vp_df { void* vptr; void* closure; };
#define VP_POLL(opcall, closure_ptr) struct vp_df df; df.vptr = 0; df.closure = (void*)(closure_ptr); return opcall((void*)&df);
u8 _ZN3tbb6detail2d021timed_spin_wait_untilIZNS0_2r124concurrent_monitor_mutex4lockEvEUlvE_EEbT_(struct S_class_tbb__detail__r1__concurrent_monitor_mutex* mx) {
  return (u8)vp_cmm_is_free(mx);   /* the lambda of concurrent_monitor_mutex::lock has no delegated_function; wrapper helper = same expression */
}
#endif

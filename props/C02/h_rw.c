/* C02 `addr` / rw (shared with C08): tbb::rw_mutex through the REAL src/tbb/address_waiter.cpp.
 *   lock/lock_shared/upgrade -> adaptive_wait_on_address -> [timed spin] -> r1::wait_on_address(this, pred, WRITER|READER_CONTEXT)
 *   unlock/unlock_shared/downgrade/try_lock_shared back-off -> r1::notify_by_address(this, ctx) | notify_by_address_all(this)
 * NT threads; OPi = role: 0 reader, 1 writer, 2 reader->upgrade, 3 writer->downgrade, 4 starts as the writer and releases,
 * 5 starts as a reader and releases, 6 starts as the writer, downgrades, then releases (pre-states built by the real try_lock/try_lock_shared before the threads start).
 * Oracles: reader/writer exclusion; an upgrade reported as atomic had no intervening writer; blocked-state oracle (lost wake-up:
 * a thread asleep in wait_on_address while every other thread is done or asleep too); at the end: state word 0, address-waiter slot
 * empty, slot mutex free, nobody left in the kernel futex queue. */
#include "w.h"
#include "vp.h"
#define FX_NT NT
#include "futex_stub.h"
struct S_class_tbb__detail__d1__rw_mutex RW;
int writers, readers, wr_entries, entered[3], snap[3];
void vp_enter(u32 tid, u32 w) {
  if (w) { VP_ASSERT(writers == 0 && readers == 0, "writer entered while another holder is inside"); writers++; wr_entries++; }
  else { VP_ASSERT(writers == 0, "reader entered while a writer is inside"); readers++; }
  entered[tid] = 1;
}
void vp_leave(u32 tid, u32 w) {
  if (w == 1) writers--;
  else if (w == 3) { writers--; readers++; }      /* downgrade: writer becomes reader without a gap */
  else { readers--; snap[tid] = wr_entries; }
}
void vp_upgraded(u32 tid, u32 ok) { if (ok) VP_ASSERT(wr_entries == snap[tid], "upgrade reported as atomic although another writer got in between"); }
void vp_try_result(u32 tid, u32 ok) {}
#include "addr_stubs.h"
struct vp_c2 { void* a; void* b; };
u8 _ZN3tbb6detail2d021timed_spin_wait_untilIZNS0_2d18rw_mutex11lock_sharedEvEUlvE_EEbT_(struct S_class_tbb__detail__d1__rw_mutex* m, u64* has_writer) {
  struct vp_c2 c; c.a = m; c.b = has_writer;      /* the by-value lambda {this, &has_writer} arrives split in two registers */
  VP_POLL(_ZNK3tbb6detail2d118delegated_functionIZNS1_8rw_mutex11lock_sharedEvEUlvE_EclEv, &c)
}
u8 _ZN3tbb6detail2d021timed_spin_wait_untilIZNS0_2d18rw_mutex4lockEvEUlvE_EEbT_(struct S_class_tbb__detail__d1__rw_mutex* m) {
  void* c = m;
  VP_POLL(_ZNK3tbb6detail2d118delegated_functionIZNS1_8rw_mutex4lockEvEUlvE_EclEv, &c)
}
u8 _ZN3tbb6detail2d021timed_spin_wait_untilIZNS0_2d18rw_mutex7upgradeEvEUlvE_EEbT_(struct S_class_tbb__detail__d1__rw_mutex* m) {
  void* c = m;
  VP_POLL(_ZNK3tbb6detail2d118delegated_functionIZNS1_8rw_mutex7upgradeEvEUlvE_EclEv, &c)
}
#define THR(s) vp_thr_rw_##s
#define PRE(i, op) if ((op) == 4 || (op) == 5 || (op) == 6) { int ok = vp_rw_prelock(&RW, (op) != 5); VP_ASSERT(ok, "pre-state: try_lock on a compatible state"); \
    if ((op) != 5) { VP_ASSERT(writers == 0 && readers == 0, "pre-state"); writers++; wr_entries++; } else { VP_ASSERT(writers == 0, "pre-state"); readers++; } entered[i] = 1; }
int main(void) {
  vp_rw_init(&RW); vp_aw_init(&SLOT);
  PRE(0, OP0) PRE(1, OP1)
#if NT == 3
  PRE(2, OP2)
#endif
  THR(a_start)(&RW, 0, OP0); THR(b_start)(&RW, 1, OP1);
#if NT == 3
  THR(c_start)(&RW, 2, OP2);
#endif
  for (int r = 0; r < ROUNDS; r++) {
    VP_RUNT(THR(a), 0) VP_RUNT(THR(b), 1)
#if NT == 3
    VP_RUNT(THR(c), 2)
#endif
  }
#if NT == 3
  VP_QUIESCE3(THR(a), THR(b), THR(c))
#else
  VP_QUIESCE2(THR(a), THR(b))
#endif
  VP_ASSERT(!vp_deadlock, "lost wake-up / deadlock: every unfinished thread is asleep or blocked and nothing changes");
  __CPROVER_assume(!vp_unfinished);
  for (int i = 0; i < NT; i++) VP_ASSERT(entered[i], "a lock operation returned without entering");
  VP_ASSERT(writers == 0 && readers == 0, "holder count not balanced");
  VP_ASSERT(vp_rw_state(&RW) == 0, "rw_mutex state word not 0 after everybody released (stale WRITER_PENDING / reader count)");
  VP_ASSERT(vp_aw_waitset_size(&SLOT) == 0 && vp_aw_list_closed(&SLOT), "address waiter slot not empty at the end");
  VP_ASSERT(vp_aw_mutex_flag(&SLOT) == 0 && vp_aw_mutex_waiters(&SLOT) == 0, "address waiter slot mutex held / waiter count leaked");
  VP_ASSERT(!fx_anyone_sleeping(), "a thread finished while the kernel still has it queued on a futex");
  VP_REACHED();
  return 0;
}

// C02 `execute_slot_wait` unit: the slot-wait hand-shake of task_arena::execute (src/tbb/arena.cpp task_arena_impl::execute):
//   entrant E: real task_arena_impl::execute(ta, d) on an arena whose slots are all occupied: occupy_free_slot fails -> delegated_task ->
//              enqueue_task [cut: stub records the task] -> loop { my_exit_monitors.prepare_wait; work done? ; occupy_free_slot ; commit_wait }
//              -> on success nested_arena_context (real ctor/dtor) + r1::wait [external: stub runs the recorded delegated task]
//   leaver  L: real ~nested_arena_context(): ... td.my_arena_slot->release(); td.my_arena->my_exit_monitors.notify_one()
//   worker  W: (a worker attached to the other slot, or - gated - the entrant's own dispatch loop inside r1::wait, modelled as a thread of its own)
//              real delegated_task::execute -> m_delegate(); finalize(): m_wait_ctx.release(); m_monitor.notify(ctx == &delegate)
// over the real concurrent_monitor / sleep_node / binary_semaphore (futex stub). Pre-states are white-box (zeroed objects + the fields the
// encoded functions read), built with the real occupy_free_slot / try_occupy / nested_arena_context constructor.
#include "src/tbb/arena.cpp"
using namespace tbb::detail;
using namespace tbb::detail::r1;
extern "C" void vp_done(int tid);
extern "C" void vp_functor(int tid);
extern "C" d1::task* vp_take_task(int tid);
struct vp_delegate final : d1::delegate_base {
  int tid;
  bool operator()() const override { vp_functor(tid); return true; }
};
extern "C" void vp_thr_entrant(d1::task_arena_base* ta, int tid) {
  vp_delegate d; d.tid = tid;
  task_arena_impl::execute(*ta, d);
  vp_done(tid);
}
extern "C" void vp_thr_leaver(nested_arena_context* scope, int tid) {
  scope->~nested_arena_context();
  vp_done(tid);
}
extern "C" void vp_thr_worker(thread_data* td, int tid) {
  d1::task* t = vp_take_task(tid);          // parks until the entrant has enqueued its delegated task (or returns null: nothing to do)
  if (t) {                                  // what delegated_task::execute does apart from saving/restoring the dispatcher's execution data
    delegated_task* dt = static_cast<delegated_task*>(t);   // (the full execute() with its structure copies made the query run out of memory)
    dt->m_delegate();
    dt->finalize();                         // REAL: m_wait_ctx.release(); m_monitor.notify(ctx == &delegate); m_completed = true
  }
  vp_done(tid);
}
// run the delegated task on the calling thread's current dispatcher (r1::wait stub of the E-side harness: the entrant got a slot and runs its dispatch loop)
extern "C" void vp_dt_execute(d1::task* t, thread_data* td) { static_cast<delegated_task*>(t)->delegated_task::execute(td->my_task_dispatcher->m_execute_data_ext); }
// SIDE 1 r1::wait stub: the entrant runs its own delegated task inline. Same effects as delegated_task::execute/finalize except the monitor
// notification (nobody can be waiting for this delegate: its only waiter is the thread running it); the real finalize is SIDE 2.
extern "C" void vp_dt_run_inline(d1::task* t) {
  delegated_task* dt = static_cast<delegated_task*>(t);
  dt->m_delegate();
  dt->m_wait_ctx.release();
  dt->m_completed.store(true, std::memory_order_release);
}
// E-side harness (nested_arena_context ctor/dtor cut): the leave sequence of ~nested_arena_context, used by the dtor stub and by the leaving occupant
extern "C" void vp_leave_slot(arena* a, unsigned i) { a->my_slots[i].release(); a->my_exit_monitors.notify_one(); }
extern "C" void vp_thr_leaver2(arena* a, int slot, int tid) {
  a->my_slots[slot].release();
  a->my_exit_monitors.notify_one(); // do not relax!
  vp_done(tid);
}
// L-side harness: a minimal entrant with the same hand-shake as task_arena_impl::execute (prepare_wait -> slot test -> commit_wait | cancel_wait)
extern "C" void vp_thr_waiter(arena* a, int tid) {
  concurrent_monitor::thread_context waiter((std::uintptr_t)tid + 1);
  thread_data* td = governor::get_thread_data();
  std::size_t idx;
  for (;;) {
    a->my_exit_monitors.prepare_wait(waiter);
    idx = a->occupy_free_slot</*as_worker*/false>(*td);
    if (idx != arena::out_of_arena) { a->my_exit_monitors.cancel_wait(waiter); break; }
    a->my_exit_monitors.commit_wait(waiter);
  }
  vp_functor(tid);
  a->my_slots[idx].release();
  vp_done(tid);
}
extern "C" int vp_wait_ctx_done(d1::wait_context* w) { return !w->continue_execution(); }

// ---- pre-state
extern "C" void vp_arena_prestate(arena* a, threading_control* tc, unsigned num_slots, unsigned num_reserved, task_dispatcher* slot_disp) {
  a->my_threading_control = tc; a->my_limit = 1;
  a->my_num_slots = arena::num_arena_slots(num_slots, num_reserved);
  a->my_num_reserved_slots = num_reserved; a->my_max_num_workers = num_slots - num_reserved;
  a->my_priority_level = 1; a->my_references = arena::ref_external; a->my_mandatory_requests = 0;
  new (&a->my_exit_monitors) concurrent_monitor;
  for (unsigned i = 0; i < a->my_num_slots; ++i) { a->my_slots[i].my_default_task_dispatcher = slot_disp + i; slot_disp[i].m_thread_data = nullptr; }
}
// an initialised external thread: attached to its own (other) arena `home`, slot 0, with its own dispatcher
extern "C" void vp_td_prestate(thread_data* td, arena* home, task_dispatcher* disp) {
  td->my_arena = home; td->my_arena_index = 0; td->my_arena_slot = home->my_slots;
  td->my_task_dispatcher = disp; disp->m_thread_data = td; disp->m_execute_data_ext.task_disp = disp;
}
extern "C" void vp_ta_set(d1::task_arena_base* ta, arena* a) { ta->my_arena.store(a, std::memory_order_relaxed); }
extern "C" arena* vp_ta_get(d1::task_arena_base* ta) { return ta->my_arena.load(std::memory_order_relaxed); }
extern "C" int vp_slot_occupy(arena* a, unsigned i) { return a->my_slots[i].try_occupy(); }
extern "C" int vp_slot_occupied(arena* a, unsigned i) { return a->my_slots[i].is_occupied(); }
// the leaver entered earlier through the real path: occupy_free_slot + nested_arena_context constructor
extern "C" unsigned long vp_enter_nested(nested_arena_context* scope, thread_data* td, arena* a) {
  std::size_t idx = a->occupy_free_slot</*as_worker*/false>(*td);
  if (idx != arena::out_of_arena) new (scope) nested_arena_context(*td, *a, idx);
  return idx;
}
// a worker attached to slot i (as arena::process leaves it), which never leaves in the scenario
extern "C" void vp_worker_attach(thread_data* td, arena* a, unsigned i) {
  td->my_arena = a; td->my_arena_index = (unsigned short)i; td->my_arena_slot = a->my_slots + i;
  task_dispatcher& disp = a->my_slots[i].default_task_dispatcher();
  td->my_task_dispatcher = &disp; disp.m_thread_data = td; disp.m_execute_data_ext.task_disp = &disp;
}
extern "C" unsigned long vp_exit_waitset_size(arena* a) { return a->my_exit_monitors.my_waitset.size(); }
extern "C" int vp_exit_mutex_flag(arena* a) { return a->my_exit_monitors.my_mutex.my_flag.load(std::memory_order_relaxed); }
extern "C" arena* vp_td_arena(thread_data* td) { return td->my_arena; }
extern "C" int vp_cmm_is_free(concurrent_monitor_mutex* mx) { return mx->my_flag.load(std::memory_order_relaxed) == 0; }

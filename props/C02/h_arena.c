/* C02 `arena_flag`: the "arena may contain work" flag protocol on a REAL arena (2 slots, 1 reserved; pre-state = zeroed storage + the scalar assignments of the arena constructor, see w_arena.cpp):
 *   spawner (thread a) = what r1::spawn does: my_slots[0].spawn(task); advertise_new_work<work_spawned>()   [real arena_slot::spawn]
 *   idle worker (thread b) = waiters.h: out_of_work()  [try_clear_if(!has_tasks()) -> request_workers(-max)]
 * PRESET=1: the flag starts SET with the demand already issued (real advertise_new_work run before the threads start) - the worker tries to
 * clear it while the spawner publishes a task; PRESET=0: starts UNSET.
 * External boundary: threading_control::adjust_demand (stub accumulates the worker demand), get_waiting_threads_monitor (a real, empty monitor).
 * Oracle at quiescence: the task is in the pool, so the flag must be SET (not UNSET, not a stale busy value) and the net demand handed to
 * threading_control must be my_max_num_workers: otherwise no worker would ever be asked to come and the work is advertised to nobody. */
#include "w.h"
#include "vp.h"
struct S_class_tbb__detail__r1__arena* A;
u8 TC[512] __attribute__((aligned(64)));
u8 TASK[128] __attribute__((aligned(64)));
struct S_class_tbb__detail__r1__thread_control_monitor MON;
long demand, mandatory; int n_adjust, done[2];
void vp_done(u32 tid) { done[tid] = 1; }
void _ZN3tbb6detail2r117threading_control13adjust_demandENS1_24threading_control_clientEii(struct S_class_tbb__detail__r1__threading_control* tc,
    struct S_class_tbb__detail__r1__pm_client* c1, struct S_class_tbb__detail__r1__thread_dispatcher_client* c2, u32 mandatory_delta, u32 workers_delta) {
  demand += (int)workers_delta; mandatory += (int)mandatory_delta; n_adjust++;
  /* no bound on the running sum: a release (-max) and a new request (+max) may be handed over in either order */
}
struct S_class_tbb__detail__r1__thread_control_monitor* _ZN3tbb6detail2r117threading_control27get_waiting_threads_monitorEv(struct S_class_tbb__detail__r1__threading_control* tc) { return &MON; }
/* the only allocation on these paths is the task pool of slot 0 (arena_slot::allocate_task_pool, 64 task pointers): typed static storage */
struct S_class_tbb__detail__d1__task* POOL[128]; int n_alloc;
u8* _ZN3tbb6detail2r122cache_aligned_allocateEm(u64 n) { VP_ASSERT(n <= sizeof(POOL) && n_alloc == 0, "unexpected allocation"); n_alloc++; return (u8*)POOL; }
void _ZN3tbb6detail2r124cache_aligned_deallocateEPv(u8* p) { }
void _ZN3tbb6detail2r110initializeERNS0_2d118task_group_contextE(struct S_class_tbb__detail__d1__task_group_context* c) { }
u8 _ZN3tbb6detail2d021timed_spin_wait_untilIZNS0_2r124concurrent_monitor_mutex4lockEvEUlvE_EEbT_(struct S_class_tbb__detail__r1__concurrent_monitor_mutex* mx) { return (u8)vp_cmm_is_free(mx); }
u64 vpx_syscall(u64 nr, ...) { VP_ASSERT(0, "no futex expected: nobody sleeps on the arena monitor in this scenario"); return 0; }
int main(void) {
  vp_tcm_init(&MON);
  u64 n = vp_arena_alloc_size(2, 1);
  u8* storage = malloc(n); __CPROVER_assume(storage != 0); memset(storage, 0, n);
  A = vp_arena_prestate(storage, (struct S_class_tbb__detail__r1__threading_control*)TC, 2, 1);
  VP_ASSERT(vp_arena_max_workers(A) == 1 && !vp_arena_has_tasks(A) && !vp_arena_pool_state(A), "pre-state: fresh arena is empty and UNSET");
#if PRESET
  vp_arena_advertise(A);
  VP_ASSERT(vp_arena_pool_word(A) == 1 && demand == 1, "pre-state: advertise on an UNSET arena sets the flag and requests max_workers");
#endif
  vp_thr_spawner_a_start(A, (struct S_class_tbb__detail__d1__task*)TASK, 0, 0);
  vp_thr_idle_b_start(A, 1);
  for (int r = 0; r < ROUNDS; r++) { VP_RUNT(vp_thr_spawner_a, 0) VP_RUNT(vp_thr_idle_b, 1) }
  VP_QUIESCE2(vp_thr_spawner_a, vp_thr_idle_b)
  VP_ASSERT(!vp_deadlock, "deadlock");
  __CPROVER_assume(!vp_unfinished);
  VP_ASSERT(vp_arena_has_tasks(A), "the spawned task must still be in the pool (nobody takes it in this scenario)");
  VP_ASSERT(vp_arena_pool_word(A) == 1, "task in the pool but the arena's pool-state flag is not SET at quiescence (UNSET or stale busy): the work is advertised to nobody");
  VP_ASSERT(demand == 1, "task in the pool but the net worker demand handed to threading_control is not max_workers: no worker will be asked to come");
  VP_ASSERT(mandatory == 0, "mandatory concurrency touched by a spawn");
  VP_REACHED();
  return 0;
}

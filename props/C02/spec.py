PROPERTY = 'C02'
# ---------------------------------------------------------------- units
# devirt: wait_node::init/wait/reset/notify are virtual; promoted to direct calls over the TU's vtables (closed world: sleep_node only,
#         anything else traps).  cut timed_spin_wait_until: the bounded spin before concurrent_monitor_mutex::lock sleeps = one poll (see h_mon.c).
MON = dict(wrapper='w_mon.cpp', mode='lcs', unroll=1, devirt=['sleep_node'], cut=['timed_spin_wait_until'])
UNITS = {
  'mon2': dict(MON, threads={'vp_thr_sleeper': ['a'], 'vp_thr_notifier': ['b']}),
  'mon3': dict(MON, threads={'vp_thr_sleeper': ['a', 'b'], 'vp_thr_notifier': ['c']}),
}
ADDR = dict(wrapper='w_addr.cpp', mode='lcs', unroll=1, devirt=True, cut=['timed_spin_wait_until', 'get_address_waiter'], pure=['get_address_waiter'], cxxflags=['-D__TBB_BUILD=1'])
UNITS['mtx2'] = dict(ADDR, threads={'vp_thr_mutex': ['a', 'b']})
UNITS['mtx3'] = dict(ADDR, threads={'vp_thr_mutex': ['a', 'b', 'c']})
UNITS['rw2'] = dict(ADDR, cxxflags=['-D__TBB_BUILD=1', '-DVP_RW=1'], threads={'vp_thr_rw': ['a', 'b']})
SER = dict(wrapper='w_ser.cpp', mode='lcs', unroll=1, cut=['timed_spin_wait_until'], cxxflags=['-D__TBB_BUILD=1'])
UNITS['ser2'] = dict(SER, threads={'vp_thr_upd': ['a', 'b']})
UNITS['ser3'] = dict(SER, threads={'vp_thr_upd': ['a', 'b', 'c']})
UNITS['ser2l'] = dict(SER, threads={'vp_thr_upd': ['a', 'b'], 'vp_thr_lim': ['c']})
UNITS['prx2'] = dict(SER, cxxflags=['-D__TBB_BUILD=1', '-DVP_PROXY=1'], threads={'vp_thr_proxy': ['a', 'b']})
UNITS['prx3'] = dict(SER, cxxflags=['-D__TBB_BUILD=1', '-DVP_PROXY=1'], threads={'vp_thr_proxy': ['a', 'b', 'c']})
UNITS['arena2'] = dict(wrapper='w_arena.cpp', mode='lcs', unroll=1, exceptions=True, prune=True, cut=['timed_spin_wait_until'], pure=['get_waiting_threads_monitor'], cxxflags=['-D__TBB_BUILD=1', '-mrtm', '-mwaitpkg'],
                       threads={'vp_thr_spawner': ['a'], 'vp_thr_idle': ['b']})
EXEC = dict(wrapper='w_exec.cpp', mode='lcs', unroll=1, exceptions=True, prune=True, devirt=['sleep_node', 'vp_delegate'], cut=['timed_spin_wait_until', 'enqueue_task'], pure=['pthread_getspecific'], ptrhooks=True,
            noinline=['concurrent_monitor_baseImE12prepare_wait', 'concurrent_monitor_baseImE11cancel_wait', 'concurrent_monitor_baseImE18notify_one_relaxed', 'concurrent_monitor_baseImE14notify_relaxed'],
            cxxflags=['-D__TBB_BUILD=1', '-mrtm', '-mwaitpkg'],
            # destructors that stay out-of-line only on the exceptional clean-up paths (landing pads) of task_arena_impl::execute; no stub throws, so those
            # paths are dead; every normal-path call of them is inlined (checked in the IR)
            allow_atomic=['_ZN3tbb6detail2d118task_group_contextD2Ev', '_ZN3tbb6detail2d123task_scheduler_observerD2Ev', '_ZN3tbb6detail2r110sleep_nodeImED2Ev',
                          '_ZN3tbb6detail2r114delegated_taskD2Ev', '_ZN3tbb6detail2r120nested_arena_contextD2Ev', '__clang_call_terminate',
                          # monitor operations kept out of line (see `noinline`): one atomic step each in this harness; their internals are monitor_*'s job
                          '_ZN3tbb6detail2r123concurrent_monitor_baseImE11cancel_waitERNS1_9wait_nodeImEE', '_ZN3tbb6detail2r123concurrent_monitor_baseImE12prepare_waitERNS1_9wait_nodeImEE',
                          '_ZN3tbb6detail2r123concurrent_monitor_baseImE18notify_one_relaxedEv',
                          '_ZN3tbb6detail2r123concurrent_monitor_baseImE14notify_relaxedIZNS1_14delegated_task8finalizeEvEUlmE_EEvRKT_'])
CUTNEST = ['timed_spin_wait_until', 'enqueue_task', 'nested_arena_contextC2E', 'nested_arena_contextD2Ev']
UNITS['exec_e'] = dict(EXEC, cut=CUTNEST, threads={'vp_thr_entrant': ['a'], 'vp_thr_leaver2': ['b']})
UNITS['exec_ew'] = dict(EXEC, cut=CUTNEST, threads={'vp_thr_entrant': ['a'], 'vp_thr_worker': ['b']})
UNITS['exec_l'] = dict(EXEC, threads={'vp_thr_waiter': ['a'], 'vp_thr_leaver': ['b']})
HS = dict(wrapper='w_hs.cpp', mode='lcs', unroll=1, devirt=True, cxxflags=['-D__TBB_BUILD=1'],
          cut=['timed_spin_wait_until', 'get_address_waiter', 'binary_semaphore1PEv', 'binary_semaphore1VEv', 'concurrent_monitor_mutex4lockEv', 'concurrent_monitor_mutex6unlockEv'],
          pure=['get_address_waiter'],
          threads={'vp_thr_unlocker': ['a'], 'vp_thr_sleeper': ['b']})
UNITS['hs'] = dict(HS)
UNITS['hs_tso'] = dict(HS, tso=True)
COMMON = dict(cbmc=['--unwind', '8', '--object-bits', '12'], native_cflags=['-fno-sanitize=null,pointer-overflow'], mem_gb=8)
def H(**kw):
    d = dict(COMMON); d.update(kw); return d
def prod(**kw):
    import itertools
    ks = list(kw)
    return [dict(zip(ks, c)) for c in itertools.product(*[kw[k] for k in ks])]
MC = 'S_class_anon_8'    # generated C name of the by-value lambda of waitable_atomic<bool>::wait in the mutex-only TU (compile error = loud, if it ever shifts)
SC = 'S_class_anon'      # same lambda in the serializer TU
HARNESSES = [
  # ---------------- monitor: concurrent_monitor_base<uintptr_t> + sleep_node + binary_semaphore(futex) + concurrent_monitor_mutex
  H(name='monitor_1s1n', unit='mon2', harness='h_mon.c', defines={'NS': 1, 'ROUNDS': 2},
    scenarios=prod(SOP0=[0, 1], NOP=[0, 1, 2]) + [{'SOP0': 1, 'NOP': 4}], timeout=600,
    thorough_override=dict(defines={'NS': 1, 'ROUNDS': 3}, timeout=1800),
    desc='concurrent_monitor: 1 sleeper (SOP0: 0 wait(pred,node) | 1 manual prepare_wait/re-check/cancel_wait|commit_wait loop with a reused node) vs '
         '1 notifier (NOP: flag=1 then 0 notify_one | 1 notify_all | 2 notify(pred) ; 4 = a notify_one before the event and one after); '
         'real sleep_node / binary_semaphore futex protocol 0/1/2 / concurrent_monitor_mutex (incl. its futex path); futex syscall stubbed',
    bounds={'threads': 2, 'free_rounds': '2 quick / 3 thorough', 'forced_rounds': 2, 'unroll': 1}),
  H(name='monitor_1s1n_spurious', unit='mon2', harness='h_mon.c', defines={'NS': 1, 'ROUNDS': 2, 'FX_SPURIOUS': 1}, tiers=['thorough'],
    scenarios=[{'SOP0': 0, 'NOP': 0}, {'SOP0': 1, 'NOP': 1}], timeout=1800,
    desc='as monitor_1s1n, futex_wait may additionally return spuriously once (EINTR): binary_semaphore::P and the monitor mutex must re-check and sleep again',
    bounds={'threads': 2, 'free_rounds': 2, 'forced_rounds': 2, 'spurious_futex_returns': 1}),
  H(name='monitor_2s1n', unit='mon3', harness='h_mon.c', defines={'NS': 2, 'ROUNDS': 1, 'NEXTRA': 3},
    scenarios=[{'SOP0': 0, 'SOP1': 0, 'NOP': 1}],
    scenarios_thorough=[{'SOP0': 0, 'SOP1': 0, 'NOP': 1}, {'SOP0': 0, 'SOP1': 1, 'NOP': 1},
                        {'SOP0': 0, 'SOP1': 0, 'NOP': 3, 'CTX0': 1, 'NEED0': 1, 'CTX1': 2, 'NEED1': 2},
                        {'SOP0': 0, 'SOP1': 0, 'NOP': 2, 'VAL': 2, 'CTX0': 1, 'NEED0': 1, 'CTX1': 2, 'NEED1': 2}],
    timeout=900, thorough_override=dict(defines={'NS': 2, 'ROUNDS': 1, 'NEXTRA': 4}, timeout=10800),   # the ticket scenario (NOP 3) took 53 min at load 60
    desc='concurrent_monitor: 2 sleepers vs 1 notifier: notify_all on a shared flag; bounded-queue style tickets (contexts 1,2; notify(ctx<=ticket) after each '
         'increment, NOP 3) ; one notify(ctx<=2) releasing both (NOP 2)',
    bounds={'threads': 3, 'free_rounds': 1, 'forced_rounds': 2, 'unroll': 1,
            'notifier_slices': 'the notifier gets NEXTRA extra slices per free round: its list-walking loops advance one iteration per slice (unroll 1)'}),
  # ---------------- addr: tbb::mutex / tbb::rw_mutex through the real address_waiter.cpp (registered for C08 as well)
  H(name='addr_mutex_2t', unit='mtx2', harness='h_addr.c', defines={'NT': 2, 'ROUNDS': 2, 'MTX_WAIT_CLOSURE': MC},
    scenarios=[{'OP0': 0, 'OP1': 2}], scenarios_thorough=[{'OP0': 0, 'OP1': 2}, {'OP0': 0, 'OP1': 0}, {'OP0': 0, 'OP1': 1}], timeout=900,
    thorough_override=dict(timeout=3600),
    desc='tbb::mutex through the REAL address_waiter.cpp (wait_on_address/notify_by_address_one over concurrent_monitor_base<address_context>): '
         'OPi 0 lock;cs;unlock, 1 try_lock, 2 thread starts as the holder and unlocks. Mutual exclusion + no lost wake-up',
    bounds={'threads': 2, 'free_rounds': 2, 'forced_rounds': 2, 'unroll': 1}),
  H(name='addr_mutex_3t', unit='mtx3', harness='h_addr.c', defines={'NT': 3, 'ROUNDS': 1, 'MTX_WAIT_CLOSURE': MC}, tiers=['thorough'],
    scenarios=[{'OP0': 0, 'OP1': 0, 'OP2': 2}], timeout=3600,
    desc='tbb::mutex, 2 lockers + 1 initial holder: notify_one wakes one sleeper, the other is woken by the next unlock',
    bounds={'threads': 3, 'free_rounds': 1, 'forced_rounds': 2, 'unroll': 1}),
  H(name='addr_mutex_shared', unit='mtx3', harness='h_addr2.c', defines={'ROUNDS': 1, 'EXTRA': 2, 'MTX_WAIT_CLOSURE': MC},
    scenarios=[{'WHICH': 0}, {'WHICH': 1}], timeout=900, thorough_override=dict(defines={'ROUNDS': 2, 'EXTRA': 1, 'MTX_WAIT_CLOSURE': MC}, timeout=3600),
    desc='two tbb::mutex objects A, B sharing ONE address_waiter monitor (hash collision): TA asleep in A.lock() (older), TB asleep in B.lock(), built by forced first '
         'slices of the real code; the owner unlocks B (WHICH 0) or A (WHICH 1), the other stays held. The sleeper of the released mutex must get it '
         '(notify_by_address_one must pick a node of ITS address); the other sleeper legally stays parked',
    bounds={'threads': 3, 'prefix': 'TA, TB run concretely until asleep', 'free_rounds': '1 (+2 extra owner/woken slice pairs) quick / 2 (+1) thorough', 'forced_rounds': 2, 'unroll': 1}),
  H(name='addr_rw_2t', unit='rw2', harness='h_rw.c', defines={'NT': 2, 'ROUNDS': 2}, tiers=['thorough'],
    scenarios=[{'OP0': 1, 'OP1': 4}, {'OP0': 0, 'OP1': 4}, {'OP0': 1, 'OP1': 5}, {'OP0': 0, 'OP1': 6}], timeout=7200,
    desc='tbb::rw_mutex through the REAL address_waiter.cpp: roles 0 reader, 1 writer, 4/5 thread starts as '
         'writer/reader and releases, 6 starts as writer, downgrades, releases (2 reader->upgrade and 3 writer->downgrade exist in the wrapper but are too expensive). Reader/writer exclusion, atomic-upgrade truthfulness, no lost wake-up (WRITER_PENDING / context-filtered notify)',
    bounds={'threads': 2, 'free_rounds': 2, 'forced_rounds': 2, 'unroll': 1}),
  # ---------------- serializer: worker-demand aggregator
  H(name='serializer_2u', unit='ser2', harness='h_ser.c', defines={'NU': 2, 'ROUNDS': 2, 'SER_WAIT_CLOSURE': SC}, scenarios=[{}], timeout=600,
    thorough_override=dict(defines={'NU': 2, 'ROUNDS': 3, 'DMAX': 5, 'LMAX': 6, 'SER_WAIT_CLOSURE': SC}, timeout=5400),
    desc='thread_request_serializer::update by 2 threads with symbolic deltas: no request lost or duplicated (total == sum, pending word idle), '
         'estimate handed to thread_dispatcher == min(soft_limit, total), adjust_job_count_estimate only under the mutex',
    bounds={'threads': 2, 'free_rounds': '2 quick / 3 thorough', 'forced_rounds': 2, 'delta_range': '[-3,3], limit 0..4 quick / [-5,5], 0..6 thorough'}),
  H(name='serializer_2u1l', unit='ser2l', harness='h_ser.c', defines={'NU': 2, 'LIMTHR': 1, 'ROUNDS': 1, 'SER_WAIT_CLOSURE': SC}, scenarios=[{}], timeout=900,
    thorough_override=dict(defines={'NU': 2, 'LIMTHR': 1, 'ROUNDS': 2, 'SER_WAIT_CLOSURE': SC}, timeout=2400),
    desc='2 updaters + 1 thread changing the soft limit (set_active_num_workers, symbolic new limit) concurrently',
    bounds={'threads': 3, 'free_rounds': '1 quick / 2 thorough', 'forced_rounds': 2, 'delta_range': '[-3,3], limits 0..4'}),
  H(name='serializer_3u', unit='ser3', harness='h_ser.c', defines={'NU': 3, 'ROUNDS': 1, 'DMAX': 2, 'LMAX': 2, 'SER_WAIT_CLOSURE': SC}, scenarios=[{}], timeout=900,
    thorough_override=dict(defines={'NU': 3, 'ROUNDS': 2, 'DMAX': 1, 'LMAX': 2, 'SER_WAIT_CLOSURE': SC}, timeout=5400),
    desc='3 concurrent updaters', bounds={'threads': 3, 'free_rounds': '1 quick / 2 thorough', 'forced_rounds': 2, 'delta_range': '[-2,2], limit 0..2 quick / [-1,1], limit 0..2 with 2 free rounds thorough'}),
  # ---------------- proxy: mandatory concurrency (enqueue while the soft limit is 0)
  H(name='proxy_2t', unit='prx2', harness='h_proxy.c', defines={'NT': 2, 'ROUNDS': 2, 'SER_WAIT_CLOSURE': SC},
    scenarios=[{'PRE': 0, 'OP0': 0, 'OP1': 0}, {'PRE': 1, 'OP0': 0, 'OP1': 1}, {'PRE': 2, 'OP0': 1, 'OP1': 1},
               {'PRE': 1, 'OP0': 1, 'OP1': 2, 'ARG1': 2}, {'PRE': 1, 'LIM0': 2, 'OP0': 1, 'OP1': 2, 'ARG1': 0},
               {'PRE': 0, 'LIM0': 2, 'OP0': 0, 'OP1': 2, 'ARG1': 0}, {'PRE': 0, 'OP0': 0, 'OP1': 2, 'ARG1': 2},
               {'PRE': 0, 'OP0': 0, 'OP1': 3, 'ARG1': 2}],
    timeout=900, thorough_override=dict(defines={'NT': 2, 'ROUNDS': 3, 'SER_WAIT_CLOSURE': SC}, timeout=2400),
    desc='thread_request_serializer_proxy: OPi 0 register_mandatory_request(+1), 1 (-1), 2 set_active_num_workers(ARGi), 3 update(ARGi); PRE = requests registered '
         'before the threads start, LIM0 initial soft limit. Real rw_mutex scoped_lock (read lock + upgrade_to_writer) and real serializer. At quiescence: mandatory '
         'concurrency on iff requests>0 and soft limit 0; serializer limit and job-count estimate consistent',
    bounds={'threads': 2, 'free_rounds': '2 quick / 3 thorough', 'forced_rounds': 2, 'unroll': 1}),
  H(name='proxy_3t', unit='prx3', harness='h_proxy.c', defines={'NT': 3, 'ROUNDS': 1, 'SER_WAIT_CLOSURE': SC}, tiers=['thorough'],
    scenarios=[{'PRE': 1, 'OP0': 1, 'OP1': 0, 'OP2': 0}, {'PRE': 1, 'OP0': 1, 'OP1': 0, 'OP2': 2, 'ARG2': 0, 'LIM0': 2}], timeout=3600,
    thorough_override=dict(defines={'NT': 3, 'ROUNDS': 2, 'SER_WAIT_CLOSURE': SC}),
    desc='proxy, 3 threads: -1 || +1 || +1 and -1 || +1 || set_active_num_workers(0)', bounds={'threads': 3, 'free_rounds': 2, 'forced_rounds': 2, 'unroll': 1}),
  H(name='arena_flag', unit='arena2', harness='h_arena.c', defines={'ROUNDS': 2}, scenarios=[{'PRESET': 1}, {'PRESET': 0}], timeout=1800, tiers=['thorough'],
    desc='arena pool-state flag', bounds={'threads': 2}),
]
EXC = dict(cbmc=['--unwind', '4', '--object-bits', '12'], timeout=1800)
HARNESSES.append(H(name='execute_slot_wait', unit='exec_e', harness='h_exec.c', defines={'SIDE': 1, 'ROUNDS': 1, 'EXTRA_E': 1},
    scenarios=[{'LSLOT': 0}], scenarios_thorough=[{'LSLOT': 0}, {'LSLOT': 1}], thorough_override=dict(defines={'SIDE': 1, 'ROUNDS': 2, 'EXTRA_E': 1}),
    desc='task_arena::execute waiting for a free slot, entrant side: REAL task_arena_impl::execute (delegated_task, loop prepare_wait -> work done? -> occupy_free_slot '
         '-> commit_wait on my_exit_monitors; enqueue_task and the nested_arena_context ctor/dtor cut) vs a leaving occupant doing the two real calls of '
         '~nested_arena_context: my_slots[LSLOT].release(); my_exit_monitors.notify_one(). prepare_wait/cancel_wait/notify_one_relaxed are one atomic step each',
    bounds={'threads': 2, 'free_rounds': '1 quick / 2 thorough', 'forced_rounds': 2, 'unroll': 1, 'entrant_extra_slices_per_round': 1}, **EXC))
HARNESSES.append(H(name='execute_slot_wait_worker', unit='exec_ew', harness='h_exec.c', defines={'SIDE': 2, 'ROUNDS': 2, 'EXTRA_E': 1, 'LSLOT': 0}, scenarios=[{}], tiers=['thorough'],
    desc='entrant side (REAL task_arena_impl::execute), no slot ever frees up: a worker runs the REAL delegated_task::execute -> finalize (wait_context release, then '
         'my_exit_monitors.notify(ctx == &delegate)) and must wake the entrant', bounds={'threads': 2, 'free_rounds': 2, 'forced_rounds': 2, 'unroll': 1}, **EXC))
HARNESSES.append(H(name='execute_slot_leave', unit='exec_l', harness='h_exec.c', defines={'SIDE': 3, 'ROUNDS': 2, 'EXTRA_E': 1},
    scenarios=[{'LSLOT': 0}], scenarios_thorough=[{'LSLOT': 0}, {'LSLOT': 1}],
    desc='task_arena::execute, leaving side: REAL ~nested_arena_context() (built by the real occupy_free_slot + constructor): request_workers, leave_task_dispatcher, '
         'my_arena_slot->release(), my_exit_monitors.notify_one(), re-attach to the home arena, vs a minimal entrant with the same hand-shake '
         '(prepare_wait -> real occupy_free_slot -> commit_wait | cancel_wait)', bounds={'threads': 2, 'free_rounds': 2, 'forced_rounds': 2, 'unroll': 1}, **EXC))
HSD = dict(harness='h_hs.c', scenarios=[{}], native_cflags=['-fno-sanitize=null,pointer-overflow'])
HARNESSES.append(H(name='mutex_handshake_sc', unit='hs', defines={'ROUNDS': 2, 'HS_WAIT_CLOSURE': 'S_class_anon_11'}, timeout=600,
    desc='minimal tbb::mutex unlock || sleep hand-shake (sequentially consistent): U = REAL mutex::unlock (exchange(false); notify_by_address_one -> notify_one_relaxed: empty-check, '
         'dequeue, V), W = REAL waitable_atomic::wait past its spinning phase -> wait_on_address -> prepare_wait (insertion under the real concurrent_monitor_mutex + '
         'atomic_fence_seq_cst) -> predicate re-check -> commit_wait | cancel_wait. get_address_waiter, binary_semaphore::P/V (one-flag stub), timed_spin_wait_until cut',
    bounds={'threads': 2, 'free_rounds': 2, 'forced_rounds': 2, 'unroll': 1}, **HSD))
HARNESSES.append(H(name='mutex_handshake_tso', unit='hs_tso', tiers=['thorough'], defines={'ROUNDS': 1, 'HS_WAIT_CLOSURE': 'S_class_anon_11'}, timeout=7200, mem_gb=16,
    desc='mutex_handshake_sc under x86-TSO: per-thread FIFO store buffer (depth 2), nondeterministic flushes at slice starts, drained by locked RMWs / seq_cst stores / fences, '
         'everything flushed before the forced rounds: the unlocking store must be globally visible before the wait-set empty-check (Dekker)',
    bounds={'threads': 2, 'free_rounds': 1, 'forced_rounds': 2, 'unroll': 1, 'memory_model': 'x86-TSO, store buffer depth 2'}, **HSD))
# development aid (mutation testing of one expensive scenario): VP_C02_SCEN="OP0=0,OP1=4" keeps only the scenarios containing these pairs
import os as _os
if _os.environ.get('VP_C02_SCEN'):
    _want = dict((k, int(v)) for k, v in (kv.split('=') for kv in _os.environ['VP_C02_SCEN'].split(',')))
    for _h in HARNESSES:
        for _key in ('scenarios', 'scenarios_quick', 'scenarios_thorough'):
            if _key in _h: _h[_key] = [sc for sc in _h[_key] if all(sc.get(k) == v for k, v in _want.items())] or _h[_key][:1]
MANIFEST = dict(
  level_text='Bounded model checking of the real sleeping/wake-up code: for 2-3 threads executing the real concurrent_monitor (prepare_wait / re-check / '
             'commit_wait / cancel_wait / wait vs notify_one / notify_all / notify(pred)), sleep_node, binary_semaphore futex protocol and '
             'concurrent_monitor_mutex, the real tbb::mutex and tbb::rw_mutex over the real address_waiter.cpp, the slot wait of task_arena::execute (real execute() / real '
             '~nested_arena_context(), one side at a time), the arena pool-state flag, and thread_request_serializer[_proxy], every interleaving (single-IR-memory-operation granularity) with up to R scheduling rounds per thread plus two forced '
             'rounds is decided by the SAT solver. Lost wake-up = reachability of a quiescent state in which an unfinished thread is asleep in the (stubbed) '
             'kernel futex queue or parked although its condition holds; plus: a wait returns only after the event, no semaphore token is leaked or posted to '
             'a destroyed node, wait set / mutex / futex queue are clean at the end, no worker-demand delta is lost (total == sum, estimate == min(limit,total)).',
  level_note='Bounds per harness in evidence (threads <= 3, free rounds 1-3, loop unroll 1, concrete operation kinds per query, symbolic schedule/deltas/wake choice). '
             'Sequentially consistent except mutex_handshake_tso (x86-TSO store buffers, thorough tier) for the tbb::mutex unlock || sleep hand-shake. '
             'external_waiter/wait_context, work_enqueued advertising, bounded queue (C09), private_server/rml wake-up are outside. '
             'Trusted: clang-14 IR, tools/devirt.py (virtual-call promotion over the TU vtables), tools/ir2c.py, cbmc; futex(2) contract stub.',
)
OUTSIDE = [
  'store-buffer (x86-TSO) reordering is covered only for the tbb::mutex unlock || sleep hand-shake (mutex_handshake_tso, thorough); every other query is sequentially consistent, so e.g. the full fences of notify_one/notify_all/notify(pred) callers, rw_mutex, the arena flag and the exit monitor are not exercised under TSO; weaker-than-TSO reorderings are outside everywhere',
  'arena::advertise_new_work / out_of_work / atomic_flag three-state protocol, mandatory concurrency via thread_request_serializer_proxy (rw_mutex upgrade path), market/thread_dispatcher/private_server/rml_thread_monitor',
  'external_waiter / sleep_waiter (waiters.h), wait_context::release -> notify_waiters',
  'task_arena::execute slot wait: the real execute() and the real ~nested_arena_context() are each checked against a minimal counterpart (execute_slot_wait / execute_slot_leave), not against each other in one query (solver out of memory); prepare_wait / cancel_wait / notify_one_relaxed / notify_relaxed are single atomic steps there; enqueue_task, r1::wait and the nested_arena_context bookkeeping on the entrant side are stubs',
  'concurrent_bounded_queue (C09), resume/suspend (C20)',
  'abort_all / user_abort exception path of the monitor (units are built with -fno-exceptions)',
  'the bounded spinning phase before sleeping (timed_spin_wait_until) is abstracted to a single poll; the hash function of get_address_waiter itself (two mutexes colliding in one monitor IS covered: addr_mutex_shared); rw_mutex contexts colliding with another object in one monitor',
  'more than 3 threads, more than one wait per sleeper (quick), more than 2-3 scheduling rounds per thread',
]
STUBS = [
  'syscall(SYS_futex, FUTEX_WAIT_PRIVATE|FUTEX_WAKE_PRIVATE): kernel futex queue per futex(2): wait sleeps iff *addr==val (atomically), wake wakes at most one sleeper on that address (solver picks which), optional spurious EINTR return (monitor_1s1n_spurious)',
  'd0::timed_spin_wait_until (cut): one poll of the real wake-up condition instead of up to 37 polls with pause/yield in between',
  'r1::get_address_waiter (cut, addr_* harnesses): returns one harness-owned address_waiter constructed by the real constructor instead of slot hash(addr) of the static 2048-entry table',
  'sched_yield / pause: scheduling hints (no-op)',
  'serializer_* only: thread_dispatcher::adjust_job_count_estimate = accumulator; r1::wait_on_address = park until the real wake-up delegate is true, notify_by_address_* = no-op (idealised tbb::mutex slow path; the real one is addr_mutex_*)',
  'execute_slot_*: arena::enqueue_task (records the delegated task), r1::wait (runs the recorded task inline: functor, wait_context release, completion flag), nested_arena_context ctor/dtor on the entrant side (slot bookkeeping + the two real leave calls), governor::get_thread_data via pthread_getspecific (pure), threading_control::adjust_demand (accumulator)',
  'mutex_handshake_*: binary_semaphore::P/V = one-flag semaphore; concurrent_monitor_mutex::lock/unlock = plain lock whose acquire/release drain the store buffer (they are locked exchanges)',
  'throw_exception, operator delete, __cxa_pure_virtual: must not be reached (assert)',
]
ASSUMPTIONS = [
  'closed world for virtual dispatch: the only wait_node implementation in the checked TUs is sleep_node (resume_node of suspended tasks is C20); a different dynamic type traps',
  'one address-waiter slot per addr_* harness: exact for one waited-on address, and the worst case (collision) for the two mutexes of addr_mutex_shared',
]

/* C02 `proxy`: real thread_request_serializer_proxy (mandatory concurrency: one worker is enabled for enqueued work while the soft limit is 0)
 * over the real tbb::rw_mutex scoped_lock (read lock + upgrade_to_writer) and the real thread_request_serializer.
 * Threads OPi: 0 register_mandatory_request(+1) [an arena needs its mandatory worker], 1 register_mandatory_request(-1) [arena ran dry],
 *              2 set_active_num_workers(ARGi) [global_control changes the soft limit], 3 update(ARGi).
 * Pre-state PRE: number of register_mandatory_request(+1) executed (really, sequentially) before the threads start; initial soft limit LIM0.
 * Oracle at quiescence (what keeps an enqueued task from starving): requests == PRE + sum of deltas; mandatory concurrency is enabled iff
 * requests > 0 and the user's soft limit is 0; the serializer's soft limit is 1 if enabled else the user's limit; estimate handed to
 * the thread server == min(serializer limit, total request); rw_mutex state 0; no deadlock. */
#include "w.h"
#include "vp.h"
struct S_class_tbb__detail__r1__thread_request_serializer_proxy P;
u8 TD[64];
long estimate; int done[3];
void vp_done(u32 tid) { done[tid] = 1; }
void _ZN3tbb6detail2r117thread_dispatcher25adjust_job_count_estimateEi(struct S_class_tbb__detail__r1__thread_dispatcher* td, u32 delta) {
  VP_ASSERT(vp_ser_mutex_flag(vp_proxy_ser(&P)) == 1, "adjust_job_count_estimate called without holding the serializer mutex");
  estimate += (int)delta;
}
void _ZdlPv(u8* p) { VP_ASSERT(0, "operator delete"); }
/* slow paths of tbb::mutex / tbb::rw_mutex: timed_spin_wait_until = one poll of the real lambda; r1::wait_on_address = park until the real
 * wake-up delegate (virtual operator()) holds, notify_by_address* = no-op (idealised; the real implementation is checked by addr_*) */
struct vp_df { void* vptr; void* closure; };
#define VP_POLL(opcall, closure_ptr) struct vp_df df; df.vptr = 0; df.closure = (void*)(closure_ptr); return opcall((void*)&df);
struct vp_c2 { void* a; void* b; };
#include "closure_stub.h"
VP_CLOSURE_STUB(_ZN3tbb6detail2d021timed_spin_wait_untilIZNS0_2d115waitable_atomicIbE4waitEbmSt12memory_orderEUlvE_EEbT_) {
  VP_POLL(_ZNK3tbb6detail2d118delegated_functionIZNS1_15waitable_atomicIbE4waitEbmSt12memory_orderEUlvE_EclEv, closure)
}
u8 _ZN3tbb6detail2d021timed_spin_wait_untilIZNS0_2d18rw_mutex11lock_sharedEvEUlvE_EEbT_(struct S_class_tbb__detail__d1__rw_mutex* m, u64* has_writer) {
  struct vp_c2 c; c.a = m; c.b = has_writer;
  VP_POLL(_ZNK3tbb6detail2d118delegated_functionIZNS1_8rw_mutex11lock_sharedEvEUlvE_EclEv, &c)
}
u8 _ZN3tbb6detail2d021timed_spin_wait_untilIZNS0_2d18rw_mutex4lockEvEUlvE_EEbT_(struct S_class_tbb__detail__d1__rw_mutex* m) {
  void* c = m;
  VP_POLL(_ZNK3tbb6detail2d118delegated_functionIZNS1_8rw_mutex4lockEvEUlvE_EclEv, &c)
}
u8 _ZN3tbb6detail2d021timed_spin_wait_untilIZNS0_2d18rw_mutex7upgradeEvEUlvE_EEbT_(struct S_class_tbb__detail__d1__rw_mutex* m) {
  void* c = m;
  VP_POLL(_ZNK3tbb6detail2d118delegated_functionIZNS1_8rw_mutex7upgradeEvEUlvE_EclEv, &c)
}
typedef u8 (*vp_pred_fn)(struct S_class_tbb__detail__d1__delegate_base*);
void _ZN3tbb6detail2r115wait_on_addressEPvRNS0_2d113delegate_baseEm(u8* addr, struct S_class_tbb__detail__d1__delegate_base* pred, u64 ctx) {
  vp_pred_fn f = (vp_pred_fn)pred->f0[0];          /* vtable slot 0 = delegate_base::operator()() const */
  if (!f(pred)) VP_BLOCK();
}
void _ZN3tbb6detail2r121notify_by_address_oneEPv(u8* addr) {}
void _ZN3tbb6detail2r117notify_by_addressEPvm(u8* addr, u64 ctx) {}
void _ZN3tbb6detail2r121notify_by_address_allEPv(u8* addr) {}
#ifndef LIM0
#define LIM0 0
#endif
#ifndef ARG0
#define ARG0 0
#endif
#ifndef ARG1
#define ARG1 0
#endif
#ifndef ARG2
#define ARG2 0
#endif
#define THR(s) vp_thr_proxy_##s
#define DELTA(op) ((op) == 0 ? 1 : (op) == 1 ? -1 : 0)
int main(void) {
  vp_proxy_init(&P, (struct S_class_tbb__detail__r1__thread_dispatcher*)TD, LIM0);
  for (int i = 0; i < PRE; i++) vp_proxy_register(&P, 1);
  THR(a_start)(&P, 0, OP0, ARG0); THR(b_start)(&P, 1, OP1, ARG1);
#if NT == 3
  THR(c_start)(&P, 2, OP2, ARG2);
#endif
  for (int r = 0; r < ROUNDS; r++) {
    VP_RUNT(THR(a), 0) VP_RUNT(THR(b), 1)
#if NT == 3
    VP_RUNT(THR(c), 2)
#endif
  }
#if NT == 3
  VP_QUIESCE3(THR(a), THR(b), THR(c))
#else
  VP_QUIESCE2(THR(a), THR(b))
#endif
  VP_ASSERT(!vp_deadlock, "deadlock: every unfinished thread is blocked and nothing changes");
  __CPROVER_assume(!vp_unfinished);
  int req = PRE + DELTA(OP0) + DELTA(OP1);
  int user_limit = LIM0, total = 0;
  /* at most one thread changes the limit in a scenario */
  if (OP0 == 2) user_limit = ARG0; if (OP1 == 2) user_limit = ARG1;
  if (OP0 == 3) total += ARG0; if (OP1 == 3) total += ARG1;
#if NT == 3
  req += DELTA(OP2); if (OP2 == 2) user_limit = ARG2; if (OP2 == 3) total += ARG2;
#endif
  int enabled = (int)vp_proxy_enabled(&P), slim = (int)vp_ser_limit(vp_proxy_ser(&P));
  VP_ASSERT((int)vp_proxy_mandatory(&P) == req, "mandatory request count != registered requests");
  VP_ASSERT(enabled == (req > 0 && user_limit == 0), "mandatory concurrency flag wrong: must be on iff requests > 0 and the soft limit is 0 (enqueued work would starve / worker leaked)");
  VP_ASSERT(slim == (enabled ? 1 : user_limit), "serializer soft limit inconsistent with the mandatory-concurrency state");
  VP_ASSERT((int)vp_ser_total(vp_proxy_ser(&P)) == total && vp_ser_pending_idle(vp_proxy_ser(&P)), "worker request lost");
  VP_ASSERT(estimate == (total < slim ? total : slim), "job count estimate handed to the thread server != min(soft_limit, total request)");
  VP_ASSERT(vp_proxy_rw_state(&P) == 0 && vp_ser_mutex_flag(vp_proxy_ser(&P)) == 0, "proxy rw_mutex / serializer mutex still held");
  VP_REACHED();
  return 0;
}

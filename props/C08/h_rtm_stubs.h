/* HTM boundary of the speculative mutexes: "no speculation / always abort". _xbegin() never starts a transaction; it returns an
 * abort status chosen by the solver (any value except _XBEGIN_STARTED = 0xFFFFFFFF), so that every retry / give-up decision of
 * the real acquire loops is explored. _xend/_xabort can then only be reached through a bug. HTM behaviour itself is OUTSIDE. */
/* A thread that calls _xbegin is making progress (its retry counter advances, the real loops give up after 10 aborts): the call
 * counts as a state change for the blocked-state oracle, otherwise "keeps retrying in both forced rounds" would look like a deadlock. */
u32 vp_xbegin(void) { u32 c = (u32)vp_nd_range(0, 0xFFFFFFFEull); vp_changed = 1; return c; }
void vp_xend(void) { VP_ASSERT(0, "_xend reached although no transaction was started"); }
void vp_xabort(u32 code) { VP_ASSERT(0, "_xabort reached although no transaction was started"); }

/* HTM boundary of the speculative mutexes (rtm_mutex, rtm_rw_mutex).
 * Model: a transaction either COMMITS ATOMICALLY or has NO EFFECT (sound under-approximation of real HTM histories):
 *  - _xbegin() returns, chosen by the solver, either an abort status (any value except _XBEGIN_STARTED = 0xFFFFFFFF: the real code
 *    takes its retry / fallback decisions on it) or - if the scenario allows this thread to speculate (TXt = 1) - _XBEGIN_STARTED,
 *    and then the thread is inside a transaction (in_txn[t]);
 *  - _xend() commits; _xabort() inside a transaction and anything else that would abort a real transaction (sched_yield) is
 *    __CPROVER_assume(0): that path is no committed transaction, and its outcome "aborted without any effect" is the
 *    abort-at-begin branch (with every status value);
 *  - atomicity: after every slice of a model thread (free and forced rounds, VP_TXCHK) the harness assumes !in_txn[t], i.e. no
 *    context switch falls inside a transaction: all and only the histories in which every committed transaction is serialised at
 *    one instant. Conflict-induced aborts = abort-at-begin branch. Outside: conflict-detection granularity (false sharing),
 *    capacity / interrupt aborts at arbitrary points *with partial architectural visibility* (there is none on real HTM either),
 *    nested transactions.
 * TXt = 0 (default): thread t never starts a transaction ("always abort": only the fallback path, as before).
 * A thread that calls _xbegin is making progress (its retry counter advances, the real loops give up after 10 aborts): the call
 * counts as a state change for the blocked-state oracle. */
#ifndef TX0
#define TX0 0
#endif
#ifndef TX1
#define TX1 0
#endif
#ifndef TX2
#define TX2 0
#endif
int in_txn[3]; unsigned txn_commits;
static const int txmode[3] = { TX0, TX1, TX2 };
u32 vp_xbegin(void) {
  vp_changed = 1;
  if (txmode[vp_cur] && vp_nd_bool()) { VP_ASSERT(!in_txn[vp_cur], "nested transaction"); in_txn[vp_cur] = 1; return 0xFFFFFFFFu; }
  return (u32)vp_nd_range(0, 0xFFFFFFFEull);
}
void vp_xend(void) { VP_ASSERT(in_txn[vp_cur], "_xend outside a transaction"); in_txn[vp_cur] = 0; txn_commits++; }
void vp_xabort(u32 code) { VP_ASSERT(in_txn[vp_cur], "_xabort outside a transaction"); __CPROVER_assume(0); }
u32 vp_xtest(void) { return in_txn[vp_cur]; }
/* (the harness defines VP_OWN_YIELD before including vp.h) */
u32 vpx_sched_yield(void) { __CPROVER_assume(!in_txn[vp_cur]); return 0; }   /* a system call aborts a transaction */
#define VP_TXCHK(t) __CPROVER_assume(!in_txn[t]);
/* forced rounds with the atomicity assumption after every slice (same oracle as VP_QUIESCE2S/3S of rt/vp.h) */
#define VP_QUIESCE2T(a, b) VP_QUIESCE2T_(a, b)
#define VP_QUIESCE2T_(a, b) \
  vp_cur = 0; VP_RUNMAX(a) VP_TXCHK(0) vp_cur = 1; VP_RUNMAX(b) VP_TXCHK(1) \
  int vp_pb_ = VP_STUCK(a) && VP_STUCK(b); unsigned vp_pca_ = a##_pc, vp_pcb_ = b##_pc; vp_changed = 0; \
  vp_cur = 0; VP_RUNMAX(a) VP_TXCHK(0) vp_cur = 1; VP_RUNMAX(b) VP_TXCHK(1) \
  int vp_unfinished = !a##_fin || !b##_fin; \
  int vp_deadlock = vp_unfinished && vp_pb_ && VP_STUCK(a) && VP_STUCK(b) && !vp_changed && vp_pca_ == a##_pc && vp_pcb_ == b##_pc;
#define VP_QUIESCE3T(a, b, c) VP_QUIESCE3T_(a, b, c)
#define VP_QUIESCE3T_(a, b, c) \
  vp_cur = 0; VP_RUNMAX(a) VP_TXCHK(0) vp_cur = 1; VP_RUNMAX(b) VP_TXCHK(1) vp_cur = 2; VP_RUNMAX(c) VP_TXCHK(2) \
  int vp_pb_ = VP_STUCK(a) && VP_STUCK(b) && VP_STUCK(c); unsigned vp_pca_ = a##_pc, vp_pcb_ = b##_pc, vp_pcc_ = c##_pc; vp_changed = 0; \
  vp_cur = 0; VP_RUNMAX(a) VP_TXCHK(0) vp_cur = 1; VP_RUNMAX(b) VP_TXCHK(1) vp_cur = 2; VP_RUNMAX(c) VP_TXCHK(2) \
  int vp_unfinished = !a##_fin || !b##_fin || !c##_fin; \
  int vp_deadlock = vp_unfinished && vp_pb_ && VP_STUCK(a) && VP_STUCK(b) && VP_STUCK(c) && !vp_changed && vp_pca_ == a##_pc && vp_pcb_ == b##_pc && vp_pcc_ == c##_pc;

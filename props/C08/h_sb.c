/* TSO machinery self-test (no oneTBB lock involved): store-buffering litmus  T0: x0 = 1; [F]; r0 = x1   T1: x1 = 1; [F]; r1 = x0.
 * FENCE=1 (real tbb::detail::atomic_fence_seq_cst between store and load) and FENCE=2 (the store is a locked exchange):
 * r0 == 0 && r1 == 0 must be impossible.
 * FENCE=0: under TSO the outcome r0 == 0 && r1 == 0 must be REACHABLE (it is assumed, and the runner requires the witness to be
 * reachable): if the translator's store-buffer model were lost (e.g. by a translator change), this query turns vacuous =>
 * inconclusive => the check is broken loudly. Under SC the same outcome is unreachable. */
#include "w.h"
#include "vp.h"
int res[2], got[2];
void vp_sb_result(u32 tid, u32 r) { res[tid] = r; got[tid] = 1; }
int main(void) {
  vp_thr_sb_a_start(0, FENCE); vp_thr_sb_b_start(1, FENCE);
  for (int r = 0; r < ROUNDS; r++) { VP_RUNT(vp_thr_sb_a, 0) VP_RUNT(vp_thr_sb_b, 1) }
  VP_QUIESCE2(vp_thr_sb_a, vp_thr_sb_b)
  VP_ASSERT(!vp_deadlock, "litmus threads cannot block");
  __CPROVER_assume(!vp_unfinished);
  VP_ASSERT(got[0] && got[1], "both threads reported");
#if FENCE
  VP_ASSERT(res[0] == 1 || res[1] == 1, "store buffering outcome r0 == r1 == 0 in spite of a full fence / locked RMW");
#else
  __CPROVER_assume(res[0] == 0 && res[1] == 0);   /* must be satisfiable under TSO (witness below) */
#endif
  VP_REACHED();
  return 0;
}

/* C08 reader/writer locks: <=1 writer, no reader together with a writer, truthful try-acquire, truthful upgrade,
 * downgrade never lets a writer in, no lost grant (blocked-state oracle), FIFO among conflicting queued requests (queuing lock).
 * LOCK: 3 spin_rw_mutex, 4 queuing_rw_mutex, 5 rtm_rw_mutex (fallback path) ; NT threads (2|3) ; ROUNDS free rounds
 * Ri (concrete per scenario): 0 reader, 1 writer, 2 reader then upgrade_to_writer, 3 writer then downgrade_to_reader,
 *                             4 try reader, 5 try writer,
 *                             6 writer, downgrade_to_reader, hold the read lock until another thread is inside as a reader, release
 *                               (only meaningful next to plain readers: a reader queued behind the writer must be admitted by the
 *                               downgrade itself, not only by the later release; otherwise this scenario deadlocks)
 * The thread bodies (w_*.cpp) call the real lock and report to the observers below:
 *   vp_enter(tid,0) reader section begins         vp_leave(tid,0) reader section ends (before an upgrade: "upgrade begins")
 *   vp_enter(tid,1) writer section begins         vp_leave(tid,1) writer section ends
 *   vp_enter(tid,2|3) writer section begins after upgrade_to_writer() returned false|true
 *   vp_leave(tid,3) writer becomes reader (reported just before the real downgrade, see wrapper) */
#include "w.h"
#if LOCK == 5
#define VP_OWN_YIELD      /* h_rtm_stubs.h: a system call inside a transaction aborts it */
#endif
#include "vp.h"
#ifndef NT
#define NT 2
#endif
#ifndef R2
#define R2 0
#endif
#if LOCK == 3 && defined(DATA)   /* roles 0 (reader: reads the protected word twice) and 1 (writer: increments it) only */
#define THR(s) vp_thr_rw_d_##s
struct S_class_tbb__detail__d1__spin_rw_mutex M;
#define WORD() vp_rw_word(&M)
#define INIT()
#define START(s, t, r) THR(s##_start)(&M, t, r)
#elif LOCK == 3
#define THR(s) vp_thr_rw_##s
struct S_class_tbb__detail__d1__spin_rw_mutex M;
#define WORD() vp_rw_word(&M)
#define INIT()
#define START(s, t, r) THR(s##_start)(&M, t, r)
#elif LOCK == 4
#define THR(s) vp_thr_qrw_##s
struct S_class_tbb__detail__d1__queuing_rw_mutex M;
struct S_class_tbb__detail__d1__queuing_rw_mutex__scoped_lock NODE[3];   /* one queue node per thread */
#define WORD() vp_qrw_word(&M)
#define INIT()
#define START(s, t, r) THR(s##_start)(&M, &NODE[t], t, r)
/* pointer<->integer hooks (unit key ptrhooks): identity functions. The lock stores node addresses, possibly tagged in bit 0, in
   uintptr_t words; resolving the integer against the finite set of node addresses gives cbmc pointers with concrete offsets
   (otherwise every access through such a pointer is a symbolic-offset byte update of the whole node). Any other value makes
   the query inconclusive (i2p_miss), it is never assumed away. */
int i2p_miss;
u64 vp_p2i(u8* p) { return (u64)p; }
u8* vp_i2p(u64 x) {
  for (int i = 0; i < NT; i++) {
    if (x == (u64)&NODE[i]) return (u8*)&NODE[i];
    if (x == (u64)&NODE[i] + 1) return (u8*)&NODE[i] + 1;
  }
  if (x == 0) return 0;
  if (x == 1) return (u8*)1;
  i2p_miss = 1;
#ifdef VP_NATIVE
  return (u8*)x;
#else
  return 0;
#endif
}
#elif LOCK == 5
#ifdef DATA      /* roles 0 reader / 1 writer / 4 try reader / 5 try writer over the data word pair vp_A, vp_B */
#define THR(s) vp_thr_rtmrw_d_##s
#define vp_data vp_A
#else
#define THR(s) vp_thr_rtmrw_##s
#endif
struct S_class_tbb__detail__d1__rtm_rw_mutex M;
#define WORD() vp_rtmrw_word(&M)
#define INIT() vp_rtmrw_init(&M, SPEC)
#define START(s, t, r) THR(s##_start)(&M, t, r)
#include "h_rtm_stubs.h"
#endif
#ifndef VP_TXCHK
#define VP_TXCHK(t)
#endif
static const int role[3] = { R0, R1, R2 };
#define IS_TRY(r) ((r) == 4 || (r) == 5)
#define IS_WRITE_REQ(r) ((r) == 1 || (r) == 3 || (r) == 5 || (r) == 6)     /* what the acquire asks for */
int writers, readers, entered[3], tried[3], try_ok[3];
unsigned wepoch, up_epoch[3];      /* number of writer sections begun so far; value when thread's upgrade began */
int qorder[3], nq, queued[3], qwrite[3];
void vp_enter(u32 tid, u32 w) {
  if (w == 0) {
    VP_ASSERT(writers == 0, "reader admitted while a writer holds the lock");
    readers++;
  } else {
    VP_ASSERT(writers == 0, "two writers hold the lock");
    VP_ASSERT(readers == 0, "writer admitted while a reader holds the lock");
    if (w == 3) VP_ASSERT(wepoch == up_epoch[tid], "upgrade_to_writer returned true although another writer section ran in between");
    writers++; wepoch++;
  }
#if LOCK == 4
  /* FIFO among conflicting blocking requests: every request seen in the queue before this one that conflicts with it
     (at least one of the two is a write request) has already been granted */
  if (!entered[tid] && queued[tid] && !IS_TRY(role[tid]))   /* a try-acquire is no queued blocking request (it only succeeds on an empty queue) */
    for (int i = 0, stop = 0; i < NT; i++) {
      if (i >= nq || qorder[i] == (int)tid) stop = 1;
      if (stop) continue;
      if (qwrite[qorder[i]] || IS_WRITE_REQ(role[tid])) VP_ASSERT(entered[qorder[i]], "queuing_rw_mutex FIFO: request overtook an earlier queued conflicting request");
    }
#endif
  entered[tid] = 1;
}
void vp_leave(u32 tid, u32 w) {
  if (w == 0) { readers--; up_epoch[tid] = wepoch; }
  else if (w == 1) writers--;
  else { writers--; readers++; }
}
void vp_try_result(u32 tid, u32 ok) { tried[tid] = 1; try_ok[tid] = ok; }
/* role 6: the downgraded holder keeps its read lock until every plain reader of the scenario has been inside (now or earlier);
   parked meanwhile, the call is re-executed when the thread is scheduled next */
void vp_wait_reader(u32 tid) { for (int o = 0; o < NT; o++) if (o != (int)tid && role[o] == 0 && !entered[o]) { VP_BLOCK(); return; } }
#ifdef DATA
void vp_data_read(u32 tid, u64 a, u64 b) {
  VP_ASSERT(a == b, "protected data inconsistent under a read lock (word changed / half of a writer's update visible)");
  VP_ASSERT(a == wepoch, "reader does not see the update of the last writer section");
}
#endif
#if LOCK == 4
/* only thread tid ran since the last observation: the tail word changed to a new non-null value iff tid executed its
   q_tail exchange/CAS (enqueue) in this slice (a release can only change it to null or leave it) */
static u64 last_tail;
static void observe_queue(int tid) {
  u64 w = WORD();
  if (w != last_tail && w != 0 && !queued[tid]) { queued[tid] = 1; if (!IS_TRY(role[tid])) { qwrite[tid] = IS_WRITE_REQ(role[tid]); qorder[nq++] = tid; } }
  last_tail = w;
}
#define OBS(t) observe_queue(t);
#else
#define OBS(t)
#endif
#ifdef VP_STUBS_H
#include VP_STUBS_H
#endif
int main(void) {
  INIT();
  START(a, 0, R0); START(b, 1, R1);
#if NT == 3
  START(c, 2, R2);
#endif
  for (int r = 0; r < ROUNDS; r++) {
    VP_RUNT(THR(a), 0) VP_TXCHK(0) OBS(0) VP_RUNT(THR(b), 1) VP_TXCHK(1) OBS(1)
#if NT == 3
    VP_RUNT(THR(c), 2) VP_TXCHK(2) OBS(2)
#endif
  }
#if NT == 3 && LOCK == 5
  VP_QUIESCE3T(THR(a), THR(b), THR(c))
#elif LOCK == 5
  VP_QUIESCE2T(THR(a), THR(b))
#elif NT == 3
  VP_QUIESCE3S(THR(a), THR(b), THR(c))
#else
  VP_QUIESCE2S(THR(a), THR(b))
#endif
  VP_ASSERT(!vp_deadlock, "lost grant / deadlock: every unfinished thread is blocked and nothing changes");
  __CPROVER_assume(!vp_unfinished);
#if LOCK == 4 && !defined(VP_NATIVE)
  /* never a pass and never a reproducible violation: a native replay does not fail here, so the runner reports "inconclusive" */
  VP_ASSERT(!i2p_miss, "VP_INCONCLUSIVE: integer-to-pointer conversion of a value that is no (tagged) queue-node address");
#endif
  VP_ASSERT(writers == 0 && readers == 0, "ghost holder count not back to zero");
  for (int t = 0; t < NT; t++) {
    if (!IS_TRY(role[t])) VP_ASSERT(entered[t], "blocking acquire returned without entering");
    else {
      VP_ASSERT(tried[t], "try-acquire did not report");
      /* all threads have finished: a failed try is justified only if some other thread held the lock at some time */
      int others = 0;
      for (int o = 0; o < NT; o++) if (o != t && entered[o]) others = 1;
      if (!try_ok[t]) VP_ASSERT(others, "try-acquire failed although nobody else ever held the lock");
    }
  }
  VP_ASSERT(WORD() == 0, "lock word not free after all holders released");
#ifdef DATA
  VP_ASSERT(vp_data == wepoch, "an update made inside a writer section was lost");
#endif
  VP_REACHED();
  return 0;
}

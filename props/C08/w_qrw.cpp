// C08 wrapper: queuing_rw_mutex — the real src/tbb/queuing_rw_mutex.cpp is included textually (r1:: entry points become
// inlinable), thread bodies drive scoped_lock acquire / try_acquire / upgrade_to_writer / downgrade_to_reader / release.
#include "src/tbb/queuing_rw_mutex.cpp"
#include <new>
using namespace tbb;
extern "C" void vp_enter(int tid, int writer);
extern "C" void vp_leave(int tid, int writer);
extern "C" void vp_try_result(int tid, int ok);
extern "C" void vp_wait_reader(int tid);      // harness: blocks (VP_BLOCK) until another thread is inside as a reader

// role 0 reader, 1 writer, 2 reader then upgrade, 3 writer then downgrade, 4 try reader, 5 try writer  (observer protocol: h_rw.c)
// The queue node (scoped_lock) lives in harness storage so that the harness can name the finite set of node addresses
// (pointer<->integer hooks, unit key ptrhooks: the lock keeps tagged node pointers in uintptr_t words).
extern "C" void vp_thr_qrw(queuing_rw_mutex* m, queuing_rw_mutex::scoped_lock* node, int tid, int role) {
  queuing_rw_mutex::scoped_lock& l = *new (node) queuing_rw_mutex::scoped_lock;   // real constructor (initialize())
  if (role == 4 || role == 5) {
    bool ok = l.try_acquire(*m, role == 5); vp_try_result(tid, ok);
    if (ok) { vp_enter(tid, role == 5); vp_leave(tid, role == 5); l.release(); }
    return;
  }
  bool w = (role == 1 || role == 3 || role == 6);
  l.acquire(*m, w);
  vp_enter(tid, w);
  if (role == 2) {
    vp_leave(tid, 0);                       // observer: reader section ends, upgrade begins
    bool ok = l.upgrade_to_writer();
    vp_enter(tid, 2 + (ok ? 1 : 0));        // writer section; bit0 = upgrade claimed to be atomic
    vp_leave(tid, 1);
  } else if (role == 3) {
    vp_leave(tid, 3);                       // ghost: writer -> reader, reported just before the real downgrade
    l.downgrade_to_reader();
    vp_leave(tid, 0);
  } else if (role == 6) {                   // writer, downgrade, keep the read lock until another reader got in, release
    vp_leave(tid, 3);
    l.downgrade_to_reader();
    vp_wait_reader(tid);
    vp_leave(tid, 0);
  } else vp_leave(tid, w);
  l.release();
}
#include "w_reuse.h"
extern "C" void vp_thr_qrw_re(queuing_rw_mutex* m, queuing_rw_mutex::scoped_lock* node, int tid, int r1, int r2) {
  queuing_rw_mutex::scoped_lock& l = *new (node) queuing_rw_mutex::scoped_lock;
  vp_rw_cycle(l, m, tid, r1);
  if (r2 != VP_NONE) { vp_cycle(tid); vp_rw_cycle(l, m, tid, r2); }
  vp_done(tid);
}
extern "C" int vp_qrw_fresh(queuing_rw_mutex* m, queuing_rw_mutex::scoped_lock* node) { queuing_rw_mutex::scoped_lock& l = *new (node) queuing_rw_mutex::scoped_lock; bool ok = l.try_acquire(*m, true); if (ok) l.release(); return ok; }
extern "C" unsigned long vp_qrw_word(queuing_rw_mutex* m) { return (unsigned long)m->q_tail.load(std::memory_order_relaxed); }

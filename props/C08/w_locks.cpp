// C08 wrapper: thread bodies over the real lock headers (spin_mutex, spin_rw_mutex, queuing_mutex)
#include "oneapi/tbb/spin_mutex.h"
#include "oneapi/tbb/spin_rw_mutex.h"
#include "oneapi/tbb/queuing_mutex.h"
using namespace tbb;
extern "C" void vp_enter(int tid, int writer);
extern "C" void vp_leave(int tid, int writer);
extern "C" void vp_queued(int tid);           // observer: thread has entered the queue (after the tail exchange)
extern "C" void vp_try_result(int tid, int ok);
extern "C" void vp_wait_reader(int tid);      // harness: blocks (VP_BLOCK) until another thread is inside as a reader

// ---- spin_mutex: op 0 = lock, 1 = try_lock, 2 = scoped_lock acquire/release, 3 = scoped_lock try_acquire/release
extern "C" void vp_thr_sm(spin_mutex* m, int tid, int op) {
  if (op == 0) { m->lock(); vp_enter(tid, 1); vp_leave(tid, 1); m->unlock(); }
  else if (op == 1) { bool ok = m->try_lock(); vp_try_result(tid, ok); if (ok) { vp_enter(tid, 1); vp_leave(tid, 1); m->unlock(); } }
  else if (op == 2) { spin_mutex::scoped_lock l; l.acquire(*m); vp_enter(tid, 1); vp_leave(tid, 1); l.release(); }
  else { spin_mutex::scoped_lock l; bool ok = l.try_acquire(*m); vp_try_result(tid, ok); if (ok) { vp_enter(tid, 1); vp_leave(tid, 1); } }   // released by ~scoped_lock
}
// ---- spin_rw_mutex: role 0 reader, 1 writer, 2 reader then upgrade, 3 writer then downgrade, 4 try reader, 5 try writer
extern "C" void vp_thr_rw(spin_rw_mutex* m, int tid, int role) {
  spin_rw_mutex::scoped_lock l;
  if (role == 4 || role == 5) {
    bool ok = l.try_acquire(*m, role == 5); vp_try_result(tid, ok);
    if (ok) { vp_enter(tid, role == 5); vp_leave(tid, role == 5); l.release(); }
    return;
  }
  bool w = (role == 1 || role == 3 || role == 6);
  l.acquire(*m, w);
  vp_enter(tid, w);
  if (role == 2) {
    vp_leave(tid, 0);                       // observer: reader section ends, upgrade begins
    bool ok = l.upgrade_to_writer();
    vp_enter(tid, 2 + (ok ? 1 : 0));        // writer section; bit0 = upgrade claimed to be atomic
    vp_leave(tid, 1);
  } else if (role == 3) {
    vp_leave(tid, 3);                       // ghost: writer -> reader (recorded before the real downgrade, so that a reader
    l.downgrade_to_reader();                //   admitted right after it never sees a ghost writer); no gap: a writer entering
    vp_leave(tid, 0);                       //   from here on would see readers != 0
  } else if (role == 6) {                   // writer, downgrade, keep the read lock until another reader got in, release
    vp_leave(tid, 3);
    l.downgrade_to_reader();
    vp_wait_reader(tid);
    vp_leave(tid, 0);
  } else vp_leave(tid, w);
  l.release();
}
// ---- queuing_mutex: op 0 = acquire, 1 = try_acquire
extern "C" void vp_thr_qm(queuing_mutex* m, int tid, int op) {
  queuing_mutex::scoped_lock l;
  if (op == 0) { l.acquire(*m); vp_enter(tid, 1); vp_leave(tid, 1); l.release(); }
  else { bool ok = l.try_acquire(*m); vp_try_result(tid, ok); if (ok) { vp_enter(tid, 1); vp_leave(tid, 1); l.release(); } }
}
// ---- variants with real data inside the critical section (plain, non-atomic read-modify-write of a word protected by the lock):
// "everything written inside a critical section is visible to the next holder"; meaningful in the TSO units, where these
// accesses go through the per-thread store buffer like any other store of the translated code.
unsigned long vp_data;
extern "C" void vp_thr_sm_d(spin_mutex* m, int tid, int op) {
  if (op == 0) { m->lock(); vp_enter(tid, 1); vp_data = vp_data + 1; vp_leave(tid, 1); m->unlock(); }
  else { bool ok = m->try_lock(); vp_try_result(tid, ok); if (ok) { vp_enter(tid, 1); vp_data = vp_data + 1; vp_leave(tid, 1); m->unlock(); } }
}
extern "C" void vp_thr_qm_d(queuing_mutex* m, int tid, int op) {
  queuing_mutex::scoped_lock l;
  if (op == 0) { l.acquire(*m); vp_enter(tid, 1); vp_data = vp_data + 1; vp_leave(tid, 1); l.release(); }
  else { bool ok = l.try_acquire(*m); vp_try_result(tid, ok); if (ok) { vp_enter(tid, 1); vp_data = vp_data + 1; vp_leave(tid, 1); l.release(); } }
}
// role 0 reader (reads the word twice: must not change under a read lock), 1 writer (increments)
extern "C" void vp_data_read(int tid, unsigned long v1, unsigned long v2);
extern "C" void vp_thr_rw_d(spin_rw_mutex* m, int tid, int role) {
  if (role == 1) { m->lock(); vp_enter(tid, 1); vp_data = vp_data + 1; vp_leave(tid, 1); m->unlock(); }
  else { m->lock_shared(); vp_enter(tid, 0); unsigned long a = *(volatile unsigned long*)&vp_data, b = *(volatile unsigned long*)&vp_data; vp_data_read(tid, a, b); vp_leave(tid, 0); m->unlock_shared(); }
}
// ---- TSO machinery self-test (store-buffering litmus, no lock involved): x = 1 (fence==2: x.exchange(1)); [fence==1: full fence]; r = y
std::atomic<int> vp_sb_x[2];
extern "C" void vp_sb_result(int tid, int r);
extern "C" void vp_thr_sb(int tid, int fence) {
  if (fence == 2) vp_sb_x[tid].exchange(1);   // locked RMW (xchg) instead of a plain store: drains the buffer
  else vp_sb_x[tid].store(1, std::memory_order_relaxed);
  if (fence == 1) tbb::detail::atomic_fence_seq_cst();      // the real oneTBB full-fence helper (_machine.h)
  vp_sb_result(tid, vp_sb_x[1 - tid].load(std::memory_order_relaxed));
}
// ---- scoped_lock object reused for two cycles (w_reuse.h, h_reuse.c); the object lives in harness storage
#include "w_reuse.h"
extern "C" void vp_thr_qm_re(queuing_mutex* m, queuing_mutex::scoped_lock* node, int tid, int op1, int op2) {
  queuing_mutex::scoped_lock& l = *new (node) queuing_mutex::scoped_lock;
  vp_x_cycle(l, m, tid, op1);
  if (op2 != VP_NONE) { vp_cycle(tid); vp_x_cycle(l, m, tid, op2); }
  vp_done(tid);
}
extern "C" void vp_thr_rw_re(spin_rw_mutex* m, spin_rw_mutex::scoped_lock* node, int tid, int r1, int r2) {
  spin_rw_mutex::scoped_lock& l = *new (node) spin_rw_mutex::scoped_lock;
  vp_rw_cycle(l, m, tid, r1);
  if (r2 != VP_NONE) { vp_cycle(tid); vp_rw_cycle(l, m, tid, r2); }
  vp_done(tid);
}
// a further cycle by a fresh object after everybody finished (sequential): must succeed at once
// (the fresh object is built in zeroed harness storage: deterministic contents even where the real constructor leaves fields untouched)
extern "C" int vp_qm_fresh(queuing_mutex* m, queuing_mutex::scoped_lock* node) { queuing_mutex::scoped_lock& l = *new (node) queuing_mutex::scoped_lock; bool ok = l.try_acquire(*m); if (ok) l.release(); return ok; }
extern "C" int vp_rw_fresh(spin_rw_mutex* m, spin_rw_mutex::scoped_lock* node) { spin_rw_mutex::scoped_lock& l = *new (node) spin_rw_mutex::scoped_lock; bool ok = l.try_acquire(*m, true); if (ok) l.release(); return ok; }
// accessors used by the harness oracles (white-box via -fno-access-control)
extern "C" unsigned long vp_sm_word(spin_mutex* m) { return m->m_flag.load(std::memory_order_relaxed); }
extern "C" unsigned long vp_qm_word(queuing_mutex* m) { return (unsigned long)m->q_tail.load(std::memory_order_relaxed); }
extern "C" unsigned long vp_rw_word(spin_rw_mutex* m) { return m->m_state.load(std::memory_order_relaxed); }

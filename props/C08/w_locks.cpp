// C08 wrapper: thread bodies over the real lock headers (spin_mutex, spin_rw_mutex, queuing_mutex)
#include "oneapi/tbb/spin_mutex.h"
#include "oneapi/tbb/spin_rw_mutex.h"
#include "oneapi/tbb/queuing_mutex.h"
using namespace tbb;
extern "C" void vp_enter(int tid, int writer);
extern "C" void vp_leave(int tid, int writer);
extern "C" void vp_queued(int tid);           // observer: thread has entered the queue (after the tail exchange)
extern "C" void vp_try_result(int tid, int ok);

// ---- spin_mutex: op 0 = lock, 1 = try_lock
extern "C" void vp_thr_sm(spin_mutex* m, int tid, int op) {
  if (op == 0) { m->lock(); vp_enter(tid, 1); vp_leave(tid, 1); m->unlock(); }
  else { bool ok = m->try_lock(); vp_try_result(tid, ok); if (ok) { vp_enter(tid, 1); vp_leave(tid, 1); m->unlock(); } }
}
// ---- spin_rw_mutex: role 0 reader, 1 writer, 2 reader then upgrade, 3 writer then downgrade, 4 try reader, 5 try writer
extern "C" void vp_thr_rw(spin_rw_mutex* m, int tid, int role) {
  spin_rw_mutex::scoped_lock l;
  if (role == 4 || role == 5) {
    bool ok = l.try_acquire(*m, role == 5); vp_try_result(tid, ok);
    if (ok) { vp_enter(tid, role == 5); vp_leave(tid, role == 5); l.release(); }
    return;
  }
  bool w = (role == 1 || role == 3);
  l.acquire(*m, w);
  vp_enter(tid, w);
  if (role == 2) {
    vp_leave(tid, 0);                       // observer: reader section ends, upgrade begins
    bool ok = l.upgrade_to_writer();
    vp_enter(tid, 2 + (ok ? 1 : 0));        // writer section; bit0 = upgrade claimed to be atomic
    vp_leave(tid, 1);
  } else if (role == 3) {
    l.downgrade_to_reader();
    vp_leave(tid, 3);                       // writer -> reader without a gap
    vp_leave(tid, 0);
  } else vp_leave(tid, w);
  l.release();
}
// ---- queuing_mutex: op 0 = acquire, 1 = try_acquire
extern "C" void vp_thr_qm(queuing_mutex* m, int tid, int op) {
  queuing_mutex::scoped_lock l;
  if (op == 0) { l.acquire(*m); vp_enter(tid, 1); vp_leave(tid, 1); l.release(); }
  else { bool ok = l.try_acquire(*m); vp_try_result(tid, ok); if (ok) { vp_enter(tid, 1); vp_leave(tid, 1); l.release(); } }
}
// accessors used by the harness oracles (white-box via -fno-access-control)
extern "C" unsigned long vp_sm_word(spin_mutex* m) { return m->m_flag.load(std::memory_order_relaxed); }
extern "C" unsigned long vp_qm_word(queuing_mutex* m) { return (unsigned long)m->q_tail.load(std::memory_order_relaxed); }
extern "C" unsigned long vp_rw_word(spin_rw_mutex* m) { return m->m_state.load(std::memory_order_relaxed); }

PROPERTY = 'C08'
LOCKS_CXX = []
def thr(fn, n): return {fn: ['a', 'b', 'c'][:n]}
UNITS = {
  'sm2': dict(wrapper='w_locks.cpp', mode='lcs', unroll=1, threads=thr('vp_thr_sm', 2)),
  'sm3': dict(wrapper='w_locks.cpp', mode='lcs', unroll=1, threads=thr('vp_thr_sm', 3)),
  'qm2': dict(wrapper='w_locks.cpp', mode='lcs', unroll=1, threads=thr('vp_thr_qm', 2)),
  'qm3': dict(wrapper='w_locks.cpp', mode='lcs', unroll=1, threads=thr('vp_thr_qm', 3)),
}
def ops(n):
    import itertools
    return [dict(('OP%d' % i, o) for i, o in enumerate(c)) for c in itertools.product([0, 1], repeat=n)]
HARNESSES = [
  dict(name='spin_mutex_2t', unit='sm2', harness='h_mutex.c', defines={'LOCK': 1, 'NT': 2, 'ROUNDS': 3},
       scenarios=ops(2), timeout=300, desc='spin_mutex lock/try_lock/unlock, 2 threads, all schedules with <=3 slices per thread + 2 forced rounds',
       bounds={'threads': 2, 'free_rounds': 3, 'forced_rounds': 2, 'spin_unroll': 1}),
  dict(name='queuing_mutex_2t', unit='qm2', harness='h_mutex.c', defines={'LOCK': 2, 'NT': 2, 'ROUNDS': 3},
       scenarios=ops(2), timeout=300, desc='queuing_mutex scoped_lock acquire/try_acquire/release, 2 threads',
       bounds={'threads': 2, 'free_rounds': 3, 'forced_rounds': 2, 'spin_unroll': 1}),
  dict(name='queuing_mutex_3t', unit='qm3', harness='h_mutex.c', defines={'LOCK': 2, 'NT': 3, 'ROUNDS': 3},
       scenarios=[{'OP0': 0, 'OP1': 0, 'OP2': 0}, {'OP0': 0, 'OP1': 0, 'OP2': 1}], timeout=600,
       desc='queuing_mutex 3 threads: FIFO among queued blocking requests, hand-off chain',
       bounds={'threads': 3, 'free_rounds': 3, 'forced_rounds': 2, 'spin_unroll': 1}),
]
MANIFEST = dict(
  level_text='Bounded model checking of the real lock code: for 2-3 threads every interleaving (at single-IR-memory-operation granularity) with up to R scheduling rounds is decided by the SAT solver for mutual exclusion, reader/writer exclusion, truthful try-acquire and upgrade, FIFO grant order of the queuing locks and absence of a lost hand-off (two-round blocked-state oracle).',
  level_note='Bounds per harness in evidence (threads, rounds, spin-loop unroll). Sequential consistency (TSO variants where listed). HTM (rtm_*) paths outside. Trusted: clang-14 IR, tools/ir2c.py, cbmc.',
)
OUTSIDE = ['more than 3 threads / more than 2 operations per thread', 'HTM behaviour of the speculative mutexes', 'non-TSO weak memory']
STUBS = ['sched_yield/pause: scheduling hints (no-op)']

PROPERTY = 'C08'
import itertools, os
def thr(fn, n): return {fn: ['a', 'b', 'c'][:n]}
def ops(n): return [dict(('OP%d' % i, o) for i, o in enumerate(c)) for c in itertools.product([0, 1], repeat=n)]
def roles2(rs): return [{'R0': a, 'R1': b} for a, b in itertools.combinations_with_replacement(rs, 2)]
def roles3(rs): return [{'R0': a, 'R1': b, 'R2': c} for a, b, c in itertools.combinations_with_replacement(rs, 3)]
QRW_CXX = ['-D__TBB_BUILD']
RTM_CXX = ['-D__TBB_BUILD', '-mrtm']          # the library itself is built with -mrtm (cmake/compilers/*.cmake)
UNITS = {
  # spin_mutex / queuing_mutex / spin_rw_mutex: header-only locks (w_locks.cpp)
  'sm2': dict(wrapper='w_locks.cpp', mode='lcs', unroll=1, threads=thr('vp_thr_sm', 2)),
  'sm3': dict(wrapper='w_locks.cpp', mode='lcs', unroll=1, threads=thr('vp_thr_sm', 3)),
  'qm2': dict(wrapper='w_locks.cpp', mode='lcs', unroll=1, threads=thr('vp_thr_qm', 2)),
  'qm3': dict(wrapper='w_locks.cpp', mode='lcs', unroll=1, threads=thr('vp_thr_qm', 3)),
  'rw2': dict(wrapper='w_locks.cpp', mode='lcs', unroll=2, threads=thr('vp_thr_rw', 2)),
  'rw3': dict(wrapper='w_locks.cpp', mode='lcs', unroll=2, threads=thr('vp_thr_rw', 3)),
  # speculative mutexes, fallback path (w_rtm.cpp includes src/tbb/rtm_mutex.cpp + rtm_rw_mutex.cpp)
  'rtm2': dict(wrapper='w_rtm.cpp', mode='lcs', unroll=1, cxxflags=RTM_CXX, threads=thr('vp_thr_rtm', 2)),
  'rtmrw2': dict(wrapper='w_rtm.cpp', mode='lcs', unroll=1, cxxflags=RTM_CXX, threads=thr('vp_thr_rtmrw', 2)),
  # x86-TSO store-buffer variants (thorough tier); *_d thread bodies update a plain word inside the critical section
  'sm2_tso': dict(wrapper='w_locks.cpp', mode='lcs', unroll=1, tso=True, threads=thr('vp_thr_sm_d', 2)),
  'qm2_tso': dict(wrapper='w_locks.cpp', mode='lcs', unroll=1, tso=True, threads=thr('vp_thr_qm_d', 2)),
  'rw2_tso': dict(wrapper='w_locks.cpp', mode='lcs', unroll=1, tso=True, threads=thr('vp_thr_rw_d', 2)),
  'sb_tso': dict(wrapper='w_locks.cpp', mode='lcs', unroll=1, tso=True, threads=thr('vp_thr_sb', 2)),
}
# queuing_rw_mutex (w_qrw.cpp includes src/tbb/queuing_rw_mutex.cpp); ptrhooks: tagged node pointers kept in uintptr_t words
for k in (1, 2):
  for n in (2, 3):
    UNITS['qrw%d_k%d' % (n, k)] = dict(wrapper='w_qrw.cpp', mode='lcs', unroll=k, cxxflags=QRW_CXX, ptrhooks=True, threads=thr('vp_thr_qrw', n))
# "scoped_lock object reused": thread bodies vp_thr_*_re run two cycles on one scoped_lock object (h_reuse.c)
UNITS['qm2_re'] = dict(wrapper='w_locks.cpp', mode='lcs', unroll=1, threads=thr('vp_thr_qm_re', 2))
UNITS['qm3_re'] = dict(wrapper='w_locks.cpp', mode='lcs', unroll=1, threads=thr('vp_thr_qm_re', 3))
UNITS['rw2_re'] = dict(wrapper='w_locks.cpp', mode='lcs', unroll=1, threads=thr('vp_thr_rw_re', 2))
UNITS['qrw2_re'] = dict(wrapper='w_qrw.cpp', mode='lcs', unroll=1, cxxflags=QRW_CXX, ptrhooks=True, threads=thr('vp_thr_qrw_re', 2))
B2 = {'threads': 2, 'free_rounds': 3, 'forced_rounds': 2}
TSO_B = {'threads': 2, 'free_rounds': 2, 'forced_rounds': 2, 'spin_unroll': 1, 'memory_model': 'x86-TSO, per-thread FIFO store buffer of depth 2'}
HARNESSES = [
  dict(name='spin_mutex_2t', unit='sm2', harness='h_mutex.c', defines={'LOCK': 1, 'NT': 2, 'ROUNDS': 3},
       scenarios=ops(2) + [{'OP0': 2, 'OP1': 2}, {'OP0': 2, 'OP1': 3}, {'OP0': 0, 'OP1': 3}, {'OP0': 3, 'OP1': 3}], timeout=300,
       desc='spin_mutex lock/try_lock/unlock and unique_scoped_lock acquire/try_acquire/release, 2 threads, all schedules with <=3 slices per thread + 2 forced rounds',
       bounds=dict(B2, spin_unroll=1),
       thorough_override=dict(defines={'LOCK': 1, 'NT': 2, 'ROUNDS': 4}, unit_override={'unroll': 2}, bounds=dict(B2, free_rounds=4, spin_unroll=2))),
  dict(name='spin_mutex_3t', unit='sm3', harness='h_mutex.c', defines={'LOCK': 1, 'NT': 3, 'ROUNDS': 3},
       scenarios=[{'OP0': 0, 'OP1': 0, 'OP2': 0}, {'OP0': 0, 'OP1': 2, 'OP2': 1}, {'OP0': 0, 'OP1': 1, 'OP2': 3}], timeout=300,
       desc='spin_mutex, 3 threads', bounds={'threads': 3, 'free_rounds': 3, 'forced_rounds': 2, 'spin_unroll': 1},
       thorough_override=dict(defines={'LOCK': 1, 'NT': 3, 'ROUNDS': 4}, unit_override={'unroll': 2}, bounds={'threads': 3, 'free_rounds': 4, 'forced_rounds': 2, 'spin_unroll': 2})),
  dict(name='queuing_mutex_2t', unit='qm2', harness='h_mutex.c', defines={'LOCK': 2, 'NT': 2, 'ROUNDS': 3},
       scenarios=ops(2), timeout=300, desc='queuing_mutex scoped_lock acquire/try_acquire/release, 2 threads',
       bounds=dict(B2, spin_unroll=1),
       thorough_override=dict(defines={'LOCK': 2, 'NT': 2, 'ROUNDS': 4}, unit_override={'unroll': 2}, timeout=1800, bounds=dict(B2, free_rounds=4, spin_unroll=2))),
  dict(name='queuing_mutex_3t', unit='qm3', harness='h_mutex.c', defines={'LOCK': 2, 'NT': 3, 'ROUNDS': 3},
       scenarios=[{'OP0': 0, 'OP1': 0, 'OP2': 0}, {'OP0': 0, 'OP1': 0, 'OP2': 1}], scenarios_thorough=ops(3), timeout=1800,
       desc='queuing_mutex 3 threads: FIFO among queued blocking requests, hand-off chain',
       bounds={'threads': 3, 'free_rounds': 3, 'forced_rounds': 2, 'spin_unroll': 1}),
  dict(name='spin_rw_mutex_2t', unit='rw2', harness='h_rw.c', defines={'LOCK': 3, 'NT': 2, 'ROUNDS': 3},
       scenarios=roles2(range(6)) + [{'R0': 0, 'R1': 6}], timeout=300,
       desc='spin_rw_mutex scoped_lock: reader / writer / reader+upgrade_to_writer / writer+downgrade_to_reader / try reader / try writer, 2 threads, all 21 role pairs: '
            '<=1 writer, no reader with a writer, upgrade()==true only if no other writer section ran in between, downgrade lets no writer in, try truthful, no lost grant',
       bounds=dict(B2, spin_unroll=2),
       thorough_override=dict(defines={'LOCK': 3, 'NT': 2, 'ROUNDS': 4}, timeout=1800, bounds=dict(B2, free_rounds=4, spin_unroll=2))),
  dict(name='spin_rw_mutex_3t', unit='rw3', harness='h_rw.c', defines={'LOCK': 3, 'NT': 3, 'ROUNDS': 3},
       scenarios_quick=[{'R0': 2, 'R1': 2, 'R2': 1, 'ROUNDS': 2}, {'R0': 0, 'R1': 2, 'R2': 1}, {'R0': 0, 'R1': 1, 'R2': 1}, {'R0': 0, 'R1': 2, 'R2': 5, 'ROUNDS': 2}],
       scenarios_thorough=roles3(range(6)), timeout=3600,
       desc='spin_rw_mutex, 3 threads: two upgrading readers + writer, reader + upgrader + writer, reader + 2 writers, reader + upgrader + try-writer (thorough: all 56 role multisets)',
       bounds={'threads': 3, 'free_rounds': 'ROUNDS of the scenario (default 3)', 'forced_rounds': 2, 'spin_unroll': 2}),
  dict(name='rtm_mutex_2t', unit='rtm2', harness='h_mutex.c', defines={'LOCK': 6, 'NT': 2, 'ROUNDS': 3},
       scenarios=[dict(o, SPEC=sp) for sp in (0, 1) for o in ops(2)], timeout=300,
       desc='rtm_mutex (speculative_spin_mutex), fallback path only: speculation disabled, or enabled with _xbegin always aborting with a solver-chosen status; acquire, try_acquire, release, 2 threads',
       bounds=dict(B2, spin_unroll=1, htm='no transaction ever starts')),
  dict(name='rtm_rw_mutex_2t', unit='rtmrw2', harness='h_rw.c', defines={'LOCK': 5, 'NT': 2, 'ROUNDS': 3},
       scenarios_quick=[dict(o, SPEC=1) for o in [{'R0': 0, 'R1': 1}, {'R0': 1, 'R1': 1}, {'R0': 1, 'R1': 2}, {'R0': 0, 'R1': 3}, {'R0': 4, 'R1': 5}, {'R0': 1, 'R1': 5}, {'R0': 0, 'R1': 6}]],
       scenarios_thorough=[dict(o, SPEC=sp) for sp in (1, 0) for o in roles2(range(6)) + [{'R0': 0, 'R1': 6}]], timeout=900,
       desc='rtm_rw_mutex (speculative_spin_rw_mutex), fallback path only (_xbegin always aborts / speculation disabled): same roles and oracles as spin_rw_mutex, 2 threads',
       bounds=dict(B2, spin_unroll=1, htm='no transaction ever starts')),
  # ---- thorough tier: x86-TSO
  dict(name='tso_machinery_litmus', unit='sb_tso', harness='h_sb.c', defines={'ROUNDS': 2}, scenarios=[{'FENCE': 0}, {'FENCE': 1}, {'FENCE': 2}], timeout=300, tiers=['thorough'],
       desc='self-test of the TSO store-buffer model: store-buffering litmus outcome REACHABLE with plain stores, unreachable with tbb::detail::atomic_fence_seq_cst / with a locked exchange',
       bounds={'threads': 2, 'free_rounds': 2, 'forced_rounds': 2, 'store_buffer_depth': 2}),
  dict(name='spin_mutex_2t_tso', unit='sm2_tso', harness='h_mutex.c', defines={'LOCK': 1, 'NT': 2, 'ROUNDS': 2, 'DATA': 1}, scenarios=ops(2), timeout=1800, tiers=['thorough'],
       desc='spin_mutex under x86-TSO: mutual exclusion and visibility of a plain data update made inside the critical section', bounds=TSO_B),
  dict(name='queuing_mutex_2t_tso', unit='qm2_tso', harness='h_mutex.c', defines={'LOCK': 2, 'NT': 2, 'ROUNDS': 2, 'DATA': 1}, scenarios=ops(2), timeout=1800, tiers=['thorough'],
       desc='queuing_mutex under x86-TSO: mutual exclusion, FIFO, hand-off, visibility of a plain data update made inside the critical section', bounds=TSO_B),
  dict(name='spin_rw_mutex_2t_tso', unit='rw2_tso', harness='h_rw.c', defines={'LOCK': 3, 'NT': 2, 'ROUNDS': 2, 'DATA': 1}, scenarios=roles2(range(2)), timeout=1800, tiers=['thorough'],
       desc='spin_rw_mutex lock/lock_shared under x86-TSO: readers see the update of the last writer section, the word is stable under a read lock', bounds=TSO_B),
]
QRW_CBMC = ['--unwind', '16', '--object-bits', '12', '--slice-formula']
def R(n, scs): return [dict(sc, ROUNDS=n) for sc in scs]
P = lambda a, b: {'R0': a, 'R1': b}
T = lambda a, b, c: {'R0': a, 'R1': b, 'R2': c}
QRW_DESC = ('queuing_rw_mutex (real src/tbb/queuing_rw_mutex.cpp): scoped_lock acquire / try_acquire / upgrade_to_writer / downgrade_to_reader / release; '
            '<=1 writer, no reader with a writer, upgrade()==true only if no other writer section ran in between, downgrade lets no writer in and admits a queued reader, '
            'FIFO among conflicting queued blocking requests, no lost hand-off (blocked-state oracle), no access through a dangling/NULL node link (pointer checks)')
HARNESSES += [
  dict(name='queuing_rw_mutex_2t', unit='qrw2_k1', harness='h_rw.c', defines={'LOCK': 4, 'NT': 2, 'ROUNDS': 2}, cbmc=QRW_CBMC, timeout=3600,
       scenarios_quick=[P(0, 1), P(1, 1), P(0, 6)] + R(1, [P(2, 1), P(0, 2)]),
       scenarios_thorough=roles2(range(6)) + [P(0, 6)] + R(3, [P(0, 1), P(1, 1), P(2, 1), P(0, 2), P(2, 2), P(0, 3), P(0, 6)]),
       desc=QRW_DESC + '; 2 threads, roles concrete per scenario (R||W, W||W, R||R+upgrade, upgrading R||arriving W, downgrade||queued R; thorough: all 21 role pairs, selected pairs with 3 free rounds)',
       bounds={'threads': 2, 'free_rounds': 'ROUNDS of the scenario (default 2)', 'forced_rounds': 2, 'spin_unroll': 1}),
  dict(name='queuing_rw_mutex_3t', unit='qrw3_k1', harness='h_rw.c', defines={'LOCK': 4, 'NT': 3, 'ROUNDS': 1}, cbmc=QRW_CBMC, timeout=3600, mem_gb=16,
       scenarios_quick=[T(0, 2, 1), T(0, 0, 1)],
       scenarios_thorough=roles3(range(4)) + [T(0, 0, 6), T(0, 2, 5), T(1, 1, 4)] + R(2, [T(0, 2, 1), T(2, 2, 1), T(0, 1, 1), T(0, 0, 1), T(0, 3, 1), T(0, 0, 2)]),
       desc=QRW_DESC + '; 3 threads (releasing R || upgrading R || arriving W, R||R||W, ...; thorough: all 20 multisets of reader/writer/upgrade/downgrade, selected ones with 2 free rounds)',
       bounds={'threads': 3, 'free_rounds': 'ROUNDS of the scenario (default 1)', 'forced_rounds': 2, 'spin_unroll': 1}),
  dict(name='queuing_rw_mutex_2t_k2', unit='qrw2_k2', harness='h_rw.c', defines={'LOCK': 4, 'NT': 2, 'ROUNDS': 2}, cbmc=QRW_CBMC, timeout=3600, mem_gb=16, tiers=['thorough'],
       scenarios=[P(0, 1), P(1, 1), P(2, 1), P(0, 2)],
       desc=QRW_DESC + '; 2 threads, every wait/retry loop unrolled twice per slice',
       bounds={'threads': 2, 'free_rounds': 2, 'forced_rounds': 2, 'spin_unroll': 2}),
]
def RE(a1, a2, b1, b2=7, **kw): return dict({'SA1': a1, 'SA2': a2, 'SB1': b1, 'SB2': b2}, **kw)
RE_KW = dict(harness='h_reuse.c', native_cflags=['-fno-sanitize=null'])   # thread-mode C forms &p->f from not-yet-loaded (null) temporaries without accessing them
RE_DESC = ('scoped_lock object REUSED: a thread runs two lock cycles on the same scoped_lock object (stale queue links / going flag / reader-writer state of cycle 1 meet the '
           'second acquire or try_acquire) while the other thread queues behind the first cycle; exclusion, truthful try (a try may fail only if another request overlapped it), '
           'FIFO, blocked-state oracle, no write into an idle scoped_lock object, lock word free at the end and a fresh object acquires at once; ')
HARNESSES += [
  dict(name='queuing_mutex_reuse_2t', unit='qm2_re', defines={'LOCK': 2, 'NT': 2, 'ROUNDS': 3}, cbmc=['--unwind', '16', '--slice-formula'], timeout=900,
       scenarios=[RE(a1, a2, 0) for a1 in (0, 1) for a2 in (0, 1)] + [RE(0, 0, 0, 0)],
       scenarios_thorough=[RE(a1, a2, 0) for a1 in (0, 1) for a2 in (0, 1)] + [RE(0, 0, 0, 0), RE(0, 1, 0, 0), RE(0, 0, 0, 1), RE(1, 0, 1, 0), RE(0, 1, 0, 1)],
       desc=RE_DESC + 'queuing_mutex: A = acquire|try x acquire|try, B = one blocking cycle; and both threads with two cycles', bounds=dict(B2, spin_unroll=1, cycles_per_thread=2), **RE_KW),
  dict(name='queuing_mutex_reuse_3t', unit='qm3_re', defines={'LOCK': 2, 'NT': 3, 'ROUNDS': 2}, cbmc=['--unwind', '16', '--slice-formula'], timeout=3600, tiers=['thorough'],
       scenarios=[dict(RE(0, 0, 0), SC1=0, SC2=7), dict(RE(0, 1, 0), SC1=0, SC2=7), dict(RE(0, 0, 0, 0), SC1=0, SC2=7)],
       desc=RE_DESC + 'queuing_mutex, 3 threads', bounds={'threads': 3, 'free_rounds': 2, 'forced_rounds': 2, 'spin_unroll': 1, 'cycles_per_thread': 2}, **RE_KW),
  dict(name='spin_rw_mutex_reuse_2t', unit='rw2_re', defines={'LOCK': 3, 'NT': 2, 'ROUNDS': 3}, cbmc=['--unwind', '16', '--slice-formula'], timeout=1800, tiers=['thorough'],
       scenarios=[RE(a1, a2, b) for a1 in (0, 1, 2, 3, 4, 5) for a2 in (0, 1, 2, 4, 5) for b in (0, 1)],
       desc=RE_DESC + 'spin_rw_mutex through rw_scoped_lock (object state: m_mutex, m_is_writer): A = any role x reader|writer|upgrade|try reader|try writer, B = reader|writer',
       bounds=dict(B2, spin_unroll=1, cycles_per_thread=2), **RE_KW),
  dict(name='queuing_rw_mutex_reuse_2t', unit='qrw2_re', defines={'LOCK': 4, 'NT': 2, 'ROUNDS': 2}, cbmc=QRW_CBMC, timeout=5400, mem_gb=16, tiers=['thorough'],
       scenarios=[RE(1, 1, 1), RE(1, 5, 1), RE(1, 0, 0), RE(1, 4, 0), RE(0, 0, 0), RE(0, 1, 1), RE(0, 5, 1), RE(0, 0, 1), RE(2, 0, 1), RE(3, 0, 0), RE(1, 2, 0)],   # ~3 GB and 8-17 min each
       desc=RE_DESC + 'queuing_rw_mutex: reader/writer/upgrade/downgrade first cycles that hand the lock to the queued successor, then acquire/try_acquire on the same node',
       bounds={'threads': 2, 'free_rounds': 2, 'forced_rounds': 2, 'spin_unroll': 1, 'cycles_per_thread': 2}, **RE_KW),
]
if os.environ.get('C08_ONLY_SC'):   # development aid: only the first two scenarios of every reuse harness
  for h in HARNESSES:
    if 'reuse' in h['name']: h['scenarios'] = h['scenarios'][:2]
UNITS.update({
  'rtm2_d': dict(wrapper='w_rtm.cpp', mode='lcs', unroll=1, cxxflags=RTM_CXX, threads=thr('vp_thr_rtm_d', 2)),
  'rtm3_d': dict(wrapper='w_rtm.cpp', mode='lcs', unroll=1, cxxflags=RTM_CXX, threads=thr('vp_thr_rtm_d', 3)),
  'rtmrw2_d': dict(wrapper='w_rtm.cpp', mode='lcs', unroll=1, cxxflags=RTM_CXX, threads=thr('vp_thr_rtmrw_d', 2)),
  'rtmrw3_d': dict(wrapper='w_rtm.cpp', mode='lcs', unroll=1, cxxflags=RTM_CXX, threads=thr('vp_thr_rtmrw_d', 3)),
})
def TX(sc, *modes): return dict(sc, SPEC=1, **{'TX%d' % i: m for i, m in enumerate(modes)})
HTM_DESC = ('HTM model "a transaction commits atomically or has no effect" (h_rtm_stubs.h): threads with TXt=1 may start a transaction at _xbegin (solver choice, '
            'else an abort status), no context switch inside a transaction; speculation enabled; ')
HTM_B = dict(B2, spin_unroll=1, htm='atomic-commit-or-no-effect; TXt = thread t may speculate')
R4 = (0, 1, 4, 5)
HARNESSES += [
  dict(name='rtm_rw_mutex_htm_3t', unit='rtmrw3_d', harness='h_rw.c', defines={'LOCK': 5, 'NT': 3, 'ROUNDS': 3, 'DATA': 1}, timeout=1800,
       scenarios=[TX(T(1, 1, 0), 0, 0, 1)],
       scenarios_thorough=[TX(T(1, 1, 0), 0, 0, 1), TX(T(1, 1, 0), 1, 1, 1), TX(T(1, 0, 0), 0, 1, 1), TX(T(1, 1, 4), 0, 0, 1), TX(T(1, 5, 0), 0, 1, 1), TX(T(1, 1, 1), 0, 0, 1), TX(T(1, 0, 1), 1, 0, 1)],
       desc=HTM_DESC + 'rtm_rw_mutex: two real writers updating a data word pair (A++ ... B++) || a speculating reader that reads A and B inside its transaction: A==B, '
            'reader sections never overlap a writer section, hand-over between the writers (thorough: further mixes, all threads may speculate)',
       bounds=dict(HTM_B, threads=3)),
  dict(name='rtm_rw_mutex_htm_2t', unit='rtmrw2_d', harness='h_rw.c', defines={'LOCK': 5, 'NT': 2, 'ROUNDS': 3, 'DATA': 1}, timeout=900,
       scenarios=[TX(P(1, 0), 0, 1), TX(P(1, 0), 1, 0), TX(P(1, 1), 1, 0), TX(P(1, 0), 1, 1)],
       scenarios_thorough=[TX(P(a, b), m0, m1) for a in R4 for b in R4 if a <= b for (m0, m1) in ((0, 1), (1, 0), (1, 1))],
       desc=HTM_DESC + 'rtm_rw_mutex with the data word pair: real writer || speculating reader, speculating writer || real reader, speculating writer || real writer, both may speculate '
            '(thorough: all pairs of reader/writer/try reader/try writer x who may speculate)', bounds=HTM_B),
  dict(name='rtm_rw_mutex_htm_roles_2t', unit='rtmrw2', harness='h_rw.c', defines={'LOCK': 5, 'NT': 2, 'ROUNDS': 3}, timeout=1800, tiers=['thorough'],
       scenarios=[TX(sc, 1, 1) for sc in roles2(range(6))] + [TX(P(2, 1), 1, 0), TX(P(2, 2), 1, 0), TX(P(3, 0), 1, 0), TX(P(0, 6), 0, 1)],
       desc=HTM_DESC + 'rtm_rw_mutex, all role pairs incl. upgrade_to_writer / downgrade_to_reader inside a transaction (transacting reader -> transacting writer, or commit and real re-acquire)',
       bounds=HTM_B),
  dict(name='rtm_mutex_htm_2t', unit='rtm2_d', harness='h_mutex.c', defines={'LOCK': 6, 'NT': 2, 'ROUNDS': 3, 'DATA': 1}, timeout=900,
       scenarios=[TX({'OP0': 0, 'OP1': 0}, 1, 0), TX({'OP0': 0, 'OP1': 1}, 1, 1)],
       scenarios_thorough=[TX(o, m0, m1) for o in ops(2) for (m0, m1) in ((0, 1), (1, 0), (1, 1))],
       desc=HTM_DESC + 'rtm_mutex: speculating holder || real holder (and both may speculate), every holder reads and increments a data word pair', bounds=HTM_B),
  dict(name='rtm_mutex_htm_3t', unit='rtm3_d', harness='h_mutex.c', defines={'LOCK': 6, 'NT': 3, 'ROUNDS': 3, 'DATA': 1}, timeout=1800, tiers=['thorough'],
       scenarios=[TX({'OP0': 0, 'OP1': 0, 'OP2': 0}, 0, 0, 1), TX({'OP0': 0, 'OP1': 0, 'OP2': 1}, 0, 1, 1), TX({'OP0': 0, 'OP1': 0, 'OP2': 0}, 1, 1, 1)],
       desc=HTM_DESC + 'rtm_mutex, 3 threads', bounds=dict(HTM_B, threads=3)),
]
DEV = [
]
if os.environ.get('C08_DEV'): HARNESSES += DEV
MANIFEST = dict(
  level_text='Bounded model checking of the real lock code (spin_mutex, queuing_mutex, spin_rw_mutex, queuing_rw_mutex incl. src/tbb/queuing_rw_mutex.cpp, and '
             'rtm_mutex / rtm_rw_mutex: fallback paths, and speculative paths with atomically committing transactions): for 2-3 threads, each performing one concrete lock operation sequence per query (lock / try / upgrade / '
             'downgrade / release), every interleaving at single-IR-memory-operation granularity with up to R free scheduling rounds + 2 forced rounds is decided '
             'by the SAT solver for: at most one writer, no reader together with a writer, truthful try-acquire, upgrade_to_writer()==true only if no other writer '
             'section ran in between, downgrade lets no writer in and admits a queued reader, FIFO grant order among conflicting queued requests of the queuing '
             'locks, absence of a lost grant/hand-off (two-round blocked-state oracle), and memory safety of the queue-node links.',
  level_note='Bounds per harness/scenario in evidence (threads, free rounds, wait-loop unroll K). Sequential consistency; x86-TSO store buffers (depth 2) for '
             'spin_mutex, queuing_mutex, spin_rw_mutex in the thorough tier, where the protected data is a plain word updated inside the critical section. '
             'Speculative mutexes: fallback paths with _xbegin aborting, plus speculative paths under the model "a transaction commits atomically or has no effect" (*_htm_* harnesses; conflict granularity, capacity aborts, nesting outside). tbb::mutex / tbb::rw_mutex are checked in C02. '
             'Trusted: clang-14 IR, tools/ir2c.py, cbmc, the identity pointer<->integer hooks of h_rw.c.',
)
OUTSIDE = [
  'more than 3 threads; more than two acquire..release cycles per thread on one scoped_lock object (two cycles: *_reuse_* harnesses only; rtm locks: one cycle)',
  'HTM beyond the model "a transaction commits atomically or has no effect": conflict-detection granularity (false sharing, which accesses really conflict), capacity / interrupt / spurious aborts as a cause (their effect = abort-at-begin is covered), nested transactions, a debugger or syscall inside a transaction',
  'tbb::mutex and tbb::rw_mutex (futex based, checked in props/C02)',
  'queuing_rw_mutex: 3 threads with more than 2 free rounds, 2 threads with more than 3, wait-loop unroll K>=2 with 3 threads; TSO for queuing_rw_mutex and the rtm locks',
  'schedules needing more context switches than the stated rounds; paths that spin more than K iterations per slice continue in later rounds only',
  'non-TSO weak memory (ARM / C++11 relaxed reorderings)',
  'starvation / fairness (writer preference of spin_rw_mutex), node lifetime protocol (queue nodes of the harness are never destroyed), scoped_lock destructors of queuing_rw_mutex',
]
STUBS = [
  'sched_yield / pause: scheduling hints (no-op); a loop containing them is a busy-wait loop (thread parks and re-runs it in later rounds)',
  '_xbegin: returns a solver-chosen abort status != _XBEGIN_STARTED, or (threads with TXt=1 in *_htm_* scenarios) starts a transaction; _xend commits; _xabort / sched_yield inside a transaction: assume(0) (that history is the abort-at-begin branch); the harness assumes that no context switch falls inside a transaction (atomic commit); TXt=0: always abort (fallback path only)',
  'governor::cpu_features.rtm_enabled: scenario input SPEC (0/1); the object is defined in the wrapper instead of misc.cpp',
  'vp_i2p / vp_p2i (queuing_rw_mutex): identity on pointer<->integer conversions, resolved against the finite set of queue-node addresses (+ tag bit 0)',
]
ASSUMPTIONS = [
  'each thread issues the operations of its scenario role once; lock objects start unlocked (constructor state)',
  'a thread that calls _xbegin is making progress (the real retry loops are bounded by 10 aborts)',
  'HTM: every committed transaction is serialised at one instant and an aborted one leaves no effect (Intel TSX architectural guarantee); only such histories are explored (under-approximation)',
]

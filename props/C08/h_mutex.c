/* C08: mutual exclusion, truthful try-acquire, FIFO (queuing_mutex), no lost hand-off.
 * LOCK: 1 spin_mutex, 2 queuing_mutex, 6 rtm_mutex (speculative spin mutex, fallback path; SPEC = governor::speculation_enabled()) ; NT threads (2|3) ; OPi: 0 blocking acquire, 1 try ; ROUNDS free rounds */
#include "w.h"
#if LOCK == 6
#define VP_OWN_YIELD      /* h_rtm_stubs.h: a system call inside a transaction aborts it */
#endif
#include "vp.h"
#if LOCK == 1 && defined(DATA)
#define THR(s) vp_thr_sm_d_##s
struct S_class_tbb__detail__d1__spin_mutex M;
#define WORD() vp_sm_word(&M)
#elif LOCK == 2 && defined(DATA)
#define THR(s) vp_thr_qm_d_##s
struct S_class_tbb__detail__d1__queuing_mutex M;
#define WORD() vp_qm_word(&M)
#elif LOCK == 1
#define THR(s) vp_thr_sm_##s
struct S_class_tbb__detail__d1__spin_mutex M;
#define WORD() vp_sm_word(&M)
#elif LOCK == 6
#ifdef DATA      /* every holder reads the word pair vp_A, vp_B and increments both */
#define THR(s) vp_thr_rtm_d_##s
#define vp_data vp_A
#else
#define THR(s) vp_thr_rtm_##s
#endif
struct S_class_tbb__detail__d1__rtm_mutex M;
#define WORD() vp_rtm_word(&M)
#define INIT() vp_rtm_init(&M, SPEC)
#include "h_rtm_stubs.h"
#else
#define THR(s) vp_thr_qm_##s
struct S_class_tbb__detail__d1__queuing_mutex M;
#define WORD() vp_qm_word(&M)
#endif
#define CAT(a,b) a##b
#ifndef VP_TXCHK
#define VP_TXCHK(t)
#endif
#if LOCK == 6 && defined(DATA)
void vp_data_read(u32 tid, u64 a, u64 b) { VP_ASSERT(a == b, "holder sees half of another holder's update of the protected word pair"); }
#endif
/* OPi: 0 blocking acquire, 1 try-acquire; spin_mutex only: 2 / 3 = the same through unique_scoped_lock (odd = try) */
#define TRY0 ((OP0) & 1)
#define TRY1 ((OP1) & 1)
#if NT == 3
#define TRY2 ((OP2) & 1)
#endif
int writers, entered[3], tried[3], try_ok[3];
int qorder[3], nq, queued[3];      /* queue-entry order observed at slice granularity (queuing_mutex) */
int holder_seen;                   /* lock held by somebody at the time of a try (ghost, from observer) */
void vp_enter(u32 tid, u32 w) {
  VP_ASSERT(writers == 0, "mutual exclusion: two holders inside the critical section");
  writers++; entered[tid] = 1;
#if LOCK == 2
  /* FIFO: everybody who was seen in the queue before this thread has already entered */
  for (int i = 0, stop = 0; i < NT; i++) { if (i >= nq || qorder[i] == (int)tid) stop = 1; if (stop) continue; VP_ASSERT(entered[qorder[i]], "queuing_mutex FIFO: request overtook an earlier queued request"); }
#endif
}
void vp_leave(u32 tid, u32 w) { writers--; }
void vp_try_result(u32 tid, u32 ok) {
  tried[tid] = 1; try_ok[tid] = ok;
  if (ok) VP_ASSERT(writers == 0, "try-acquire reported success while the lock was held");
}
#if LOCK == 2
/* only thread tid ran since the last observation: the tail word changed to a new non-null value iff tid executed its
   q_tail.exchange (enqueue) in this slice (a release can only change it to null) */
static u64 last_tail;
static void observe_queue(int tid) { u64 w = WORD(); if (w != last_tail && w != 0 && !queued[tid]) { queued[tid] = 1; qorder[nq++] = tid; } last_tail = w; }
#define OBS(t) observe_queue(t);
#else
#define OBS(t)
#endif
#ifndef INIT
#define INIT()
#endif
int main(void) {
  INIT();
  THR(a_start)(&M, 0, OP0); THR(b_start)(&M, 1, OP1);
#if NT == 3
  THR(c_start)(&M, 2, OP2);
#endif
  for (int r = 0; r < ROUNDS; r++) {
    VP_RUNT(THR(a), 0) VP_TXCHK(0) OBS(0) VP_RUNT(THR(b), 1) VP_TXCHK(1) OBS(1)
#if NT == 3
    VP_RUNT(THR(c), 2) VP_TXCHK(2) OBS(2)
#endif
  }
#if NT == 3 && LOCK == 6
  VP_QUIESCE3T(THR(a), THR(b), THR(c))
#elif LOCK == 6
  VP_QUIESCE2T(THR(a), THR(b))
#elif NT == 3
  VP_QUIESCE3(THR(a), THR(b), THR(c))
#else
  VP_QUIESCE2(THR(a), THR(b))
#endif
  VP_ASSERT(!vp_deadlock, "lost hand-off / deadlock: every unfinished thread is blocked and nothing changes");
  __CPROVER_assume(!vp_unfinished);
  /* every blocking acquirer got the lock; a failed try is justified only if the lock was busy at some point,
     which with all threads finished means at least one other thread entered */
  VP_ASSERT(TRY0 || entered[0], "blocking acquire returned without entering");
  VP_ASSERT(TRY1 || entered[1], "blocking acquire returned without entering");
  int others0 = entered[1], others1 = entered[0];
#if NT == 3
  VP_ASSERT(TRY2 || entered[2], "blocking acquire returned without entering");
  others0 |= entered[2]; others1 |= entered[2];
  if (TRY2 && !try_ok[2]) VP_ASSERT(entered[0] || entered[1], "try-acquire failed although nobody else ever held the lock");
#endif
  if (TRY0 && !try_ok[0]) VP_ASSERT(others0, "try-acquire failed although nobody else ever held the lock");
  if (TRY1 && !try_ok[1]) VP_ASSERT(others1, "try-acquire failed although nobody else ever held the lock");
  VP_ASSERT(WORD() == 0, "lock word not free after all holders released");
#ifdef DATA
  /* DATA variants: every holder did a plain (non-atomic) data = data + 1 inside its critical section; all store buffers are drained */
  { int n = entered[0] + entered[1];
#if NT == 3
    n += entered[2];
#endif
    VP_ASSERT(vp_data == (u64)n, "an update made inside a critical section was lost (not visible to the next holder)"); }
#endif
  VP_REACHED();
  return 0;
}

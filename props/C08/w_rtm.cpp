// C08 wrapper: speculative mutexes (rtm_mutex, rtm_rw_mutex), FALLBACK PATH ONLY.
// The HTM intrinsics are replaced by harness stubs (h_rtm_stubs.h): a transaction either commits atomically or has no effect;
// vp_xbegin() returns a solver-chosen abort status (fallback / retry decisions of the real loops) or starts a transaction.
// governor::cpu_features (normally defined in misc.cpp, filled by CPUID detection) is defined here; rtm_enabled is a scenario input.
#define __RTMINTRIN_H 1
#define __XTESTINTRIN_H 1
extern "C" unsigned vp_xbegin(void);
extern "C" void vp_xend(void);
extern "C" void vp_xabort(unsigned);
static inline unsigned _xbegin(void) { return vp_xbegin(); }
static inline void _xend(void) { vp_xend(); }
#define _xabort(imm) vp_xabort(imm)
extern "C" unsigned vp_xtest(void);
static inline int _xtest(void) { return (int)vp_xtest(); }
#include "src/tbb/rtm_mutex.cpp"
#include "src/tbb/rtm_rw_mutex.cpp"
#include <new>
namespace tbb { namespace detail { namespace r1 { cpu_features_type governor::cpu_features; } } }
using namespace tbb;
using tbb::detail::d1::rtm_mutex;
using tbb::detail::d1::rtm_rw_mutex;
extern "C" void vp_enter(int tid, int writer);
extern "C" void vp_leave(int tid, int writer);
extern "C" void vp_try_result(int tid, int ok);
extern "C" void vp_wait_reader(int tid);      // harness: blocks (VP_BLOCK) until another thread is inside as a reader
#if !__TBB_TSX_INTRINSICS_PRESENT
#error "wrapper must be compiled with -mrtm (as the library is)"
#endif

extern "C" void vp_rtm_init(rtm_mutex* m, int speculation) { new (m) rtm_mutex; detail::r1::governor::cpu_features.rtm_enabled = speculation != 0; }
extern "C" void vp_rtmrw_init(rtm_rw_mutex* m, int speculation) { new (m) rtm_rw_mutex; detail::r1::governor::cpu_features.rtm_enabled = speculation != 0; }
extern "C" unsigned long vp_sizeof_rtm(void) { return sizeof(rtm_mutex); }
extern "C" unsigned long vp_sizeof_rtmrw(void) { return sizeof(rtm_rw_mutex); }

// ---- rtm_mutex: op 0 = acquire, 1 = try_acquire   (observer protocol: h_mutex.c)
extern "C" void vp_thr_rtm(rtm_mutex* m, int tid, int op) {
  rtm_mutex::scoped_lock l;
  if (op == 0) { l.acquire(*m); vp_enter(tid, 1); vp_leave(tid, 1); l.release(); }
  else { bool ok = l.try_acquire(*m); vp_try_result(tid, ok); if (ok) { vp_enter(tid, 1); vp_leave(tid, 1); l.release(); } }
}
// ---- rtm_rw_mutex: role 0 reader, 1 writer, 2 reader then upgrade, 3 writer then downgrade, 4 try reader, 5 try writer (h_rw.c)
extern "C" void vp_thr_rtmrw(rtm_rw_mutex* m, int tid, int role) {
  rtm_rw_mutex::scoped_lock l;
  if (role == 4 || role == 5) {
    bool ok = l.try_acquire(*m, role == 5); vp_try_result(tid, ok);
    if (ok) { vp_enter(tid, role == 5); vp_leave(tid, role == 5); l.release(); }
    return;
  }
  bool w = (role == 1 || role == 3 || role == 6);
  l.acquire(*m, w);
  vp_enter(tid, w);
  if (role == 2) {
    vp_leave(tid, 0);
    bool ok = l.upgrade_to_writer();
    vp_enter(tid, 2 + (ok ? 1 : 0));
    vp_leave(tid, 1);
  } else if (role == 3) {
    vp_leave(tid, 3);
    l.downgrade_to_reader();
    vp_leave(tid, 0);
  } else if (role == 6) {                   // writer, downgrade, keep the read lock until another reader got in, release
    vp_leave(tid, 3);
    l.downgrade_to_reader();
    vp_wait_reader(tid);
    vp_leave(tid, 0);
  } else vp_leave(tid, w);
  l.release();
}
// ---- variants with a data word pair updated inside the critical section (A++ ... B++ are separate memory operations): a reader
// that gets in while a writer is between the two (e.g. a speculating reader not kept out by write_flag) sees A != B
unsigned long vp_A, vp_B;
extern "C" void vp_data_read(int tid, unsigned long a, unsigned long b);
extern "C" void vp_thr_rtm_d(rtm_mutex* m, int tid, int op) {
  rtm_mutex::scoped_lock l;
  bool ok = true;
  if (op == 0) l.acquire(*m); else { ok = l.try_acquire(*m); vp_try_result(tid, ok); }
  if (ok) { vp_enter(tid, 1); unsigned long a = vp_A, b = vp_B; vp_data_read(tid, a, b); vp_A = a + 1; vp_B = b + 1; vp_leave(tid, 1); l.release(); }
}
extern "C" void vp_thr_rtmrw_d(rtm_rw_mutex* m, int tid, int role) {     // role 0 reader, 1 writer, 4 try reader, 5 try writer
  rtm_rw_mutex::scoped_lock l;
  bool w = (role == 1 || role == 5), ok = true;
  if (role < 4) l.acquire(*m, w); else { ok = l.try_acquire(*m, w); vp_try_result(tid, ok); }
  if (ok) {
    vp_enter(tid, w);
    if (w) { vp_A = vp_A + 1; vp_B = vp_B + 1; }
    else { unsigned long a = *(volatile unsigned long*)&vp_A, b = *(volatile unsigned long*)&vp_B; vp_data_read(tid, a, b); }
    vp_leave(tid, w);
    l.release();
  }
}
extern "C" unsigned long vp_rtm_word(rtm_mutex* m) { return m->m_flag.load(std::memory_order_relaxed); }
extern "C" unsigned long vp_rtmrw_word(rtm_rw_mutex* m) { return (unsigned long)m->m_state.load(std::memory_order_relaxed) | ((unsigned long)m->write_flag.load(std::memory_order_relaxed) << 62); }

// C08, "scoped_lock object reused" scenarios: one thread runs up to two lock cycles on the SAME scoped_lock object, so that per-object
// state left behind by the first cycle (queue links, going flag, reader/writer state) meets the second acquire / try_acquire.
// Included by w_locks.cpp and w_qrw.cpp. Observer protocol: h_reuse.c.
#include <new>
extern "C" void vp_idle(int tid, int begin);   // begin=1: the object is idle from now on (owner is outside any lock call); 0: idle window ends
extern "C" void vp_cycle(int tid);             // the next cycle of this thread begins
extern "C" void vp_done(int tid);
// exclusive locks: op 0 acquire, 1 try_acquire
template <class L, class M> static inline __attribute__((always_inline)) void vp_x_cycle(L& l, M* m, int tid, int op) {
  vp_idle(tid, 0);
  if (op == 0) { l.acquire(*m); vp_enter(tid, 1); vp_leave(tid, 1); l.release(); }
  else { bool ok = l.try_acquire(*m); vp_try_result(tid, ok); if (ok) { vp_enter(tid, 1); vp_leave(tid, 1); l.release(); } }
  vp_idle(tid, 1);
}
// reader/writer locks: role 0 reader, 1 writer, 2 reader then upgrade, 3 writer then downgrade, 4 try reader, 5 try writer
template <class L, class M> static inline __attribute__((always_inline)) void vp_rw_cycle(L& l, M* m, int tid, int role) {
  vp_idle(tid, 0);
  if (role == 4 || role == 5) {
    bool ok = l.try_acquire(*m, role == 5); vp_try_result(tid, ok);
    if (ok) { vp_enter(tid, role == 5); vp_leave(tid, role == 5); l.release(); }
  } else {
    bool w = (role == 1 || role == 3);
    l.acquire(*m, w);
    vp_enter(tid, w);
    if (role == 2) {
      vp_leave(tid, 0);
      bool ok = l.upgrade_to_writer();
      vp_enter(tid, 2 + (ok ? 1 : 0));
      vp_leave(tid, 1);
    } else if (role == 3) {
      vp_leave(tid, 3);
      l.downgrade_to_reader();
      vp_leave(tid, 0);
    } else vp_leave(tid, w);
    l.release();
  }
  vp_idle(tid, 1);
}
#define VP_NONE 7    /* "no second cycle" */

/* C08, scoped_lock object REUSED: every thread runs up to two lock cycles on the same scoped_lock object (harness storage NODE[t]),
 * so that per-object state left by cycle 1 (queue links, going flag, reader/writer state) meets the second acquire/try_acquire.
 * LOCK: 2 queuing_mutex (exclusive: op 0 acquire, 1 try_acquire), 3 spin_rw_mutex / 4 queuing_rw_mutex (roles 0 reader, 1 writer,
 *       2 reader+upgrade, 3 writer+downgrade, 4 try reader, 5 try writer); 7 = no second cycle.
 * Scenario: SA1 SA2 (thread 0), SB1 SB2 (thread 1), [SC1 SC2 (thread 2)]; NT threads; ROUNDS free rounds.
 * A "request" is (thread, cycle): rq = 2*tid + cycle.
 * Oracles: <=1 writer, no reader with a writer, truthful upgrade (as h_rw.c); truthful try: a try may fail only if a request of
 * another thread overlapped it in time; FIFO among conflicting queued blocking requests (queuing locks); blocked-state oracle;
 * no write into a scoped_lock object while its owner is outside any lock call (snapshot at the end of each cycle, compared when
 * the next cycle begins and at the very end); at the end the lock word is free and a fresh object acquires at once. */
#include "w.h"
#include "vp.h"
#ifndef NT
#define NT 2
#endif
#ifndef SC1
#define SC1 7
#define SC2 7
#endif
#define NONE 7
#if LOCK == 2
#define THR(s) vp_thr_qm_re_##s
struct S_class_tbb__detail__d1__queuing_mutex M;
typedef struct S_class_tbb__detail__d1__queuing_mutex__scoped_lock node_t;
#define WORD() vp_qm_word(&M)
#define FRESH() vp_qm_fresh(&M, &NODE[3])
#define QUEUING 1
#define EXCL 1
#elif LOCK == 3
#define THR(s) vp_thr_rw_re_##s
struct S_class_tbb__detail__d1__spin_rw_mutex M;
typedef struct S_class_tbb__detail__d1__rw_scoped_lock node_t;
#define WORD() vp_rw_word(&M)
#define FRESH() vp_rw_fresh(&M, &NODE[3])
#define QUEUING 0
#define EXCL 0
#else
#define THR(s) vp_thr_qrw_re_##s
struct S_class_tbb__detail__d1__queuing_rw_mutex M;
typedef struct S_class_tbb__detail__d1__queuing_rw_mutex__scoped_lock node_t;
#define WORD() vp_qrw_word(&M)
#define FRESH() vp_qrw_fresh(&M, &NODE[3])
#define QUEUING 1
#define EXCL 0
#endif
node_t NODE[4];     /* one object per thread + NODE[3]: the fresh object of the final check */
#if LOCK == 4
/* pointer<->integer identity hooks, see h_rw.c */
int i2p_miss;
u64 vp_p2i(u8* p) { return (u64)p; }
u8* vp_i2p(u64 x) {
  for (int i = 0; i < 4; i++) {
    if (x == (u64)&NODE[i]) return (u8*)&NODE[i];
    if (x == (u64)&NODE[i] + 1) return (u8*)&NODE[i] + 1;
  }
  if (x == 0) return 0;
  if (x == 1) return (u8*)1;
  i2p_miss = 1;
#ifdef VP_NATIVE
  return (u8*)x;
#else
  return 0;
#endif
}
#endif
/* role of request rq; exclusive locks: op 0 -> writer (1), op 1 -> try writer (5) */
#if EXCL
#define XR(o) ((o) == NONE ? NONE : (o) == 0 ? 1 : 5)
#else
#define XR(o) (o)
#endif
static const int role[6] = { XR(SA1), XR(SA2), XR(SB1), XR(SB2), XR(SC1), XR(SC2) };
#define IS_TRY(r) ((r) == 4 || (r) == 5)
#define IS_WRITE_REQ(r) ((r) == 1 || (r) == 3 || (r) == 5)
int cyc[3];                                 /* current cycle of each thread */
#define RQ(t) (2 * (int)(t) + cyc[t])
int writers, readers, entered[6], tried[6], try_ok[6];
unsigned wepoch, up_epoch[3];
int active[3]; unsigned act_epoch, try_epoch[3]; int try_overlap[3];   /* truthful try: overlap with another thread's request */
int qorder[6], nq, queued[6];
/* idle-object oracle */
#define NW (sizeof(node_t) / 8)
u64 snap[3][8]; int have_snap[3];
static void check_idle(int t, const char* dummy) {
  if (!have_snap[t]) return;
  for (unsigned i = 0; i < NW; i++) VP_ASSERT(((u64*)&NODE[t])[i] == snap[t][i], "scoped_lock object written while its owner was outside any lock call");
}
static u64 last_tail;
static void observe_queue(int tid) {
#if QUEUING
  u64 w = WORD(); int rq = RQ(tid);
  if (w != last_tail && w != 0 && !queued[rq] && active[tid]) { queued[rq] = 1; if (!IS_TRY(role[rq])) qorder[nq++] = rq; }
  last_tail = w;
#endif
}
void vp_idle(u32 tid, u32 begin) {
  if (begin) {
    for (unsigned i = 0; i < NW; i++) snap[tid][i] = ((u64*)&NODE[tid])[i];
    have_snap[tid] = 1; active[tid] = 0;
  } else {
    check_idle(tid, 0); have_snap[tid] = 0;
    active[tid] = 1; act_epoch++;
    try_epoch[tid] = act_epoch; try_overlap[tid] = 0;
    for (int o = 0; o < NT; o++) if (o != (int)tid && active[o]) try_overlap[tid] = 1;
  }
}
void vp_cycle(u32 tid) { observe_queue(tid); cyc[tid] = 1; }   /* the tail is sampled at the cycle boundary: the enqueue of cycle 2 is seen as a change */
void vp_done(u32 tid) { }
void vp_enter(u32 tid, u32 w) {
  int rq = RQ(tid);
  if (w == 0) {
    VP_ASSERT(writers == 0, "reader admitted while a writer holds the lock");
    readers++;
  } else {
    VP_ASSERT(writers == 0, "two writers hold the lock");
    VP_ASSERT(readers == 0, "writer admitted while a reader holds the lock");
    if (w == 3) VP_ASSERT(wepoch == up_epoch[tid], "upgrade_to_writer returned true although another writer section ran in between");
    writers++; wepoch++;
  }
#if QUEUING
  if (!entered[rq] && queued[rq] && !IS_TRY(role[rq]))
    for (int i = 0, stop = 0; i < 6; i++) {
      if (i >= nq || qorder[i] == rq) stop = 1;
      if (stop) continue;
      if (IS_WRITE_REQ(role[qorder[i]]) || IS_WRITE_REQ(role[rq])) VP_ASSERT(entered[qorder[i]], "FIFO: request overtook an earlier queued conflicting request");
    }
#endif
  entered[rq] = 1;
}
void vp_leave(u32 tid, u32 w) {
  if (w == 0) { readers--; up_epoch[tid] = wepoch; }
  else if (w == 1) writers--;
  else { writers--; readers++; }
}
void vp_try_result(u32 tid, u32 ok) {
  int rq = RQ(tid);
  tried[rq] = 1; try_ok[rq] = ok;
  if (!ok) VP_ASSERT(try_overlap[tid] || act_epoch != try_epoch[tid], "try-acquire failed although no request of another thread overlapped it");
}
#define START(s, t, r1, r2) THR(s##_start)(&M, &NODE[t], t, r1, r2)
int main(void) {
  START(a, 0, SA1, SA2); START(b, 1, SB1, SB2);
#if NT == 3
  START(c, 2, SC1, SC2);
#endif
  for (int r = 0; r < ROUNDS; r++) {
    VP_RUNT(THR(a), 0) observe_queue(0); VP_RUNT(THR(b), 1) observe_queue(1);
#if NT == 3
    VP_RUNT(THR(c), 2) observe_queue(2);
#endif
  }
#if NT == 3
  VP_QUIESCE3S(THR(a), THR(b), THR(c))
#else
  VP_QUIESCE2S(THR(a), THR(b))
#endif
  VP_ASSERT(!vp_deadlock, "lost grant / deadlock: every unfinished thread is blocked and nothing changes");
  __CPROVER_assume(!vp_unfinished);
#if LOCK == 4 && !defined(VP_NATIVE)
  VP_ASSERT(!i2p_miss, "VP_INCONCLUSIVE: integer-to-pointer conversion of a value that is no (tagged) queue-node address");
#endif
  VP_ASSERT(writers == 0 && readers == 0, "ghost holder count not back to zero");
  for (int rq = 0; rq < 2 * NT; rq++) {
    if (role[rq] == NONE) continue;
    if (!IS_TRY(role[rq])) VP_ASSERT(entered[rq], "blocking acquire returned without entering");
    else VP_ASSERT(tried[rq], "try-acquire did not report");
  }
  for (int t = 0; t < NT; t++) check_idle(t, 0);
  VP_ASSERT(WORD() == 0, "lock word not free after all holders released (dangling queue tail / stale state)");
  if (WORD() == 0) {   /* otherwise already reported above; the fresh cycle could then spin (unwinding bound => inconclusive instead of the violation) */
    VP_ASSERT(FRESH(), "a fresh scoped_lock cannot acquire the lock after everybody released");
    VP_ASSERT(WORD() == 0, "lock word not free after the fresh cycle");
  }
  VP_REACHED();
  return 0;
}

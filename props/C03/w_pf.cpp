// C03 wrapper, algorithm templates on the one-thread world of w_world.h: the REAL parallel_for (start_for::run/execute/cancel/
// finalize, simple_partitioner split loop, tree_node fold_tree) and parallel_deterministic_reduce (start_deterministic_reduce,
// deterministic_reduction_tree_node: split body, join skipped when cancelled) executed by the REAL dispatcher loop.
#include "w_world.h"
#include "oneapi/tbb/parallel_reduce.h"
#include "oneapi/tbb/blocked_range.h"

// observers (harness): object life cycle (kind 0 = Range, 1 = Body), element visits, joins
extern "C" void vp_obj_ctor(int kind, void* at, int how);     // how: 0 = user's original, 1 = copy, 2 = split
extern "C" void vp_obj_dtor(int kind, void* at);
extern "C" void vp_join(int left_lo, int left_hi, int right_lo, int right_hi);
extern "C" void vp_notify_released(void);
extern "C" void vp_may_throw_ctor(int kind);                    // user constructors may throw here: 0 = Range copy, 1 = Range split, 2 = Body copy (harness: the k-th call does)

namespace {
// a Range in the sense of the tbb_range concept; every construction/destruction is reported
struct VRange {
  int b, e;
  VRange(int b_, int e_) : b(b_), e(e_) { vp_obj_ctor(0, this, 0); }
  VRange(const VRange& r) : b(r.b), e(r.e) { vp_may_throw_ctor(0); vp_obj_ctor(0, this, 1); }
  VRange(VRange& r, tbb::split) : b((r.b + r.e) / 2), e(r.e) { vp_may_throw_ctor(1); r.e = b; vp_obj_ctor(0, this, 2); }
  ~VRange() { vp_obj_dtor(0, this); }
  bool empty() const { return !(b < e); }
  bool is_divisible() const { return e - b > 1; }
};
struct VForBody {
  VForBody() { vp_obj_ctor(1, this, 0); }
  VForBody(const VForBody&) { vp_may_throw_ctor(2); vp_obj_ctor(1, this, 1); }
  ~VForBody() { vp_obj_dtor(1, this); }
  void operator()(const VRange& r) const { for (int i = r.b; i < r.e; i++) vp_body(i); }
};
struct VRedBody {
  int lo, hi;      // the interval reduced so far (empty: lo == hi == -1)
  VRedBody() : lo(-1), hi(-1) { vp_obj_ctor(1, this, 0); }
  VRedBody(VRedBody&, tbb::split) : lo(-1), hi(-1) { vp_obj_ctor(1, this, 2); }
  ~VRedBody() { vp_obj_dtor(1, this); }
  void operator()(const VRange& r) { for (int i = r.b; i < r.e; i++) { vp_body(i); if (lo < 0) lo = i; hi = i + 1; } }
  void join(VRedBody& rhs) { vp_join(lo, hi, rhs.lo, rhs.hi); if (rhs.lo >= 0) { if (lo < 0) lo = rhs.lo; hi = rhs.hi; } }
};
}

extern "C" {
// ---- parallel_for over [0,n) with simple_partitioner (grainsize 1: one leaf task per element)
void vp_pfor(int n) {
  int threw = 0;
  {
    VRange r(0, n); VForBody body;
    try { tbb::parallel_for(r, body, tbb::simple_partitioner()); } catch (...) { threw = 1; vp_note(1, 0); }
    vp_wait_result(0, 1, threw, 0);
  }
  vp_note(3, 0);    // the user's own Range/Body are gone too
}
// ---- parallel_deterministic_reduce over [0,n): a split body per right child, joined at fold time unless cancelled
void vp_pdreduce(int n) {
  int threw = 0;
  {
    VRange r(0, n); VRedBody body;
    try { tbb::parallel_deterministic_reduce(r, body, tbb::simple_partitioner()); } catch (...) { threw = 1; vp_note(1, 0); }
    vp_wait_result(0, 1, threw, 0);
    vp_note(4, body.lo == 0 && body.hi == n);
  }
  vp_note(3, 0);
}
// ---- parallel_reduce over [0,n): in a one-thread LIFO execution a right child always finds its left sibling finished, so no zombie
// body is ever split off (that needs a thief); the cancel/finalize/fold paths of start_reduce and reduction_tree_node are exercised
void vp_preduce(int n) {
  int threw = 0;
  {
    VRange r(0, n); VRedBody body;
    try { tbb::parallel_reduce(r, body, tbb::simple_partitioner()); } catch (...) { threw = 1; vp_note(1, 0); }
    vp_wait_result(0, 1, threw, 0);
    vp_note(4, body.lo == 0 && body.hi == n);
  }
  vp_note(3, 0);
}
}

// C03 wrapper, task_group scenarios on the one-thread world of w_world.h
#include "w_world.h"
extern "C" {
// ---- scenario 1: task_group with n tasks, wait, then reuse
static int vp_cancelled(tbb::task_group& tg) { return tg.m_context.actual_context().is_group_execution_cancelled(); }
void vp_tg(int n, int reuse) {
  tbb::task_group tg;
  for (int i = 0; i < n; i++) tg.run([i] { vp_body(i); });
  int st = -1, threw = 0;
  try { st = (int)tg.wait(); } catch (...) { threw = 1; vp_note(1, 0); }
  vp_wait_result(0, st, threw, vp_cancelled(tg));
  if (reuse) {
    int id = 100;
    tg.run([id] { vp_body(id); });
    st = -1; threw = 0;
    try { st = (int)tg.wait(); } catch (...) { threw = 1; vp_note(1, 1); }
    vp_wait_result(1, st, threw, vp_cancelled(tg));
  }
}
// ---- scenario 2: run_and_wait (function_stack_task executed without spawn) + spawned siblings
void vp_tg_raw(int n) {
  tbb::task_group tg;
  for (int i = 0; i < n; i++) tg.run([i] { vp_body(i); });
  int st = -1, threw = 0;
  try { st = (int)tg.run_and_wait([n] { vp_body(n); }); } catch (...) { threw = 1; vp_note(1, 0); }
  vp_wait_result(0, st, threw, vp_cancelled(tg));
}
// ---- scenario 3: nested group: an outer task runs an inner task_group and waits for it while a sibling of the outer group
// is still in the pool; with do_catch == 0 the inner wait's exception escapes from the outer task's body
void vp_tg_nested(int n, int do_catch) {
  tbb::task_group outer;
  int one = 1;
  outer.run([one] { vp_body(one); });
  outer.run([n, do_catch] {
    tbb::task_group inner;
    for (int i = 0; i < n; i++) inner.run([i] { vp_body(10 + i); });
    int st = -1, threw = 0;
    try { st = (int)inner.wait(); } catch (...) { threw = 1; vp_note(1, 1); if (!do_catch) { vp_wait_result(1, st, threw, vp_cancelled(inner)); vp_note(2, 0); throw; } }
    vp_wait_result(1, st, threw, vp_cancelled(inner));
    vp_body(0);
  });
  int st = -1, threw = 0;
  try { st = (int)outer.wait(); } catch (...) { threw = 1; vp_note(1, 0); }
  vp_wait_result(0, st, threw, vp_cancelled(outer));
}
// ---- scenario 4: an exception of the OUTER group while a nested group has work pending: outer task A spawns an inner task (group g1), then
// a task X of the outer group, and waits for g1: the nested dispatch loop runs X first (top of the pool); if X throws, the outer context is
// cancelled and the cancellation must reach g1 (bound child: its pending task is cancelled, g1.wait() reports canceled without throwing)
// and a group g2 created afterwards (inherits the cancellation when it is bound).  Body ids: B = 1, X = 2, g1 task = 10, g2 task = 20.
void vp_tg_outer_throw(int unused) {
  tbb::task_group outer;
  tbb::task_group* po = &outer;
  int one = 1;
  outer.run([one] { vp_body(one); });
  outer.run([po] {
    {
      tbb::task_group g1;
      int a = 10, x = 2;
      g1.run([a] { vp_body(a); });
      po->run([x] { vp_body(x); });
      int st = -1, threw = 0;
      try { st = (int)g1.wait(); } catch (...) { threw = 1; vp_note(1, 1); }
      vp_wait_result(1, st, threw, vp_cancelled(g1));
    }
    {
      tbb::task_group g2;
      int b = 20;
      g2.run([b] { vp_body(b); });
      int st = -1, threw = 0;
      try { st = (int)g2.wait(); } catch (...) { threw = 1; vp_note(1, 2); }
      vp_wait_result(2, st, threw, vp_cancelled(g2));
    }
  });
  int st = -1, threw = 0;
  try { st = (int)outer.wait(); } catch (...) { threw = 1; vp_note(1, 0); }
  vp_wait_result(0, st, threw, vp_cancelled(outer));
}
}

// C03 wrapper, task_group scenarios on the one-thread world of w_world.h
#include "w_world.h"
extern "C" {
// ---- scenario 1: task_group with n tasks, wait, then reuse
static int vp_cancelled(tbb::task_group& tg) { return tg.m_context.actual_context().is_group_execution_cancelled(); }
void vp_tg(int n, int reuse) {
  tbb::task_group tg;
  for (int i = 0; i < n; i++) tg.run([i] { vp_body(i); });
  int st = -1, threw = 0;
  try { st = (int)tg.wait(); } catch (...) { threw = 1; vp_note(1, 0); }
  vp_wait_result(0, st, threw, vp_cancelled(tg));
  if (reuse) {
    int id = 100;
    tg.run([id] { vp_body(id); });
    st = -1; threw = 0;
    try { st = (int)tg.wait(); } catch (...) { threw = 1; vp_note(1, 1); }
    vp_wait_result(1, st, threw, vp_cancelled(tg));
  }
}
// ---- scenario 2: run_and_wait (function_stack_task executed without spawn) + spawned siblings
void vp_tg_raw(int n) {
  tbb::task_group tg;
  for (int i = 0; i < n; i++) tg.run([i] { vp_body(i); });
  int st = -1, threw = 0;
  try { st = (int)tg.run_and_wait([n] { vp_body(n); }); } catch (...) { threw = 1; vp_note(1, 0); }
  vp_wait_result(0, st, threw, vp_cancelled(tg));
}
// ---- scenario 3: nested group: an outer task runs an inner task_group and waits for it while a sibling of the outer group
// is still in the pool; with do_catch == 0 the inner wait's exception escapes from the outer task's body
void vp_tg_nested(int n, int do_catch) {
  tbb::task_group outer;
  int one = 1;
  outer.run([one] { vp_body(one); });
  outer.run([n, do_catch] {
    tbb::task_group inner;
    for (int i = 0; i < n; i++) inner.run([i] { vp_body(10 + i); });
    int st = -1, threw = 0;
    try { st = (int)inner.wait(); } catch (...) { threw = 1; vp_note(1, 1); if (!do_catch) { vp_wait_result(1, st, threw, vp_cancelled(inner)); vp_note(2, 0); throw; } }
    vp_wait_result(1, st, threw, vp_cancelled(inner));
    vp_body(0);
  });
  int st = -1, threw = 0;
  try { st = (int)outer.wait(); } catch (...) { threw = 1; vp_note(1, 0); }
  vp_wait_result(0, st, threw, vp_cancelled(outer));
}
}

/* C03 / parallel_scan under cancellation (self-contained adaptation of props/C06/h_reduce.c -DSCAN; prepared by b-C06).
 * The real parallel_scan task code (start_scan, finish_scan, sum_node, final_sum; wrapper w_scan_cancel.cpp) is run by a
 * sequential task bag that stands in for the scheduler: the r1:: entry points below are the only stubs. The group is
 * cancelled just before the CANCEL-th observation point (an observation point = every task dispatch and every poll of the
 * context by the task code); from then on the dispatcher calls cancel() instead of execute(), exactly what it does after it
 * captured an exception thrown by a body (the throw itself is not modelled: unit built with -fno-exceptions).
 * Concrete per query: range [0,NELEM) grain GRAIN, simple_partitioner, CANCEL, task order (DRAIN bit s: s-th task taken by
 * the drain loop is the oldest/newest; NESTMASK bit h: during the h-th body invocation another task runs; STOLEN bit i).
 *
 * EXPECTED TO FAIL on the unchanged tree with exactly these two assertions (known finding, see repro_scan_cancel_leak.cpp):
 *   "scan: tree node or task never freed after cancellation"
 *   "scan: Body copy owned by parallel_scan never destroyed after cancellation"
 * finish_scan::cancel()/sum_node::cancel() only fold the reference counts: the sum_node owned by a finish_scan (m_result) and
 * the final_sum objects hanging off it (m_left_sum, right zombie) are never destroyed.
 * Everything else must hold: nothing destroyed/freed twice, no pass on a destroyed body, no pass with a wrong prefix, no
 * element finalised twice, every wait released exactly once, no task left in the bag, no use after free (cbmc). */
#include "w.h"
#include "vp.h"
#ifndef NELEM
#define NELEM 3
#endif
#ifndef GRAIN
#define GRAIN 1
#endif
#ifndef NEST
#define NEST 1
#endif
#ifndef NESTK
#define NESTK 1
#endif
#ifndef NESTMASK
#define NESTMASK 0
#endif
#ifndef NESTPOL
#define NESTPOL 1
#endif
#ifndef DRAIN
#define DRAIN 0
#endif
#ifndef CANCEL
#define CANCEL 2
#endif
#ifndef STOLEN
#define STOLEN 255
#endif
#define MAXT 12
#define MAXCHAIN 12
#define MAXB 12
typedef struct S_class_tbb__detail__d1__task task_t;
typedef struct S_class_tbb__detail__d1__task_group_context ctx_t;
typedef struct S_struct_tbb__detail__d1__execution_data ed_t;
typedef struct S_class_tbb__detail__d1__small_object_pool pool_t;
typedef struct S_class_tbb__detail__d1__wait_context wait_t;

#ifndef VP_NATIVE
/* word-wise memset model: cbmc's builtin rewrites the whole enclosing object byte-wise and defeats constant propagation of
   the task fields (clang merges adjacent zero-initialisations into small memsets). Native replay uses libc's memset. */
#define W1(i) if ((i) < n / 8) ((u64*)p)[i] = w;
#define W4(i) W1(i) W1(i + 1) W1(i + 2) W1(i + 3)
#define B1(i) if ((i) < n) ((u8*)p)[i] = (u8)c;
#define B4(i) B1(i) B1(i + 1) B1(i + 2) B1(i + 3)
#define B16(i) B4(i) B4(i + 4) B4(i + 8) B4(i + 12)
void* memset(void* p, int c, size_t n) {
  u64 w = (u8)c * 0x0101010101010101ull;
  if ((__CPROVER_POINTER_OFFSET(p) & 7) == 0 && (n & 7) == 0) { W4(0) W4(4) W4(8) W4(12) VP_ASSERT(n <= 128, "VP: memset longer than modelled"); }
  else { B16(0) B16(16) B16(32) B16(48) VP_ASSERT(n <= 64, "VP: memset longer than modelled"); }
  return p;
}
#endif
static task_t* bag[MAXT]; static unsigned nbag;
static ctx_t* run_ctx; static wait_t* run_wait;
static unsigned depth, cur_slot, n_hooks, n_drain, n_dispatch;
static unsigned n_alloc, n_free, n_notify, n_tasks_run, n_waits;
static int cancelled;
static u64 dummy_pool;
static int destroyed[MAXB], active[MAXB]; static unsigned n_bodies = 1;   /* body 0 = the user's own */

/* ---- body observers (called from the wrapper's Body) ---- */
void vp_body_split(u32 from, u32 nid) {
  VP_ASSERT(nid < MAXB && from < nid, "VP bound: body ids");
  VP_ASSERT(nid == n_bodies, "body ids not consecutive");
  VP_ASSERT(!destroyed[from], "body split off a destroyed body");
  if (nid < MAXB) n_bodies = nid + 1;
}
void vp_body_dtor(u32 id) {
  VP_ASSERT(id != 0, "the user's own body was destroyed by the algorithm");
  VP_ASSERT(id < n_bodies, "destructor on something that is not a live body");
  if (id < MAXB) {
    VP_ASSERT(!destroyed[id], "scan: Body copy destroyed twice");
    VP_ASSERT(!active[id], "body destroyed while running");
    destroyed[id] = 1;
  }
}
static void run_some(void);
void vp_body_run(u32 id, u32 b, u32 e) {
  VP_ASSERT(id < n_bodies && !destroyed[id], "body applied after it was destroyed");
  if (id < MAXB) active[id]++;
  { unsigned h = n_hooks++;
    if (depth < NEST && (NESTMASK >> h & 1)) { depth++; run_some(); depth--; } }   /* another thread makes progress meanwhile */
  if (id < MAXB) active[id]--;
}
static u64 seq_of(int lo, int hi) { u64 q = 0; for (int i = 0; i < NELEM; i++) if (i >= lo && i < hi) q = (q << 4) | (u64)((i + 1) & 15); return q; }
static int final_count[NELEM];
void vp_scan_pass(u32 id, u32 b, u32 e, u32 is_final, u64 prefix_seq, u32 prefix_len) {
  VP_ASSERT(!cancelled, "scan: body invoked although the dispatcher had already seen the group cancelled");
  VP_ASSERT((int)b < (int)e && (int)b >= 0 && (int)e <= NELEM, "scan pass on an empty or foreign range");
  VP_ASSERT(prefix_len <= b, "running sum holds more operands than lie left of the subrange");
  if (prefix_len <= b) VP_ASSERT(prefix_seq == seq_of((int)(b - prefix_len), (int)b), "running sum is not the fold of the operands immediately left of the subrange, in order");
  if (is_final) {
    VP_ASSERT(prefix_len == b, "final pass starts with an incomplete prefix: wrong scan output");
    for (int i = 0; i < NELEM; i++) if (i >= (int)b && i < (int)e) { VP_ASSERT(final_count[i] == 0, "final pass run twice on an element"); final_count[i]++; }
  }
}
void vp_body_rjoin(u32 into, u32 left) {
  VP_ASSERT(into < n_bodies && left < n_bodies && !destroyed[into] && !destroyed[left], "reverse_join on a destroyed body");
  VP_ASSERT(!active[into] && !active[left], "reverse_join while one of the two bodies is still being run");
}
void vp_body_assign(u32 into, u32 from) {
  VP_ASSERT(into < n_bodies && from < n_bodies && !destroyed[into] && !destroyed[from], "assign on a destroyed body");
  VP_ASSERT(!active[into] && !active[from], "assign while one of the two bodies is still being run");
}

/* ---- r1:: entry points = the scheduler model ---- */
static unsigned n_cancel_points;
static void cancel_point(void) { n_cancel_points++; if (CANCEL && n_cancel_points == CANCEL) cancelled = 1; }
void _ZN3tbb6detail2r110initializeERNS0_2d118task_group_contextE(ctx_t* c) { vp_ctx_initialize(c); }
void _ZN3tbb6detail2r17destroyERNS0_2d118task_group_contextE(ctx_t* c) {}
static u8* alloc_obj(pool_t** pool, u64 n) {
  u8* p;
  *pool = (pool_t*)&dummy_pool; n_alloc++;
  VP_ASSERT(n <= 256, "VP: task larger than the field-sensitive array limit");
  p = malloc(n); __CPROVER_assume(p != 0); return p;
}
u8* _ZN3tbb6detail2r18allocateERPNS0_2d117small_object_poolEm(pool_t** pool, u64 n) { return alloc_obj(pool, n); }
u8* _ZN3tbb6detail2r18allocateERPNS0_2d117small_object_poolEmRKNS2_14execution_dataE(pool_t** pool, u64 n, ed_t* ed) { return alloc_obj(pool, n); }
void _ZN3tbb6detail2r110deallocateERNS0_2d117small_object_poolEPvmRKNS2_14execution_dataE(pool_t* pool, u8* p, u64 n, ed_t* ed) {
  VP_ASSERT(pool == (pool_t*)&dummy_pool, "deallocate with a pool that allocate never handed out");
  n_free++; free(p); }                                   /* cbmc: double free / use after free are checked on these objects */
void _ZN3tbb6detail2r110deallocateERNS0_2d117small_object_poolEPvm(pool_t* pool, u8* p, u64 n) {
  VP_ASSERT(pool == (pool_t*)&dummy_pool, "deallocate with a pool that allocate never handed out");
  n_free++; free(p); }
void _ZN3tbb6detail2r15spawnERNS0_2d14taskERNS2_18task_group_contextE(task_t* t, ctx_t* c) {
  VP_ASSERT(c == run_ctx, "task spawned into a foreign context");
  VP_ASSERT(nbag < MAXT, "VP bound: bag capacity");
  if (nbag < MAXT) bag[nbag++] = t; }
u16 _ZN3tbb6detail2r114execution_slotEPKNS0_2d114execution_dataE(ed_t* ed) { return (u16)cur_slot; }
u8 _ZN3tbb6detail2r128is_group_execution_cancelledERNS0_2d118task_group_contextE(ctx_t* c) {
  VP_ASSERT(c == run_ctx, "cancellation asked about a foreign context");
  cancel_point();
  return (u8)cancelled; }
void _ZN3tbb6detail2r114notify_waitersEm(u64 addr) { VP_ASSERT(addr == (u64)run_wait, "notify for a foreign wait object"); n_notify++; }

static void run_chain(task_t* t, ed_t* ed) {   /* a task may return a successor that the same thread runs next (scheduler bypass) */
  for (unsigned i = 0; i < MAXCHAIN; i++) if (t) {
    cancel_point();
    n_tasks_run++;
    t = cancelled ? vp_task_cancel(t, ed) : vp_task_execute(t, ed);   /* what the dispatcher does with a task of a cancelled group */
  }
  VP_ASSERT(t == 0, "VP bound: bypass chain longer than MAXCHAIN");
}
static void run_one(task_t* t) {
  ed_t ed;
  unsigned save = cur_slot;
  vp_ed_init(&ed, run_ctx);
  cur_slot = (STOLEN >> n_dispatch) & 1;
  n_dispatch++;
  run_chain(t, &ed);
  cur_slot = save;
}
static task_t* take(int oldest) {
  unsigned k = oldest ? 0 : nbag - 1;
  task_t* t = bag[k];
  for (unsigned i = 0; i + 1 < MAXT; i++) if (i >= k && i + 1 < nbag) bag[i] = bag[i + 1];
  nbag--;
  return t;
}
static void run_some(void) {
  for (unsigned i = 0; i < NESTK; i++) if (nbag > 0) run_one(take(NESTPOL));
}
void _ZN3tbb6detail2r116execute_and_waitERNS0_2d14taskERNS2_18task_group_contextERNS2_12wait_contextES6_(task_t* t, ctx_t* tc, wait_t* w, ctx_t* wc) {
  run_ctx = tc; run_wait = w; cur_slot = 0;
  { ed_t ed; vp_ed_init(&ed, run_ctx); run_chain(t, &ed); }   /* the root task is run by the calling thread, never stolen */
  n_waits++;
  for (unsigned s = 0; s < MAXT; s++) if (nbag > 0) { unsigned d = n_drain++; run_one(take(DRAIN >> d & 1)); }
  VP_ASSERT(nbag == 0, "VP bound: more tasks than the drain loop runs");
  VP_ASSERT(vp_wait_refs(w) == 0, "all tasks ran but the wait object was not released: wait_for_all would hang");
}

int main(void) {
  vp_scan(0, NELEM, GRAIN);
  VP_ASSERT(cancelled, "VP: CANCEL point beyond the end of the run (scenario does not cancel)");
  VP_ASSERT(n_notify == n_waits && n_waits >= 1, "wait released not exactly once per wait");
  /* the two leak assertions (known finding) */
  VP_ASSERT(n_alloc == n_free, "scan: tree node or task never freed after cancellation");
  for (unsigned i = 1; i < MAXB; i++) if (i < n_bodies)
    VP_ASSERT(destroyed[i], "scan: Body copy owned by parallel_scan never destroyed after cancellation");
  VP_REACHED();
}

/* C03: real parallel_for / parallel_deterministic_reduce (simple_partitioner, one leaf task per element) on the real dispatcher
 * loop, one model thread.  ALGO 1: parallel_for over [0,N)   ALGO 2: parallel_deterministic_reduce   ALGO 3: parallel_reduce
 * Which element's body invocation throws is symbolic (THROW mask: every subset of the N elements). */
#define NTASKMEM 32
#include "w.h"
#include "vp.h"
#include "h_stubs.h"
#define VP_CHECK(c, msg) do { VP_ASSERT(c, msg); __CPROVER_assume(c); } while (0)

u32 THROW; u8 ti_user;
int runs[16]; int nthrown; u8* thrown0; u8* caught_at_wait; int captured; int wait_seen, wait_threw;
int n_released;                 /* wait_context reached zero (r1::notify_waiters is cut: nobody sleeps in the one-thread world) */
void _ZN3tbb6detail2r114notify_waitersEm(u64 wait_ctx_addr) { n_released++; }
/* life cycle of Range (kind 0) and Body (kind 1) objects, keyed by address */
#define MAXLIVE 40
u8* live_at[2][MAXLIVE]; int n_live[2], n_ctor[2], n_dtor[2], n_split[2];
void vp_obj_ctor(u32 kind, u8* at, u32 how) {
  VP_CHECK(kind < 2, "VP: kind");
  int slot = -1;
  for (int k = 0; k < MAXLIVE; k++) { VP_CHECK(live_at[kind][k] != at, "an object was constructed on top of a live object of the same type"); if (slot < 0 && live_at[kind][k] == 0) slot = k; }
  VP_CHECK(slot >= 0, "VP bound: live objects");
  live_at[kind][slot] = at; n_live[kind]++; n_ctor[kind]++; if (how == 2) n_split[kind]++;
}
void vp_obj_dtor(u32 kind, u8* at) {
  VP_CHECK(kind < 2, "VP: kind");
  int hit = 0;
  for (int k = 0; k < MAXLIVE; k++) if (live_at[kind][k] == at) { live_at[kind][k] = 0; hit++; }
  VP_CHECK(hit == 1, "a Range/Body object was destroyed twice or destroyed without having been constructed");
  n_live[kind]--; n_dtor[kind]++;
}
void vp_body(u32 i) {
  VP_CHECK(i < N, "body invoked on an element outside the range");
  VP_CHECK(runs[i] == 0, "an element was processed twice");
  runs[i]++;
  VP_CHECK(!wait_seen, "a body invocation started after the algorithm call had returned");
  VP_CHECK(!captured, "a body invocation started although an exception of this algorithm call had already been captured");
  if ((THROW >> i) & 1) { vp_throw_user(&ti_user); if (!nthrown) thrown0 = vp_exc; nthrown++; captured = 1; }
}
/* user constructors (Range copy / Range split / Body copy) executed by the library while it creates tasks: the k-th such call throws
   (CTHROW mask over the global call index; 0 unless the harness is built with -DCTOR).  Calls 0 and 1 are the copies made for the root
   task inside start_for::run, before any wait exists. */
u32 CTHROW; int n_ctor_calls, ctor_threw, ctor_threw_pre_root;
void vp_may_throw_ctor(u32 kind) {
  int idx = n_ctor_calls++;
  VP_CHECK(!wait_seen, "a user constructor was called after the algorithm call had returned");
  if (idx < 16 && ((CTHROW >> idx) & 1)) {
    vp_throw_user(&ti_user); if (!nthrown) thrown0 = vp_exc; nthrown++; captured = 1; ctor_threw = 1; if (idx < 2) ctor_threw_pre_root = 1; }
}
void vp_join(u32 llo, u32 lhi, u32 rlo, u32 rhi) {
  VP_CHECK(!captured, "join called although the group had been cancelled by an exception");
  VP_CHECK(!wait_seen, "join after the call returned");
  if ((int)llo >= 0 && (int)rlo >= 0) VP_CHECK(lhi == rlo, "join of non-adjacent partial results");
}
int users_gone, reduce_ok = -1;
void vp_note(u32 what, u32 arg) {
  if (what == 1) caught_at_wait = vp_exc_current();
  if (what == 3) users_gone = 1;
  if (what == 4) reduce_ok = (int)arg;
}
void vp_wait_result(u32 g, u32 st, u32 threw, u32 unused) {
  wait_seen++; wait_threw = (int)threw;
  VP_ASSERT(wait_seen == 1, "wait reported twice");
  VP_ASSERT((int)threw == (nthrown > 0), "the algorithm call must rethrow iff a body threw (exception swallowed or invented)");
  VP_ASSERT(nthrown <= 1, "a second body invocation threw: the group was not stopped");
  if (threw) VP_ASSERT(caught_at_wait == thrown0 && thrown0 != 0, "the exception rethrown is not the one thrown by the body");
  VP_ASSERT(n_released == (ctor_threw_pre_root ? 0 : 1), "the wait_context of the call must be released exactly once");
  VP_ASSERT(vp_pool_left() == 0, "tasks left in the pool when the call returned");
  if (!ctor_threw) VP_ASSERT(n_task_alloc == n_task_free, "a task / tree node was leaked or released twice (checked when the call returns)");
  else {
    VP_ASSERT(n_task_alloc == n_task_free, "pfor: storage handed out by r1::allocate never released after a Range/Body constructor threw inside small_object_allocator::new_object (start_for under construction leaked)");
    VP_ASSERT(n_task_alloc - n_task_free <= 1, "pfor: more than the one allocation under construction was lost after a constructor threw (tree node / task leaked)");
  }
  VP_ASSERT(n_live[0] == 1 && n_live[1] == 1, "library-made Range/Body copies still alive (or the user's objects destroyed) when the call returned");
}
int main(void) {
  THROW = (u32)vp_nd_range(0, 65535) & ((1u << N) - 1);      /* which elements' body invocations throw: every subset */
#ifdef CTOR
  CTHROW = (u32)vp_nd_range(0, 65535);                        /* which Range copy / Range split / Body copy calls throw: every subset of the first 16 */
#endif
  vp_world_setup();
#if ALGO == 1
  vp_pfor(N);
#elif ALGO == 2
  vp_pdreduce(N);
  if (!wait_threw) VP_ASSERT(reduce_ok == 1, "the reduction did not cover [0,N) although nothing threw");
  if (!wait_threw) VP_ASSERT(n_split[1] == N - 1, "deterministic reduce: one split body per split");
#else
  vp_preduce(N);
  if (!wait_threw) VP_ASSERT(reduce_ok == 1, "the reduction did not cover [0,N) although nothing threw");
#endif
  VP_ASSERT(wait_seen == 1 && users_gone, "the call must return exactly once");
  if (!wait_threw) for (int i = 0; i < N; i++) VP_ASSERT(runs[i] == 1, "an element was skipped although nothing was cancelled");
  VP_ASSERT(n_live[0] == 0 && n_live[1] == 0 && n_ctor[0] == n_dtor[0] && n_ctor[1] == n_dtor[1], "every Range/Body copy is destroyed exactly once");
  VP_ASSERT(vp_exc == 0, "pending exception left behind");
  VP_ASSERT(vp_exc_destroyed == vp_exc_thrown, "an exception object was leaked or destroyed twice");
  VP_ASSERT(n_eptr_alloc == n_eptr_free, "tbb_exception_ptr storage leaked or freed twice");
  VP_ASSERT(vp_rethrows == (wait_threw && !ctor_threw_pre_root), "the captured exception is rethrown exactly once");
  VP_ASSERT(n_released == (ctor_threw_pre_root ? 0 : 1), "wait_context released exactly once");
  VP_REACHED();
  return 0;
}

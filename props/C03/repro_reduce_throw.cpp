// Native check of the two failures the reduce_throw task-bag harness reports on the unchanged tree (b-C06, for C03):
//  (A) a Range copy/split constructor throws inside small_object_allocator::new_object<start_reduce>(...): the storage
//      r1::allocate handed out is never given back (new_object has no guard) -> steady memory growth;
//  (B) Body::join throws inside fold_tree, which start_reduce::finalize calls AFTER this->~start_reduce() and BEFORE
//      deallocate(this): the exception leaves execute(), the dispatcher re-dispatches the same task through cancel(), which runs
//      finalize a second time on the already destroyed task (members destroyed twice, tree folded twice).
//   g++ -std=c++17 -O1 -I/repo/include repro_reduce_throw.cpp -L/repo/_build/gnu_12.2_cxx11_64_relwithdebinfo -ltbb \
//       -pthread -Wl,-rpath,/repo/_build/gnu_12.2_cxx11_64_relwithdebinfo -o repro && ./repro A; ./repro B
#include <oneapi/tbb/parallel_reduce.h>
#include <oneapi/tbb/global_control.h>
#include <atomic>
#include <chrono>
#include <cstdio>
#include <cstring>
#include <cstdlib>
#include <stdexcept>
#include <thread>
static std::atomic<long> r_made{0}, r_gone{0}, splits{0};
static int throw_split_at = -1; static bool throw_in_join = false, throw_in_body = false; static int spin_us = 0;
struct TRange {
  int b, e;
  TRange(int b_, int e_) : b(b_), e(e_) { ++r_made; }
  TRange(const TRange& r) : b(r.b), e(r.e) { ++r_made; }
  TRange(TRange& r, tbb::split) : b(0), e(r.e) {
    if (splits++ == throw_split_at) throw std::runtime_error("split");
    b = r.b + (r.e - r.b) / 2; r.e = b; ++r_made; }
  ~TRange() { ++r_gone; }
  bool empty() const { return !(b < e); }
  bool is_divisible() const { return e - b > 1; }
};
struct Body {
  long sum = 0;
  Body() {}
  Body(Body&, tbb::split) {}
  void operator()(const TRange& r) {
    if (throw_in_body) throw std::runtime_error("body");
    if (spin_us) { auto t0 = std::chrono::steady_clock::now(); while (std::chrono::steady_clock::now() - t0 < std::chrono::microseconds(spin_us)) {} }
    for (int i = r.b; i < r.e; ++i) sum += i; }
  void join(Body& o) { if (throw_in_join) throw std::runtime_error("join"); sum += o.sum; }
};
static long rss_kb() { long size = 0, res = 0; FILE* f = std::fopen("/proc/self/statm", "r"); if (f) { if (std::fscanf(f, "%ld %ld", &size, &res) != 2) res = 0; std::fclose(f); } return res * 4; }
static long loop(int iters) {
  long before = rss_kb();
  for (int i = 0; i < iters; i++) { splits = 0; Body b; try { tbb::parallel_reduce(TRange(0, 8), b, tbb::simple_partitioner()); } catch (std::runtime_error&) {} }
  return rss_kb() - before;
}
int main(int argc, char** argv) {
  std::setvbuf(stdout, nullptr, _IONBF, 0);
  bool only_b = argc > 1 && !std::strcmp(argv[1], "B"), only_a = argc > 1 && !std::strcmp(argv[1], "A");
  int bad = 0;
  if (!only_b) { // (A) one thread, 300000 calls each
    tbb::global_control gc(tbb::global_control::max_allowed_parallelism, 1);
    throw_in_body = true; throw_split_at = -1; long g0 = loop(300000);      // control: operator() throws (clean-up is complete)
    throw_in_body = false; throw_split_at = 0; long g1 = loop(300000);      // first Range split constructor throws
    std::printf("(A) RSS growth over 300000 calls: body throws %ld kB, Range split constructor throws %ld kB\n", g0, g1);
    if (g1 > g0 + 20000) { std::printf("    LEAK: storage of the start_reduce whose constructor threw is never released\n"); bad |= 1; }
    throw_split_at = -1;
  }
  if (!only_a) { // (B) four threads, stealing forced by slow leaves, join throws
    tbb::global_control gc(tbb::global_control::max_allowed_parallelism, 4);
    throw_in_join = true; spin_us = 200; long worst = 0;
    static std::atomic<int> cur_rep{0}, progress{0};
    std::thread watchdog([] { int last = -1; for (;;) { std::this_thread::sleep_for(std::chrono::seconds(10)); int p = progress.load();
      if (p == last) { std::printf("(B) rep %d: parallel_reduce did not return within 10 s after Body::join threw (HANG); Range objects constructed %ld, destructor calls %ld\n",
                                   cur_rep.load(), r_made.load(), r_gone.load()); std::_Exit(2); } last = p; } });
    watchdog.detach();
    for (int rep = 0; rep < 200; rep++) {
      cur_rep = rep; ++progress; r_made = 0; r_gone = 0; Body b; int caught = 0;
      try { tbb::parallel_reduce(TRange(0, 64), b, tbb::simple_partitioner()); } catch (std::runtime_error&) { caught = 1; }
      std::this_thread::sleep_for(std::chrono::milliseconds(2));
      long d = r_gone.load() - r_made.load();
      if (d != 0 && worst == 0) std::printf("(B) rep %d: exception %s, Range objects constructed %ld, destructor calls %ld\n", rep, caught ? "caught" : "none", r_made.load(), r_gone.load());
      if (d > worst) worst = d;
    }
    if (worst > 0) { std::printf("    DOUBLE DESTRUCTION: up to %ld more destructor calls than constructed Range objects\n", worst); bad |= 2; }
    else std::printf("(B) no imbalance observed\n");
  }
  return bad;
}

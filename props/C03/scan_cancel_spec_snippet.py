# Snippet for props/C03/spec.py (prepared by b-C06): parallel_scan under cancellation = KNOWN FINDING.
# On the unchanged tree every query below FAILS with exactly these assertion texts (and nothing else), replayed natively:
#   "scan: tree node or task never freed after cancellation"                      (all four scenarios)
#   "scan: Body copy owned by parallel_scan never destroyed after cancellation"    (CANCEL >= 4)
# known_findings.txt lines (define=- : the failing assertion itself is the known one):
#   known: property=C03 harness=scan_cancel assertion="scan: tree node or task never freed after cancellation" define=- :: parallel_scan: finish_scan::cancel()/sum_node::cancel() abandon the sum_node/final_sum tree when the group is cancelled (body threw / enclosing group cancelled); native: props/C03/repro_scan_cancel_leak.cpp
#   known: property=C03 harness=scan_cancel assertion="scan: Body copy owned by parallel_scan never destroyed after cancellation" define=- :: parallel_scan: Body copies inside leaked final_sum objects (m_left_sum, right zombie; temp_body when execute_and_wait throws) are never destructed; native: props/C03/repro_scan_cancel_leak.cpp
# Files: props/C03/w_scan_cancel.cpp, props/C03/h_scan_cancel.c (no dependency on props/C06).

# --- add to UNITS ---
UNITS_SNIPPET = {
  'scan_cancel': dict(wrapper='w_scan_cancel.cpp', mode='seq', cxxflags=['-DVP_PART=simple_partitioner']),   # built with -fno-exceptions: cancellation, not the throw, is modelled
}

# --- add to HARNESSES ---
HARNESSES_SNIPPET = [
  dict(name='scan_cancel', unit='scan_cancel', harness='h_scan_cancel.c',
       # arrays up to 256 bytes stay field-sensitive: the 128/192-byte scan task objects are untyped and must constant-fold
       cbmc=['--unwind', '13', '--max-field-sensitivity-array-size', '256'],
       native_cflags=['-fno-sanitize=null'],     # generated C computes &((T*)0)->f0 for C++ upcasts of a null task pointer
       tiers=['quick', 'thorough'], timeout=600, mem_gb=6,
       # one query = one concrete task order; CANCEL k = group cancelled just before the k-th observation point (task dispatch / context poll)
       scenarios=[{'NELEM': 3, 'GRAIN': 1, 'CANCEL': c, 'NESTMASK': nm, 'DRAIN': 0, 'STOLEN': 255} for c in (2, 4, 6, 8) for nm in (0, 1)],
       desc='parallel_scan(blocked_range<int>(0,3,1), free-monoid Body, simple_partitioner) cancelled just before the k-th observation point: '
            'real start_scan/finish_scan/sum_node/final_sum run by a sequential task bag (r1:: entry points stubbed); the dispatcher calls '
            'cancel() on every task after the cancellation. Oracle: everything allocated is freed, every Body copy destroyed exactly once, '
            'no pass on a destroyed body / with a wrong prefix / after cancellation, waits released exactly once. KNOWN FINDING: the tree '
            '(sum_node, final_sum) is leaked.',
       bounds={'range': '3 elements, grain 1', 'partitioner': 'simple', 'cancel point': '2,4,6,8', 'task order': 'LIFO drain, all tasks stolen, with/without a task running during the first body invocation'}),
]

/* C03 / parallel_reduce with throwing user callbacks, stolen right children included (prepared by b-C06; self-contained
 * adaptation of props/C06/h_reduce.c, unit built WITH exceptions, wrapper w_reduce_throw.cpp).
 * The real start_reduce::execute/cancel/finalize/offer_work, reduction_tree_node (zombie_space, has_right_zombie, join, dtor),
 * fold_tree and the partition types run under a sequential task bag that stands in for the scheduler. The r1:: entry points
 * below are the only stubs; the dispatcher's catch handler is modelled as the real one behaves (props/C03/NOTES.md): an
 * exception leaving execute() is captured once (first one wins), the group is cancelled, and the SAME task is re-dispatched
 * through cancel(); every task dispatched afterwards gets cancel(); execute_and_wait rethrows the captured exception.
 * Tasks are atomic except that, while a task is inside the user body, the harness may run other tasks of the bag to completion
 * (NEST levels deep): a thief running the right child while the left sibling is still unfinished => m_ref_count==2 => the
 * right child constructs a split Body in the parent's zombie_space and flags has_right_zombie.
 * Concrete per query (enumerated by the runner): range [0,NELEM) grain GRAIN, task order (DRAIN bit s: s-th task taken by the
 * drain loop is the oldest/newest; NESTMASK bit h: during the h-th body invocation NESTK other tasks run, NESTPOL oldest/
 * newest; STOLEN bit i: i-th taken task counts as stolen), and THROWAT k: the k-th user callback (global count over Body split
 * constructor, Body::operator(), Body::join, Range split constructor, Range copy constructor; KINDS masks which kinds count)
 * throws; 0 = nothing throws. KINDS=0x03 (Body split constructor, operator()) passes on the unchanged tree. Known findings
 * (separate harness entries, see reduce_throw_spec_snippet.py and repro_reduce_throw.cpp): KINDS=0x18 (a Range copy/split
 * constructor throws inside small_object_allocator::new_object: the allocated storage is never released) and KINDS=0x04
 * (Body::join throws inside fold_tree, called by finalize after the task destroyed itself).
 * Oracle: a destructor only ever runs on storage where a constructor completed, every library-made Body/Range copy is
 * destroyed exactly once and none is alive when the call returns; no constructor on storage that holds a live object; every
 * task / tree node freed exactly once (cbmc: double free, use after free); wait released exactly once and only with an empty
 * bag; exactly one exception captured iff one was thrown, it is the thrown one, the caller catches it exactly once and the
 * exception object is released exactly once; no body invocation starts and no join runs after the capture; without a throw the
 * result is the in-order fold. */
#include "w.h"
#include "vp.h"
#ifndef NELEM
#define NELEM 3
#endif
#ifndef GRAIN
#define GRAIN 1
#endif
#ifndef NEST
#define NEST 1
#endif
#ifndef NESTK
#define NESTK 1
#endif
#ifndef NESTMASK
#define NESTMASK 0
#endif
#ifndef NESTPOL
#define NESTPOL 1
#endif
#ifndef DRAIN
#define DRAIN 0
#endif
#ifndef STOLEN
#define STOLEN 255
#endif
#ifndef THROWAT
#define THROWAT 0
#endif
#ifndef KINDS
#define KINDS 0x03     /* bit (kind-1): 1 Body split ctor, 2 operator(), 3 join, 4 Range split ctor, 5 Range copy ctor */
#endif
#ifndef MAXCONC
#define MAXCONC 2
#endif
#define MAXT 12
#define MAXCHAIN 4
#define MAXOBJ 24
typedef struct S_class_tbb__detail__d1__task task_t;
typedef struct S_class_tbb__detail__d1__task_group_context ctx_t;
typedef struct S_struct_tbb__detail__d1__execution_data ed_t;
typedef struct S_class_tbb__detail__d1__small_object_pool pool_t;
typedef struct S_class_tbb__detail__d1__wait_context wait_t;
#define TASK_T struct S_struct_tbb__detail__d1__start_reduce
#define NODE_T struct S_struct_tbb__detail__d1__reduction_tree_node

#ifndef VP_NATIVE
/* word-wise memset model: cbmc's builtin rewrites the whole enclosing object byte-wise and defeats constant propagation of
   the task fields (clang merges adjacent zero-initialisations into small memsets). Native replay uses libc's memset. */
#define W1(i) if ((i) < n / 8) ((u64*)p)[i] = w;
#define W4(i) W1(i) W1(i + 1) W1(i + 2) W1(i + 3)
#define B1(i) if ((i) < n) ((u8*)p)[i] = (u8)c;
#define B4(i) B1(i) B1(i + 1) B1(i + 2) B1(i + 3)
#define B16(i) B4(i) B4(i + 4) B4(i + 8) B4(i + 12)
void* memset(void* p, int c, size_t n) {
  u64 w = (u8)c * 0x0101010101010101ull;
  if ((__CPROVER_POINTER_OFFSET(p) & 7) == 0 && (n & 7) == 0) { W4(0) W4(4) W4(8) W4(12) VP_ASSERT(n <= 128, "VP: memset longer than modelled"); }
  else { B16(0) B16(16) B16(32) B16(48) VP_ASSERT(n <= 64, "VP: memset longer than modelled"); }
  return p;
}
#endif
static task_t* bag[MAXT]; static unsigned nbag;
static ctx_t* run_ctx; static wait_t* run_wait;
static unsigned depth, cur_slot, n_hooks, n_drain, n_dispatch;
static unsigned n_alloc, n_free, n_notify, n_tasks_run, n_waits;
static int cancelled;                 /* the group is cancelled (only ever by the dispatcher's catch handler here) */
static u64 dummy_pool;
/* exceptions */
static u8 ti_user;                    /* type token of the user exception */
static unsigned n_user_calls, n_thrown, n_captured, n_caught_by_caller;
static u8* thrown_obj; static u8* captured_obj; static unsigned in_dispatch, thrown_in_task;
/* live user objects by storage address */
static u8* obj_addr[MAXOBJ]; static u8 obj_kind[MAXOBJ];   /* kind 1 = Body, 2 = Range; 0 = free slot */
static unsigned n_body_made, n_body_dtor, n_range_made, n_range_dtor, n_bodies = 1;
static int body_destroyed[MAXT], body_joined[MAXT], body_active[MAXT], split_from[MAXT];

static void obj_made(u8* a, u8 kind) {
  int done = 0;
  for (int i = 0; i < MAXOBJ; i++) VP_ASSERT(!(obj_kind[i] && obj_addr[i] == a), "constructor ran on storage that still holds a live object");
  for (int i = 0; i < MAXOBJ; i++) if (!done && !obj_kind[i]) { obj_kind[i] = kind; obj_addr[i] = a; done = 1; }
  VP_ASSERT(done, "VP bound: live user objects");
}
static int obj_live(u8* a, u8 kind) { int l = 0; for (int i = 0; i < MAXOBJ; i++) if (obj_kind[i] == kind && obj_addr[i] == a) l = 1; return l; }
static void obj_gone(u8* a, u8 kind) {
  int hit = 0;
  for (int i = 0; i < MAXOBJ; i++) if (obj_kind[i] == kind && obj_addr[i] == a) { obj_kind[i] = 0; obj_addr[i] = 0; hit++; }
  VP_ASSERT(hit == 1, "destructor ran on storage where no constructor completed (never constructed, or destroyed twice)");
}

/* ---- user-callback observers (called from the wrapper's Body / TRange) ---- */
void vp_may_throw_user(u32 kind) {            /* the only entry that may throw */
  VP_ASSERT(kind >= 1 && kind <= 5, "VP: callback kind");
  if (!((KINDS >> (kind - 1)) & 1)) return;
  n_user_calls++;
  if (THROWAT && n_user_calls == THROWAT) {
    VP_ASSERT(n_thrown == 0, "VP: second throw");
    vp_throw_user(&ti_user); thrown_obj = vp_exc; n_thrown++; thrown_in_task = in_dispatch > 0;
  }
}
void vp_body_made(u8* addr, u32 id, u32 from) {
  VP_ASSERT(id < MAXT && from < id, "VP bound: body ids");
  VP_ASSERT(id == n_bodies, "body ids not consecutive");
  if (from < MAXT) VP_ASSERT(!body_joined[from] && !body_destroyed[from], "body split off a body that was already joined away / destroyed");
  if (id < MAXT) { split_from[id] = (int)from; n_bodies = id + 1; }
  n_body_made++; obj_made(addr, 1);
}
void vp_body_dtor(u8* addr, u32 id) {
  n_body_dtor++; obj_gone(addr, 1);       /* the user's own body is not tracked: destroying it fails here as well */
  if (id >= 1 && id < MAXT) {
    VP_ASSERT(!body_active[id], "body destroyed while running");
    body_destroyed[id] = 1;
  }
}
void vp_range_made(u8* addr) { n_range_made++; obj_made(addr, 2); }
void vp_range_dtor(u8* addr) { n_range_dtor++; obj_gone(addr, 2); }
static void run_some(void);
void vp_body_run(u32 id, u32 b, u32 e) {
  VP_ASSERT(!cancelled, "a body invocation started after the dispatcher had captured an exception of the group");
  VP_ASSERT(id < n_bodies && !body_joined[id] && !body_destroyed[id], "body applied after it was joined away / destroyed");
  VP_ASSERT((int)b < (int)e && (int)b >= 0 && (int)e <= NELEM, "body applied to an empty or foreign range");
  if (id < MAXT) body_active[id]++;
  { unsigned h = n_hooks++;
    if (depth < NEST && (NESTMASK >> h & 1)) { depth++; run_some(); depth--; } }   /* other threads make progress while this body runs */
  if (id < MAXT) body_active[id]--;
}
void vp_body_join(u32 into, u32 from) {
  VP_ASSERT(into < n_bodies && from < n_bodies && from != 0, "join on something that is not a live split-off body");
  if (into < MAXT && from < MAXT) {
    VP_ASSERT(split_from[from] == (int)into, "a split-off body was joined into a body it was not split from");
    VP_ASSERT(!body_joined[from], "split-off body joined twice");
    VP_ASSERT(!body_destroyed[from] && !body_destroyed[into] && !body_joined[into], "join with a destroyed / already joined body");
    VP_ASSERT(!body_active[from] && !body_active[into], "join while one of the two bodies is still being run");
    VP_ASSERT(!cancelled, "join performed although the group had been cancelled by an exception");
    body_joined[from] = 1;
  }
}
void vp_note_caught(void) { n_caught_by_caller++; VP_ASSERT(vp_exc_current() == thrown_obj && thrown_obj != 0, "the caller caught something else than the exception the user code threw"); }

/* ---- r1:: entry points = the scheduler model ---- */
void _ZN3tbb6detail2r110initializeERNS0_2d118task_group_contextE(ctx_t* c) { vp_ctx_initialize(c); }
void _ZN3tbb6detail2r17destroyERNS0_2d118task_group_contextE(ctx_t* c) {}
static u8* alloc_obj(pool_t** pool, u64 n) {
  u8* p;
  *pool = (pool_t*)&dummy_pool; n_alloc++;
  VP_ASSERT(n == sizeof(TASK_T) || n == sizeof(NODE_T), "VP: allocation of an unexpected size");
  if (n == sizeof(TASK_T)) p = malloc(sizeof(TASK_T)); else p = malloc(sizeof(NODE_T));   /* typed objects: fields stay constants for symex */
  __CPROVER_assume(p != 0); return p;
}
u8* _ZN3tbb6detail2r18allocateERPNS0_2d117small_object_poolEm(pool_t** pool, u64 n) { return alloc_obj(pool, n); }
u8* _ZN3tbb6detail2r18allocateERPNS0_2d117small_object_poolEmRKNS2_14execution_dataE(pool_t** pool, u64 n, ed_t* ed) { return alloc_obj(pool, n); }
void _ZN3tbb6detail2r110deallocateERNS0_2d117small_object_poolEPvmRKNS2_14execution_dataE(pool_t* pool, u8* p, u64 n, ed_t* ed) {
  VP_ASSERT(pool == (pool_t*)&dummy_pool, "deallocate with a pool that allocate never handed out");
  n_free++; free(p); }
void _ZN3tbb6detail2r110deallocateERNS0_2d117small_object_poolEPvm(pool_t* pool, u8* p, u64 n) {
  VP_ASSERT(pool == (pool_t*)&dummy_pool, "deallocate with a pool that allocate never handed out");
  n_free++; free(p); }
void _ZN3tbb6detail2r15spawnERNS0_2d14taskERNS2_18task_group_contextE(task_t* t, ctx_t* c) {
  VP_ASSERT(c == run_ctx, "task spawned into a foreign context");
  VP_ASSERT(nbag < MAXT, "VP bound: bag capacity");
  if (nbag < MAXT) bag[nbag++] = t; }
void _ZN3tbb6detail2r15spawnERNS0_2d14taskERNS2_18task_group_contextEt(task_t* t, ctx_t* c, u16 slot) {
  _ZN3tbb6detail2r15spawnERNS0_2d14taskERNS2_18task_group_contextE(t, c); }
u16 _ZN3tbb6detail2r114execution_slotEPKNS0_2d114execution_dataE(ed_t* ed) { return (u16)cur_slot; }
u32 _ZN3tbb6detail2r115max_concurrencyEPKNS0_2d115task_arena_baseE(struct S_class_tbb__detail__d1__task_arena_base* a) { return MAXCONC; }
u8 _ZN3tbb6detail2r128is_group_execution_cancelledERNS0_2d118task_group_contextE(ctx_t* c) {
  VP_ASSERT(c == run_ctx, "cancellation asked about a foreign context");
  return (u8)cancelled; }
void _ZN3tbb6detail2r114notify_waitersEm(u64 addr) { VP_ASSERT(addr == (u64)run_wait, "notify for a foreign wait object"); n_notify++; }
/* externals of the exception-enabled build that no path of this model may reach */
void vpx___cxa_pure_virtual(void) { VP_ASSERT(0, "pure virtual call"); }
void _ZdlPv(u8* p) { VP_ASSERT(0, "VP: operator delete reached"); }
void _ZdlPvSt11align_val_t(u8* p, u64 a) { VP_ASSERT(0, "VP: operator delete reached"); }

/* the dispatcher's loop body for one task incl. its catch handler (task_dispatcher::local_wait_for_all) */
static void run_chain(task_t* t, ed_t* ed) {
  for (unsigned i = 0; i < MAXCHAIN; i++) if (t) {
    n_tasks_run++;
    if (cancelled) t = vp_task_cancel(t, ed);
    else {
      in_dispatch++;
      task_t* nx = vp_task_execute(t, ed);
      in_dispatch--;
      if (vp_exc) {                       /* catch (...): first capture wins, cancel the group, re-dispatch the same task through cancel() */
        /* the real dispatcher now calls t->cancel(): t must still be a live task. start_reduce::finalize destroys *this BEFORE it
           folds the tree, so an exception out of fold_tree (Body::join) leaves execute() with a dead task (known finding) */
        if (!obj_live(vp_task_range_addr(t), 2)) {
          VP_ASSERT(0, "reduce: exception left start_reduce::execute() after the task had destroyed itself (Body::join threw inside fold_tree called from finalize)");
          __CPROVER_assume(0);
        }
        n_captured++;
        VP_ASSERT(vp_exc == thrown_obj, "dispatcher caught something the user code did not throw");
        if (!captured_obj) captured_obj = vp_exc;
        vp_exc = 0; cancelled = 1;
        nx = t;
      }
      t = nx;
    }
    VP_ASSERT(vp_exc == 0, "an exception escaped cancel()");
    vp_exc = 0;
  }
  VP_ASSERT(t == 0, "VP bound: bypass chain longer than MAXCHAIN");
}
static void run_one(task_t* t) {
  ed_t ed;
  unsigned save = cur_slot;
  vp_ed_init(&ed, run_ctx);
  cur_slot = (STOLEN >> n_dispatch) & 1;  /* bit i: the i-th task taken from the bag runs on another slot than it was spawned from */
  n_dispatch++;
  run_chain(t, &ed);
  cur_slot = save;
}
static task_t* take(int oldest) {
  unsigned k = oldest ? 0 : nbag - 1;
  task_t* t = bag[k];
  for (unsigned i = 0; i + 1 < MAXT; i++) if (i >= k && i + 1 < nbag) bag[i] = bag[i + 1];
  nbag--;
  return t;
}
static void run_some(void) {
  for (unsigned i = 0; i < NESTK; i++) if (nbag > 0) run_one(take(NESTPOL));
}
void _ZN3tbb6detail2r116execute_and_waitERNS0_2d14taskERNS2_18task_group_contextERNS2_12wait_contextES6_(task_t* t, ctx_t* tc, wait_t* w, ctx_t* wc) {
  run_ctx = tc; run_wait = w; cur_slot = 0;
  { ed_t ed; vp_ed_init(&ed, run_ctx); run_chain(t, &ed); }   /* the root task is run by the calling thread, never stolen */
  n_waits++;
  for (unsigned s = 0; s < MAXT; s++) if (nbag > 0) { unsigned d = n_drain++; run_one(take(DRAIN >> d & 1)); }
  VP_ASSERT(nbag == 0, "VP bound: more tasks than the drain loop runs");
  VP_ASSERT(vp_wait_refs(w) == 0, "all tasks ran but the wait object was not released: wait_for_all would hang");
  if (captured_obj) vp_exc = captured_obj;   /* execute_and_wait rethrows the captured exception (the capture's reference travels with it) */
}

int main(void) {
  vp_reduce(0, NELEM, GRAIN);
  VP_ASSERT(vp_exc == 0, "an exception escaped the caller's catch");
  VP_ASSERT(n_waits == 0 || n_notify == 1, "wait released not exactly once");
  VP_ASSERT(n_alloc == n_free, "reduce: storage handed out by r1::allocate never released (task / tree node leaked)");
  for (int i = 0; i < MAXOBJ; i++) VP_ASSERT(!obj_kind[i], "a Body / Range copy made by the library is still alive when the call returned (never destroyed)");
  VP_ASSERT(n_body_made == n_body_dtor && n_range_made == n_range_dtor, "constructor / destructor counts differ");
  VP_ASSERT(n_captured == thrown_in_task, "number of exceptions captured by the dispatcher differs from the number thrown inside tasks");
  VP_ASSERT(n_caught_by_caller == n_thrown, "the caller of parallel_reduce did not get the thrown exception exactly once");
  VP_ASSERT(vp_exc_thrown == (int)n_thrown && vp_exc_destroyed == (int)n_thrown, "exception object not released exactly once");
  if (!n_thrown) {
    u64 expect = 0;
    for (unsigned i = 0; i < NELEM; i++) expect = (expect << 4) | ((i + 1) & 15);
    VP_ASSERT(!cancelled, "group cancelled although nothing threw");
    VP_ASSERT(vp_result_len() == NELEM && vp_result_seq() == expect, "result is not the left-to-right fold");
    for (unsigned i = 1; i < MAXT; i++) if (i < n_bodies) VP_ASSERT(body_joined[i], "split-off body never joined back: its partial result is lost");
  }
  VP_REACHED();
}

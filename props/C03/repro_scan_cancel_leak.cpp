// Standalone reproducer (found by the C06 scan_bag harness with CANCEL scenarios; outside the C06 statement, see NOTES.md):
// when a parallel_scan is cancelled (its body throws, or an enclosing task group is cancelled), finish_scan::cancel() only
// folds the reference counts; the sum_node it owns (m_result) and the final_sum objects hanging off it (m_left_sum,
// m_right_zombie) are never destroyed: the copies of the user's Body inside them are never destructed and their
// small-object memory is not returned.
//   g++ -std=c++17 -O1 -I/repo/include repro_scan_cancel_leak.cpp -L/repo/_build/gnu_12.2_cxx11_64_relwithdebinfo -ltbb \
//       -Wl,-rpath,/repo/_build/gnu_12.2_cxx11_64_relwithdebinfo -o repro && ./repro
#include <oneapi/tbb/parallel_scan.h>
#include <oneapi/tbb/blocked_range.h>
#include <oneapi/tbb/global_control.h>
#include <atomic>
#include <cstdio>
#include <stdexcept>
static std::atomic<int> live{0}, made{0}, calls{0};
static int throw_at = -1;
struct Body {
  long sum = 0;
  Body() { ++live; ++made; }
  Body(Body&, tbb::split) { ++live; ++made; }
  ~Body() { --live; }
  template <typename Tag> void operator()(const tbb::blocked_range<int>& r, Tag) {
    if (calls++ == throw_at) throw std::runtime_error("boom");
    for (int i = r.begin(); i != r.end(); ++i) sum += i;
  }
  void reverse_join(Body& a) { sum += a.sum; }
  void assign(Body& b) { sum = b.sum; }
};
static int run(int nthreads, int n, int at) {
  tbb::global_control gc(tbb::global_control::max_allowed_parallelism, nthreads);
  live = 0; made = 0; calls = 0; throw_at = at;
  int caught = 0;
  {
    Body b;
    try { tbb::parallel_scan(tbb::blocked_range<int>(0, n, 1), b, tbb::simple_partitioner()); }
    catch (std::runtime_error&) { caught = 1; }
  }
  std::printf("threads=%d n=%d throw_at=%d: exception %s, Body objects constructed=%d, still alive after the call=%d\n",
              nthreads, n, at, caught ? "caught" : "none", made.load(), live.load());
  return live.load();
}
int main() {
  int bad = 0;
  bad += run(1, 8, -1) != 0;        // no exception: balanced
  for (int at = 0; at < 6; at++) bad += run(1, 8, at) != 0;
  bad += run(4, 1000, 3) != 0;
  std::printf(bad ? "LEAK: Body copies owned by parallel_scan were never destroyed\n" : "balanced\n");
  return bad ? 1 : 0;
}

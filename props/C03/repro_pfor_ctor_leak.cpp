// Native check of the failure harness pfor_ctor_throw reports on the unchanged tree: a Range split (or copy) constructor or the Body copy
// constructor throws inside small_object_allocator::new_object<start_for>(...) (start_for::offer_work_impl / start_for::run): the storage
// r1::allocate handed out is never given back (new_object has no guard around the placement new) -> steady memory growth per call.
//   g++ -std=c++17 -O1 -I/repo/include repro_pfor_ctor_leak.cpp -L/repo/_build/gnu_12.2_cxx11_64_relwithdebinfo -ltbb -pthread \
//       -Wl,-rpath,/repo/_build/gnu_12.2_cxx11_64_relwithdebinfo -o repro && ./repro
#include <oneapi/tbb/parallel_for.h>
#include <oneapi/tbb/global_control.h>
#include <cstdio>
#include <stdexcept>
static long splits = 0; static int throw_split_at = -1; static bool throw_in_body = false;
struct TRange {
  int b, e;
  TRange(int b_, int e_) : b(b_), e(e_) {}
  TRange(const TRange& r) : b(r.b), e(r.e) {}
  TRange(TRange& r, tbb::split) : b(0), e(r.e) { if (splits++ == throw_split_at) throw std::runtime_error("split"); b = r.b + (r.e - r.b) / 2; r.e = b; }
  bool empty() const { return !(b < e); }
  bool is_divisible() const { return e - b > 1; }
};
struct Body { void operator()(const TRange&) const { if (throw_in_body) throw std::runtime_error("body"); } };
static long rss_kb() { long size = 0, res = 0; FILE* f = std::fopen("/proc/self/statm", "r"); if (f) { if (std::fscanf(f, "%ld %ld", &size, &res) != 2) res = 0; std::fclose(f); } return res * 4; }
static long run(int n) {
  long before = rss_kb(), caught = 0;
  for (int i = 0; i < n; i++) { splits = 0; try { tbb::parallel_for(TRange(0, 8), Body(), tbb::simple_partitioner()); } catch (std::runtime_error&) { caught++; } }
  if (caught != n) std::printf("unexpected: %ld of %d calls threw\n", caught, n);
  return rss_kb() - before;
}
int main() {
  tbb::global_control gc(tbb::global_control::max_allowed_parallelism, 1);
  throw_in_body = true; throw_split_at = -1; run(1000); long g0 = run(300000);
  throw_in_body = false; throw_split_at = 0; long g1 = run(300000);
  std::printf("RSS growth over 300000 parallel_for calls: body throws %ld kB, first Range split constructor throws %ld kB\n", g0, g1);
  return g1 > g0 + 10000 ? 1 : 0;
}

/* C03: real task_group on the real dispatcher loop, one model thread.
 * SCEN 1: run x N, wait [, reuse: run, wait]   SCEN 2: run x N + run_and_wait   SCEN 3: nested group inside a task
 * SCEN 4: a task of the outer group throws inside the nested wait of an inner group (cancellation must reach the child groups)
 * Which body invocations throw is symbolic (THROW mask). */
#include "w.h"
#include "vp.h"
#include "h_stubs.h"
/* oracle check inside an observer: a path that violated it is reported and not followed any further (a re-executed task would otherwise spin in the dispatcher) */
#define VP_CHECK(c, msg) do { VP_ASSERT(c, msg); __CPROVER_assume(c); } while (0)

/* ---- observers / oracle state.  Body ids: group 0: 0..N-1 (SCEN 2: N = the run_and_wait body; SCEN 3: 0,1 outer), inner group: 10.., reuse: 100 */
u32 THROW;                       /* bit per body id (see bit()) */
int runs[128];
u8 ti_user;                      /* type token of the user exception */
#define MAXT 4
u8* thrown[MAXT]; int thrown_grp[MAXT]; int nthrown; int grp_threw[3];
int wait_threw[3], wait_status[3], wait_seen[3];
u8* caught_at_wait[3];
static int bit(u32 i) { return i == 100 ? 7 : i == 20 ? 5 : (i >= 10 ? 4 + (int)(i - 10) : (int)i); }
static int grp(u32 i) {
#if SCEN == 3
  return i >= 10 && i < 100;      /* inner group = 1 */
#elif SCEN == 4
  return i == 20 ? 2 : i == 10 ? 1 : 0;
#else
  return i == 100;                /* reuse phase counted as group slot 1 */
#endif
}
void vp_body(u32 i) {
  int g = grp(i);
  VP_CHECK(i < 128, "VP: body id");
  VP_CHECK(runs[i] == 0, "a task body ran twice");
  runs[i]++;
  VP_CHECK(!wait_seen[g], "a body of the group started after the wait for that group had returned");
  VP_CHECK(!grp_threw[g], "a body started although an exception of the same group had already been captured (group not cancelled)");
#if SCEN == 3 || SCEN == 4
  if (g >= 1) VP_CHECK(!grp_threw[0], "a body of a nested group started although the enclosing group had already captured an exception");
#endif
#if SCEN == 1
  if (i == 100) VP_CHECK(wait_seen[0] == 1, "reuse body ran before the first wait returned");
#endif
#if SCEN == 4
  int th = (i == 2) ? XT : (int)((THROW >> bit(i)) & 1);      /* X: concrete per query */
#else
  int th = (int)((THROW >> bit(i)) & 1);
#endif
  if (th) {
    VP_CHECK(nthrown < MAXT, "VP bound: number of throws");
    vp_throw_user(&ti_user); thrown[nthrown] = vp_exc; thrown_grp[nthrown] = g; nthrown++; grp_threw[g] = 1;
  }
}
void vp_note(u32 what, u32 g) {
  if (what == 1) caught_at_wait[g] = vp_exc_current();
#if SCEN == 3
  /* the enclosing task lets the inner wait's exception escape: it becomes an exception of the enclosing group's work */
  if (what == 2) { grp_threw[0] = 1; VP_CHECK(nthrown < MAXT, "VP bound: number of throws"); thrown[nthrown] = vp_exc_current(); thrown_grp[nthrown] = 0; nthrown++; }
#endif
}
void vp_wait_result(u32 g, u32 st, u32 threw, u32 cancelled_after) {
  wait_seen[g]++; wait_status[g] = (int)st; wait_threw[g] = (int)threw;
  VP_CHECK(wait_seen[g] == 1, "wait reported twice");
  VP_CHECK((int)threw == grp_threw[g], "wait must rethrow iff work of the group threw (exception swallowed or invented)");
  if (threw) {
    int ok = 0;
    for (int k = 0; k < MAXT; k++) ok |= (k < nthrown) & (thrown_grp[k] == (int)g) & (thrown[k] == caught_at_wait[g]);   /* (branch-free: no path fork) */
    VP_CHECK(ok, "the exception rethrown by wait is not one thrown by the group's work");
  } else if (SCEN == 4 && g >= 1 && grp_threw[0]) {
    VP_CHECK(st == 2, "wait of a nested group whose enclosing group was cancelled by an exception must report canceled");
  } else {
    VP_CHECK(st == 1, "wait without exception/cancellation must report complete");
  }
  VP_CHECK(!cancelled_after, "the group's context is still cancelled after wait (group not reusable)");
  VP_CHECK(vp_pool_left() == 0 || ((SCEN == 3 || SCEN == 4) && g >= 1), "tasks left in the pool when the wait returned");
  grp_threw[g] = 0;   /* the group is reusable from here on */
}
int main(void) {
#if SCEN == 1
#define TMASK (((1u << N) - 1) | (REUSE ? 0x80u : 0u))
#elif SCEN == 2
#define TMASK ((1u << (N + 1)) - 1)
#elif SCEN == 3
#define TMASK (3u | (((1u << N) - 1) << 4))
#elif SCEN == 4
#define TMASK (2u | 16u | 32u)      /* whether X (bit 2) throws is concrete per query (XT), the other three are symbolic */
#else
#define TMASK 1u
#endif
  THROW = (u32)vp_nd_range(0, 255) & TMASK;      /* which body invocations throw: every subset */
#ifdef DBG_THROW
  THROW = DBG_THROW;
#endif

  vp_world_setup();
#if SCEN == 0
  vp_probe(N);
#elif SCEN == 1
  vp_tg(N, REUSE);
  for (int i = 0; i < N; i++) VP_ASSERT(runs[i] == 1 || nthrown > 0, "a task was skipped although nothing was cancelled");
  if (REUSE) { VP_ASSERT(wait_seen[1] == 1, "second wait missing"); VP_ASSERT(runs[100] == 1, "group not reusable after the wait: new task was not run"); }
#elif SCEN == 2
  vp_tg_raw(N);
  for (int i = 0; i <= N; i++) VP_ASSERT(runs[i] == 1 || nthrown > 0, "a task was skipped although nothing was cancelled");
#elif SCEN == 3
  vp_tg_nested(N, CATCH);
  VP_ASSERT(wait_seen[1] <= 1, "inner wait");
  for (int i = 0; i < 2; i++) VP_ASSERT(runs[i] == 1 || nthrown > 0, "a task was skipped although nothing was cancelled");
#elif SCEN == 4
  vp_tg_outer_throw(0);
  VP_ASSERT(wait_seen[1] == 1 && wait_seen[2] == 1, "inner waits");
  if (nthrown == 0) VP_ASSERT(runs[1] == 1 && runs[2] == 1 && runs[10] == 1 && runs[20] == 1, "a task was skipped although nothing was cancelled");
#endif
#if SCEN != 0
  VP_ASSERT(wait_seen[0] == 1, "the wait must return exactly once");
  VP_ASSERT(vp_exc == 0, "pending exception left behind");
  VP_ASSERT(vp_pool_left() == 0, "tasks left in the pool after the wait");
  VP_ASSERT(vp_exc_destroyed == vp_exc_thrown, "an exception object was leaked or destroyed twice");
  VP_ASSERT(n_eptr_alloc == n_eptr_free, "tbb_exception_ptr storage leaked or freed twice");
  VP_ASSERT(n_task_alloc == n_task_free, "a task object was leaked or released twice");
  VP_ASSERT(vp_rethrows == wait_threw[0] + wait_threw[1] + wait_threw[2], "a captured exception is rethrown exactly once per wait that reports it");
#endif
  VP_REACHED();
  return 0;
}

/* C03: real task_group on the real dispatcher loop, one model thread.
 * SCEN 1: run x N, wait [, reuse: run, wait]   SCEN 2: run x N + run_and_wait   SCEN 3: nested group inside a task
 * Which body invocations throw is symbolic (THROW mask). */
#include "w.h"
#include "vp.h"
VP_DEFINE_EPTR_STUBS(struct S_class_std____exception_ptr__exception_ptr)
u32 _ZSt19uncaught_exceptionsv(void) { return 0; }
/* ---- oneTBB entry points outside this unit */
int n_alloc_mem, n_free_mem;
/* allocation: the 64-entry task pool (512 bytes) is handed out as a pointer-typed array (cbmc keeps arrays of <= 64 elements
   field-sensitive, so task pointers read back from the pool stay concrete during symbolic execution); everything else is a
   malloc'ed object (<= 256 bytes: --max-field-sensitivity-array-size 256 keeps vptrs readable) */
#define NPOOL 2
struct S_class_tbb__detail__d1__task* vp_pool[NPOOL][64] __attribute__((aligned(128))); int vp_pool_used;
u8* _ZN3tbb6detail2r122cache_aligned_allocateEm(u64 n) {
  if (n == 512) { VP_ASSERT(vp_pool_used < NPOOL, "VP bound: task pools"); return (u8*)vp_pool[vp_pool_used++]; }
  VP_ASSERT(n <= 256, "VP bound: allocation larger than expected in this scenario");
  u8* p = malloc(n); __CPROVER_assume(p != 0); return p; }
void _ZN3tbb6detail2r124cache_aligned_deallocateEPv(u8* p) {
  for (int i = 0; i < NPOOL; i++) if (p == (u8*)vp_pool[i]) return;
  free(p); }
u8* _ZN3tbb6detail2r115allocate_memoryEm(u64 n) { u8* p = malloc(n); __CPROVER_assume(p != 0); n_alloc_mem++; return p; }
void _ZN3tbb6detail2r117deallocate_memoryEPv(u8* p) { n_free_mem++; free(p); }
/* task storage (r1::allocate / r1::deallocate, small_object_pool.cpp is outside the unit): plain heap objects of the requested
   size; the pool handle only has to be non-null; allocations and releases are counted for the leak/double-free oracle */
int n_task_alloc, n_task_free; u8 vp_pool_token;
u8* _ZN3tbb6detail2r18allocateERPNS0_2d117small_object_poolEm(struct S_class_tbb__detail__d1__small_object_pool** pool, u64 n) {
  u8* p = malloc(n); __CPROVER_assume(p != 0); *pool = (struct S_class_tbb__detail__d1__small_object_pool*)&vp_pool_token; n_task_alloc++; return p; }
u8* _ZN3tbb6detail2r18allocateERPNS0_2d117small_object_poolEmRKNS2_14execution_dataE(struct S_class_tbb__detail__d1__small_object_pool** pool, u64 n, struct S_struct_tbb__detail__d1__execution_data* ed) {
  return _ZN3tbb6detail2r18allocateERPNS0_2d117small_object_poolEm(pool, n); }
void _ZN3tbb6detail2r110deallocateERNS0_2d117small_object_poolEPvmRKNS2_14execution_dataE(struct S_class_tbb__detail__d1__small_object_pool* pool, u8* p, u64 n, struct S_struct_tbb__detail__d1__execution_data* ed) { n_task_free++; free(p); }
void _ZN3tbb6detail2r110deallocateERNS0_2d117small_object_poolEPvm(struct S_class_tbb__detail__d1__small_object_pool* pool, u8* p, u64 n) { n_task_free++; free(p); }
void _ZdlPv(u8* p) { free(p); }
void _ZdlPvSt11align_val_t(u8* p, u64 a) { free(p); }
u8* vpx_pthread_getspecific(u32 k) { return vp_tls(); }
u64 _ZN3tbb6detail2r127global_control_active_valueEi(u32 p) { return 0; }
u8 _ZN3tbb6detail2r122terminate_on_exceptionEv(void) { return 0; }
u64 _ZN3tbb6detail2r115cache_line_sizeEv(void) { return 128; }
void _ZN3tbb6detail2r15arena15request_workersEiib(struct S_class_tbb__detail__r1__arena* a, u32 m, u32 w, u8 k) {}
void _ZN3tbb6detail2r15arena11out_of_workEv(struct S_class_tbb__detail__r1__arena* a) {}
void _ZN3tbb6detail2r113observer_list25do_notify_entry_observersERPNS1_14observer_proxyEb(struct S_class_tbb__detail__r1__observer_list* l, struct S_class_tbb__detail__r1__observer_proxy** p, u8 w) {}
/* receive_or_steal_task is cut: with one thread and every task in the local pool, the real function is entered only when the
   pool is empty although the wait is not released - the real dispatcher would spin there forever */
#define ROS(name, RW) struct S_class_tbb__detail__d1__task* name(struct S_class_tbb__detail__r1__task_dispatcher* d, struct S_class_tbb__detail__r1__thread_data* td, \
   struct S_struct_tbb__detail__r1__execution_data_ext* ed, RW* w, u64 iso, u8 fifo, u8 crit) { \
   VP_ASSERT(0, "dispatcher has no local work left but the wait is not released (lost task or unreleased wait reference): would spin forever"); return 0; }
ROS(_ZN3tbb6detail2r115task_dispatcher21receive_or_steal_taskILb0ENS1_15external_waiterEEEPNS0_2d14taskERNS1_11thread_dataERNS1_18execution_data_extERT0_lbb, struct S_class_tbb__detail__r1__external_waiter)
ROS(_ZN3tbb6detail2r115task_dispatcher21receive_or_steal_taskILb0ENS1_16coroutine_waiterEEEPNS0_2d14taskERNS1_11thread_dataERNS1_18execution_data_extERT0_lbb, struct S_class_tbb__detail__r1__coroutine_waiter)

/* ---- observers / oracle state.  Body ids: group 0: 0..N-1 (SCEN 2: N = the run_and_wait body; SCEN 3: 0,1 outer), inner group: 10.., reuse: 100 */
u32 THROW;                       /* bit per body id (see bit()) */
int runs[128];
u8 ti_user;                      /* type token of the user exception */
#define MAXT 4
u8* thrown[MAXT]; int thrown_grp[MAXT]; int nthrown; int grp_threw[2];
int wait_threw[2], wait_status[2], wait_seen[2];
u8* caught_at_wait[2];
static int bit(u32 i) { return i == 100 ? 7 : (i >= 10 ? 4 + (int)(i - 10) : (int)i); }
static int grp(u32 i) {
#if SCEN == 3
  return i >= 10 && i < 100;      /* inner group = 1 */
#else
  return i == 100;                /* reuse phase counted as group slot 1 */
#endif
}
void vp_body(u32 i) {
  int g = grp(i);
  VP_ASSERT(runs[i] == 0, "a task body ran twice");
  runs[i]++;
  VP_ASSERT(!wait_seen[g], "a body of the group started after the wait for that group had returned");
  VP_ASSERT(!grp_threw[g], "a body started although an exception of the same group had already been captured (group not cancelled)");
#if SCEN == 1
  if (i == 100) VP_ASSERT(wait_seen[0] == 1, "reuse body ran before the first wait returned");
#endif
  if ((THROW >> bit(i)) & 1) {
    VP_ASSERT(nthrown < MAXT, "VP bound: number of throws");
    vp_throw_user(&ti_user); thrown[nthrown] = vp_exc; thrown_grp[nthrown] = g; nthrown++; grp_threw[g] = 1;
  }
}
void vp_note(u32 what, u32 g) { if (what == 1) caught_at_wait[g] = vp_exc_current(); }
void vp_wait_result(u32 g, u32 st, u32 threw) {
  wait_seen[g]++; wait_status[g] = (int)st; wait_threw[g] = (int)threw;
  VP_ASSERT(wait_seen[g] == 1, "wait reported twice");
  VP_ASSERT((int)threw == grp_threw[g], "wait must rethrow iff work of the group threw (exception swallowed or invented)");
  if (threw) {
    int ok = 0;
    for (int k = 0; k < MAXT; k++) if (k < nthrown && thrown_grp[k] == (int)g && thrown[k] == caught_at_wait[g]) ok = 1;
    VP_ASSERT(ok, "the exception rethrown by wait is not one thrown by the group's work");
  } else {
    VP_ASSERT(st == 1, "wait without exception/cancellation must report complete");
  }
  grp_threw[g] = 0;   /* the group is reusable from here on */
}
/* arena block as allocate_arena lays it out: [mail_outbox x 2][arena incl. slot 0][slot 1][task_dispatcher x 2], zero-initialised */
struct { struct S_class_tbb__detail__r1__mail_outbox mb[2]; struct S_class_tbb__detail__r1__arena a; struct S_class_tbb__detail__r1__arena_slot s1; } vp_block __attribute__((aligned(128)));
struct S_class_tbb__detail__r1__task_dispatcher vp_disp0 __attribute__((aligned(128))), vp_disp1 __attribute__((aligned(128)));
struct S_class_tbb__detail__r1__thread_data vp_td_obj __attribute__((aligned(128)));
struct S_class_tbb__detail__r1__cancellation_disseminator vp_cd_obj __attribute__((aligned(64)));
struct S_class_tbb__detail__r1__thread_control_monitor vp_mon_obj __attribute__((aligned(64)));
int main(void) {
  VP_ASSERT(sizeof(vp_block.mb[0]) == vp_sizeof(0) && sizeof(vp_block.a) == vp_sizeof(1) && sizeof(vp_block.s1) == vp_sizeof(2) &&
            sizeof(vp_disp0) == vp_sizeof(3) && sizeof(vp_td_obj) == vp_sizeof(4) && sizeof(vp_cd_obj) == vp_sizeof(5) && sizeof(vp_mon_obj) == vp_sizeof(6), "generated struct layout differs from the C++ layout");
  VP_ASSERT((u8*)&vp_block.s1 == (u8*)&vp_block.a + vp_sizeof(1), "arena block layout");
  THROW = (u32)vp_nd_range(0, 255);
  vp_setup((u8*)&vp_block.a, (u8*)&vp_td_obj, (u8*)&vp_cd_obj, (u8*)&vp_disp0, (u8*)&vp_disp1, (u8*)&vp_mon_obj);
#if SCEN == 0
  vp_probe(N);
#elif SCEN == 1
  __CPROVER_assume((THROW & ~((1u << N) - 1) & ~(REUSE ? 0x80u : 0u)) == 0);
  vp_tg(N, REUSE);
  for (int i = 0; i < N; i++) VP_ASSERT(runs[i] == 1 || nthrown > 0, "a task was skipped although nothing was cancelled");
  if (REUSE) { VP_ASSERT(wait_seen[1] == 1, "second wait missing"); VP_ASSERT(runs[100] == 1, "group not reusable after the wait: new task was not run"); }
#elif SCEN == 2
  __CPROVER_assume((THROW & ~((1u << (N + 1)) - 1)) == 0);
  vp_tg_raw(N);
  for (int i = 0; i <= N; i++) VP_ASSERT(runs[i] == 1 || nthrown > 0, "a task was skipped although nothing was cancelled");
#elif SCEN == 3
  __CPROVER_assume((THROW & ~(3u | (((1u << N) - 1) << 4))) == 0);
  vp_tg_nested(N);
  VP_ASSERT(wait_seen[1] <= 1, "inner wait");
#endif
#if SCEN != 0
  VP_ASSERT(wait_seen[0] == 1, "the wait must return exactly once");
  VP_ASSERT(vp_exc == 0, "pending exception left behind");
  VP_ASSERT(vp_pool_left() == 0, "tasks left in the pool after the wait");
  VP_ASSERT(vp_exc_destroyed == vp_exc_thrown, "an exception object was leaked or destroyed twice");
  VP_ASSERT(n_alloc_mem == n_free_mem, "tbb_exception_ptr storage leaked or freed twice");
  VP_ASSERT(n_task_alloc == n_task_free, "a task object was leaked or released twice");
  VP_ASSERT(vp_rethrows == nthrown, "each captured exception is rethrown exactly once");
#endif
  VP_REACHED();
  return 0;
}

PROPERTY = 'C03'
CXX = ['-D__TBB_BUILD', '-mwaitpkg', '-mrtm']
# virtual calls are promoted to compare-and-dispatch over these classes only (any other target = llvm.trap = assertion failure):
# the coroutine / sleeping-thread classes (resume_task, task_proxy, resume_node, wait_node) cannot occur in the one-thread world
DEVIRT = ['function_task', 'function_stack_task', 'task_handle_task', 'reference_vertex', 'wait_context_vertex', '_ZN3tbb6detail2d14taskD']
CB = ['--unwind', '10', '--object-bits', '12', '--paths', 'lifo']   # path-wise symbolic execution: every path of the symbolic throw mask is explored and decided separately
UNITS = {
  'tg': dict(wrapper='w_tg.cpp', mode='seq', cxxflags=CXX, exceptions=True, prune=True, inline_threshold=225,
             cut=['receive_or_steal_task'], devirt=DEVIRT),
}
HARNESSES = [
  dict(name='tg_wait', unit='tg', harness='h_tg.c', defines={'SCEN': 1}, scenarios=[{'N': 1, 'REUSE': 0}, {'N': 2, 'REUSE': 1}],
       cbmc=CB, timeout=600,
       desc='real task_group::run x N + wait() on the real dispatcher loop, symbolic subset of bodies throws', bounds={'tasks': 'N', 'threads': 1}),
]
OUTSIDE = []
STUBS = []
ASSUMPTIONS = []

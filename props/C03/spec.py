PROPERTY = 'C03'
CXX = ['-D__TBB_BUILD', '-mwaitpkg', '-mrtm']
# virtual calls are promoted to compare-and-dispatch over these classes only (any other target = llvm.trap = assertion failure):
# the coroutine / sleeping-thread classes (resume_task, task_proxy, resume_node, wait_node) cannot occur in the one-thread world
DEVIRT = ['function_task', 'function_stack_task', 'task_handle_task', 'reference_vertex', 'wait_context_vertex', '_ZN3tbb6detail2d14taskD',
          'start_for', 'start_reduce', 'start_deterministic_reduce']
# '--paths lifo' = path-wise symbolic execution: every path of the symbolic throw mask is explored and decided (feasibility + all
# assertions) by its own SAT query; along one path all pointers stay concrete, which merged symbolic execution does not achieve here
CB = ['--unwind', '10', '--object-bits', '12', '--paths', 'lifo']
CB2 = ['--unwind', '44', '--object-bits', '12', '--paths', 'lifo']
CBT = ['--unwind', '20', '--object-bits', '12', '--paths', 'lifo']   # thorough tier of the task_group harnesses (more dispatch-loop iterations)
NCF = ['-fno-sanitize=null']   # native replay: libstdc++'s hashtable forms &node->field from a null node pointer without accessing it
COMMON = dict(mode='seq', cxxflags=CXX, exceptions=True, prune=True, inline_threshold=225, devirt=DEVIRT,
              m1ptr=True,        # LockedTaskPool = (task**)-1 sentinel
              ptratomics=True)   # arena_slot::task_pool is CASed as i64 in the IR: retyped to a pointer so that cbmc can decide the comparisons
UNITS = {
  # receive_or_steal_task is cut: entering it in the one-thread world means "no local work but the wait is not released" = would spin forever
  'tg': dict(wrapper='w_tg.cpp', cut=['receive_or_steal_task'], **COMMON),
  # r1::notify_waiters is cut as well and counted: "the wait_context of the call reaches zero exactly once"
  'pf': dict(wrapper='w_pf.cpp', cut=['receive_or_steal_task', 'r114notify_waitersEm'], **COMMON),
}
TG = dict(unit='tg', harness='h_tg.c', cbmc=CB, timeout=600, thorough_override={'timeout': 3600, 'cbmc': CBT}, native_cflags=NCF)
PF = dict(unit='pf', harness='h_pf.c', cbmc=CB2, timeout=600, thorough_override={'timeout': 3600}, native_cflags=NCF)
ORACLE_TG = ('oracle: every body at most once and none after its group captured an exception or after the wait returned; wait() rethrows iff '
             'work of the group threw, the rethrown object is the one thrown, exactly one rethrow per reporting wait; wait never returns with '
             'tasks left in the pool or the wait reference unreleased (would-spin-forever); context not cancelled after wait and group reusable; '
             'exception objects, tbb_exception_ptr storage and task objects released exactly once')
HARNESSES = [
  dict(name='tg_wait', defines={'SCEN': 1}, scenarios=[{'N': 1, 'REUSE': 0}, {'N': 2, 'REUSE': 1}],
       scenarios_thorough=[{'N': n, 'REUSE': 1} for n in range(1, 7)],
       desc='real task_group::run x N, wait() [, run again + wait() on the same group] executed by the real task_dispatcher::local_wait_for_all (its catch handler, '
            'cancel_group_execution, tbb_exception_ptr, re-dispatch of the throwing task through cancel()), execute_and_wait rethrow, task_group::wait on_completion reset; '
            'symbolic subset of the bodies throws. ' + ORACLE_TG,
       bounds={'tasks': 'N (+1 in the reuse phase)', 'threads': 1, 'throwing bodies': 'every subset'}, **TG),
  dict(name='tg_run_and_wait', defines={'SCEN': 2}, scenarios=[{'N': 1}, {'N': 2}], scenarios_thorough=[{'N': n} for n in range(0, 7)],
       desc='real task_group::run x N + run_and_wait(f): function_stack_task executed without spawn by execute_and_wait, siblings from the pool; symbolic subset of the N+1 bodies throws. ' + ORACLE_TG,
       bounds={'tasks': 'N+1', 'threads': 1, 'throwing bodies': 'every subset'}, **TG),
  dict(name='tg_nested', defines={'SCEN': 3}, scenarios=[{'N': 1, 'CATCH': 1}, {'N': 2, 'CATCH': 0}],
       scenarios_thorough=[{'N': n, 'CATCH': c} for n in (1, 2, 3, 4) for c in (0, 1)],
       desc='nested groups: a task of the outer group creates an inner task_group (context bound to the outer one), runs N tasks and waits (nested dispatch loop) while a sibling of the '
            'outer group is still in the pool; CATCH=1: the task handles the inner wait\'s exception, CATCH=0: it lets it escape (captured again by the outer group, rethrown by the outer '
            'wait). Symbolic subset of the N+2 bodies throws. ' + ORACLE_TG + '; the inner group\'s exception does not cancel the outer group unless it escapes',
       bounds={'tasks': 'N inner + 2 outer', 'threads': 1, 'throwing bodies': 'every subset'}, **TG),
  dict(name='tg_outer_throw', defines={'SCEN': 4, 'N': 1}, scenarios=[{'XT': 0}, {'XT': 1}],
       desc='an exception of the OUTER group while nested groups have work: outer task A spawns a task of inner group g1 and then a task X of the outer group and waits for g1, so the nested '
            'dispatch loop runs X first; if X throws, the outer context is cancelled: the pending g1 task and the task of a group g2 created afterwards must not start (state propagation to bound '
            'children / inheritance at bind time), g1.wait()/g2.wait() report canceled without throwing, the outer wait rethrows X\'s exception. Whether X throws is concrete per query (XT), the subset of {B, g1 task, g2 task} that throws is symbolic. ' + ORACLE_TG,
       bounds={'tasks': '2 outer + X + 1 per inner group', 'threads': 1, 'throwing bodies': 'every subset'}, **TG),
  dict(name='pfor', defines={'ALGO': 1}, scenarios=[{'N': 3}, {'N': 4}], scenarios_thorough=[{'N': n} for n in range(1, 13)],
       desc='real parallel_for(Range, Body, simple_partitioner) over [0,N), one leaf task per element: start_for::run/execute/offer_work/cancel/finalize, tree_node fold_tree, on the real dispatcher loop; '
            'symbolic subset of the elements throws. Oracle: the call rethrows iff a body threw, the object thrown first, once; no body invocation after the capture; every element at most once '
            '(exactly once if nothing threw); every Range and Body copy destroyed exactly once and none alive (except the user\'s) when the call returns; tasks/tree nodes released exactly once; '
            'wait_context reaches zero exactly once; pool empty; never would-spin-forever',
       bounds={'elements': 'N', 'threads': 1, 'throwing elements': 'every subset'}, **PF),
  dict(name='pfor_ctor_throw', defines={'ALGO': 1, 'CTOR': 1}, scenarios=[{'N': 2}, {'N': 3}], scenarios_thorough=[{'N': n} for n in range(1, 7)],
       desc='pfor with throwing USER CONSTRUCTORS: the k-th Range copy / Range split / Body copy constructor call made by the library while it creates tasks (start_for::run root construction, '
            'start_for::offer_work_impl: right child + continuation tree_node) throws - symbolic mask over the first 16 calls - in addition to the symbolic body-throw mask. Oracle of pfor: exactly one exception '
            'surfaces at the call (directly when the root construction throws, else rethrown once), the call returns (tree_node ref counts match the children that exist: never would-spin-forever), '
            'wait_context released exactly once, no Range/Body copy alive, no task/tree-node storage lost (separate assertion for the allocation under construction inside new_object)',
       bounds={'elements': 'N', 'threads': 1, 'throwing elements / constructor calls': 'every subset'}, **PF),
  dict(name='pdreduce', defines={'ALGO': 2}, scenarios=[{'N': 3}, {'N': 4}], scenarios_thorough=[{'N': n} for n in range(1, 13)],
       desc='real parallel_deterministic_reduce(simple_partitioner) over [0,N): start_deterministic_reduce + deterministic_reduction_tree_node (split body per right child) on the real dispatcher loop; '
            'oracle of pfor plus: join is never called once the group captured an exception, joins are adjacent, split bodies destroyed exactly once, full interval reduced if nothing threw',
       bounds={'elements': 'N', 'threads': 1, 'throwing elements': 'every subset'}, **PF),
  dict(name='preduce', defines={'ALGO': 3}, scenarios=[{'N': 3}], scenarios_thorough=[{'N': n} for n in range(1, 13)],
       desc='real parallel_reduce(simple_partitioner) over [0,N): start_reduce cancel/finalize/fold paths on the real dispatcher loop (no zombie body arises with one thread); oracle of pfor',
       bounds={'elements': 'N', 'threads': 1, 'throwing elements': 'every subset'}, **PF),
]
# ---- parallel_scan under cancellation (package prepared by the C06 builder): KNOWN FINDING of C03, see known_findings.txt
import importlib.util as _ilu, os as _os
_sp = _ilu.spec_from_file_location('scan_cancel_snippet', _os.path.join(_os.path.dirname(_os.path.abspath(__file__)), 'scan_cancel_spec_snippet.py'))
_m = _ilu.module_from_spec(_sp); _sp.loader.exec_module(_m)
UNITS.update(_m.UNITS_SNIPPET)
HARNESSES += _m.HARNESSES_SNIPPET

# ---- parallel_reduce with throwing user callbacks in stolen right children (package prepared by the C06 builder)
_sp2 = _ilu.spec_from_file_location('reduce_throw_snippet', _os.path.join(_os.path.dirname(_os.path.abspath(__file__)), 'reduce_throw_spec_snippet.py'))
_m2 = _ilu.module_from_spec(_sp2); _sp2.loader.exec_module(_m2)
UNITS.update(_m2.UNITS_SNIPPET)
HARNESSES += _m2.HARNESSES_SNIPPET

MANIFEST = dict(
  level_text='Bounded symbolic execution of the real exception path of the scheduler in a one-thread world: the real task_dispatcher::local_wait_for_all loop with its catch(...) handler, '
             'task_group_context cancel_group_execution/reset/destroy, tbb_exception_ptr, execute_and_wait\'s rethrow, arena_slot spawn/get_task, r1::spawn/wait, get_thread_reference_vertex, and on top of it '
             'the real task_group (run, wait, run_and_wait, nested groups with bound contexts, reuse after an exception) and the real parallel_for / parallel_deterministic_reduce / parallel_reduce task '
             'classes (execute, cancel, finalize, fold_tree, join). Which body invocations throw is a symbolic bit mask (every subset); each resulting path is decided by SAT. Asserted: at most one '
             'execution per body, no body starts after its group captured an exception or after the waiting call returned, the waiting call rethrows iff the group\'s work threw, exactly once, the very '
             'object that was thrown, and only after the pool is drained and the wait reference released (a lost release is reported as "would spin forever"); the group is reusable afterwards; '
             'exception objects, tbb_exception_ptr, task objects, tree nodes and every Range/Body copy are released exactly once; reduction joins are skipped after cancellation.',
  level_note='One model thread only: races between two throwers / a thrower and a thief, worker-side catch, stolen-task paths and zombie bodies of parallel_reduce are outside (winner election of '
             'cancel_group_execution is C04). Bounds (thorough tier): <= 6 tasks (+1 reuse) per group, <= 4 inner + 2 outer tasks nested, <= 12 range elements; quick tier: 2 tasks + reuse, 2 inner + 2 outer, 4 elements. The C++ exception ABI and std::exception_ptr are '
             'modelled by the reference-counting runtime in rt/vp.h; task storage (small_object_pool), arena construction and thread registration are harness/wrapper stubs listed in evidence. '
             'Trusted: clang-14 IR, tools/ir2c.py incl. its exception lowering, tools/devirt.py, cbmc.',
)
OUTSIDE = [
  'more than one thread: two bodies throwing concurrently, a throw racing with a steal, exceptions on worker threads (outermost_worker_waiter), stolen/affinitized tasks (task_proxy, mailboxes), zombie bodies of parallel_reduce',
  'task_arena::execute / isolate exception transport, flow graph, parallel_pipeline, parallel_for_each, parallel_invoke, parallel_scan/sort; auto/affinity/static partitioners',
  'exceptions thrown by Body split constructors or join() (parallel_reduce: harnesses reduce_throw_*), by Range/Body constructors of algorithms other than parallel_for(simple_partitioner)',
  'global_control terminate_on_exception, std::exception_ptr implementation (libstdc++), rethrow_exception_broken work-around',
  'resumable tasks / coroutines, critical tasks, enqueue; arena and market construction (vp_setup replicates the fields the dispatcher reads)',
  'task_group_base destructor without wait (missing_wait), structured_task_group / isolated_task_group, task_handle API',
]
STUBS = [
  'C++ exception ABI (__cxa_allocate_exception/throw/begin_catch/end_catch/rethrow, _Unwind_Resume) and std::current_exception / exception_ptr copy, release / rethrow_exception: reference-counting model in rt/vp.h (VP_DEFINE_EPTR_STUBS)',
  'r1::allocate / r1::deallocate (small_object_pool): fresh typed storage per allocation, never reused; leak / double release / wrong size are checked',
  'cache_aligned_allocate / allocate_memory: malloc (typed storage for the 64-entry task pool and the context_list); operator delete: free',
  'pthread_getspecific: the single thread_data; governor::init_external_thread, wait_on_address, futex syscall, coroutine entry points: unreachable (assertion)',
  'global_control::active_value(terminate_on_exception) = 0; arena::request_workers / out_of_work / observers: no-op; notify_by_address_one: no-op (nobody sleeps)',
  'task_dispatcher::receive_or_steal_task (cut): reaching it = the dispatcher has no local work but the wait is not released = assertion failure, path ends',
  'r1::notify_waiters (cut in unit pf): counted, no sleeper to wake',
  'threading_control::propagate_task_group_state forwards to a real cancellation_disseminator knowing the one thread; arena::get_waiting_threads_monitor returns a real, empty thread_control_monitor',
  'std::__detail::_Prime_rehash_policy::_M_need_rehash (libstdc++.so): never rehash (single bucket) for the dispatcher\'s reference-vertex map',
]
ASSUMPTIONS = [
  'the waiting thread is an external thread occupying slot 0 of an arena with 2 slots; no worker ever joins (advertise_new_work / request_workers have no effect)',
  'user bodies throw an exception of one user type or return normally; they do not call back into the group except as coded in the scenario',
  'a violated oracle check inside an observer ends that path (assert + assume), so that a re-executed task does not spin in the dispatcher',
]

PROPERTY = 'C03'
CXX = ['-D__TBB_BUILD', '-mwaitpkg', '-mrtm']
UNITS = {
  'tg': dict(wrapper='w_tg.cpp', mode='seq', cxxflags=CXX, exceptions=True, prune=True, inline_threshold=225,
             cut=['receive_or_steal_task'], devirt=True),
}
HARNESSES = [
  dict(name='tg_wait', unit='tg', harness='h_tg.c', defines={'SCEN': 1}, scenarios=[{'N': 1, 'REUSE': 0}, {'N': 2, 'REUSE': 1}],
       cbmc=['--unwind', '10', '--object-bits', '12'], timeout=600,
       desc='real task_group::run x N + wait() on the real dispatcher loop, symbolic subset of bodies throws', bounds={'tasks': 'N', 'threads': 1}),
]
OUTSIDE = []
STUBS = []
ASSUMPTIONS = []

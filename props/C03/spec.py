PROPERTY = 'C03'
CXX = ['-D__TBB_BUILD', '-mwaitpkg', '-mrtm']
# virtual calls are promoted to compare-and-dispatch over these classes only (any other target = llvm.trap = assertion failure):
# the coroutine / sleeping-thread classes (resume_task, task_proxy, resume_node, wait_node) cannot occur in the one-thread world
DEVIRT = ['function_task', 'function_stack_task', 'task_handle_task', 'reference_vertex', 'wait_context_vertex', '_ZN3tbb6detail2d14taskD',
          'start_for', 'start_reduce', 'start_deterministic_reduce']
CB = ['--unwind', '10', '--object-bits', '12', '--paths', 'lifo']   # path-wise symbolic execution: every path of the symbolic throw mask is explored and decided separately
NCF = ['-fno-sanitize=null']   # libstdc++'s hashtable forms &node->field from a null node pointer without accessing it
CB2 = ['--unwind', '26', '--object-bits', '12', '--paths', 'lifo']
UNITS = {
  'tg': dict(wrapper='w_tg.cpp', mode='seq', cxxflags=CXX, exceptions=True, prune=True, inline_threshold=225,
             cut=['receive_or_steal_task'], devirt=DEVIRT, m1ptr=True, ptratomics=True),
  'pf': dict(wrapper='w_pf.cpp', mode='seq', cxxflags=CXX, exceptions=True, prune=True, inline_threshold=225,
             cut=['receive_or_steal_task', 'r114notify_waitersEm'], devirt=DEVIRT, m1ptr=True, ptratomics=True),
}
HARNESSES = [
  dict(name='tg_wait', unit='tg', harness='h_tg.c', defines={'SCEN': 1}, scenarios=[{'N': 1, 'REUSE': 0}, {'N': 2, 'REUSE': 1}], scenarios_thorough=[{'N': 1, 'REUSE': 1}, {'N': 2, 'REUSE': 1}, {'N': 3, 'REUSE': 1}, {'N': 4, 'REUSE': 0}],
       cbmc=CB, timeout=600, thorough_override={'timeout': 3600}, native_cflags=NCF,
       desc='real task_group::run x N + wait() on the real dispatcher loop, symbolic subset of bodies throws', bounds={'tasks': 'N', 'threads': 1}),
  dict(name='tg_run_and_wait', unit='tg', harness='h_tg.c', defines={'SCEN': 2}, scenarios=[{'N': 1}, {'N': 2}], scenarios_thorough=[{'N': 0}, {'N': 1}, {'N': 2}, {'N': 3}],
       cbmc=CB, timeout=600, thorough_override={'timeout': 3600}, native_cflags=NCF,
       desc='real task_group::run x N + run_and_wait(f) (function_stack_task executed without spawn), symbolic subset of the N+1 bodies throws', bounds={'tasks': 'N+1', 'threads': 1}),
  dict(name='tg_nested', unit='tg', harness='h_tg.c', defines={'SCEN': 3}, scenarios=[{'N': 1, 'CATCH': 1}, {'N': 2, 'CATCH': 0}],
       scenarios_thorough=[{'N': n, 'CATCH': c} for n in (1, 2, 3) for c in (0, 1)],
       cbmc=CB, timeout=600, thorough_override={'timeout': 3600}, native_cflags=NCF,
       desc='nested groups', bounds={'tasks': 'N+2', 'threads': 1}),
]
HARNESSES += [
  dict(name='pfor', unit='pf', harness='h_pf.c', defines={'ALGO': 1}, scenarios=[{'N': 2}, {'N': 3}], scenarios_thorough=[{'N': n} for n in (1, 2, 3, 4, 5, 6)],
       cbmc=CB2, timeout=900, thorough_override={'timeout': 3600}, native_cflags=NCF,
       desc='real parallel_for(simple_partitioner) over [0,N) on the real dispatcher loop, symbolic subset of elements throws', bounds={'elements': 'N', 'threads': 1}),
  dict(name='pdreduce', unit='pf', harness='h_pf.c', defines={'ALGO': 2}, scenarios=[{'N': 2}, {'N': 3}], scenarios_thorough=[{'N': n} for n in (1, 2, 3, 4, 5, 6)],
       cbmc=CB2, timeout=900, thorough_override={'timeout': 3600}, native_cflags=NCF,
       desc='real parallel_deterministic_reduce(simple_partitioner) over [0,N) on the real dispatcher loop, symbolic subset of elements throws', bounds={'elements': 'N', 'threads': 1}),
  dict(name='preduce', unit='pf', harness='h_pf.c', defines={'ALGO': 3}, scenarios=[{'N': 3}], scenarios_thorough=[{'N': n} for n in (1, 2, 3, 4, 5, 6)],
       cbmc=CB2, timeout=900, thorough_override={'timeout': 3600}, native_cflags=NCF,
       desc='real parallel_reduce(simple_partitioner) over [0,N) on the real dispatcher loop, symbolic subset of elements throws', bounds={'elements': 'N', 'threads': 1}),
]
OUTSIDE = []
STUBS = []
ASSUMPTIONS = []

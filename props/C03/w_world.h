// C03 one-thread world (shared by the wrappers): the REAL task_group / function_task / r1::spawn / arena_slot pool / task_dispatcher::local_wait_for_all
// (with its catch(...) handler and "re-dispatch the throwing task through cancel()") / cancel_group_execution /
// tbb_exception_ptr / execute_and_wait's rethrow / task_group::wait's context reset, run single-threaded on one arena slot.
#include "src/tbb/task_dispatcher.cpp"
#include "src/tbb/task_group_context.cpp"
#include "src/tbb/exception.cpp"
#include "src/tbb/arena_slot.cpp"
#include "src/tbb/task.cpp"
// small_object_pool.cpp is left out: r1::allocate/deallocate (task storage) are external and counted by the harness
#include "src/tbb/cancellation_disseminator.h"
#include "oneapi/tbb/task_group.h"
#include "oneapi/tbb/parallel_for.h"
#include <new>
using namespace tbb::detail;
using namespace tbb::detail::r1;

// globals that live in main.cpp in the library (constant-initialised there as well)
namespace tbb { namespace detail { namespace r1 {
context_state_propagation_mutex_type the_context_state_propagation_mutex;
std::atomic<uintptr_t> the_context_state_propagation_epoch{};
}}}

// libstdc++ hashtable policy (lives in libstdc++.so, not in the IR): declining to rehash keeps the unordered_map used by
// get_thread_reference_vertex functionally identical (a single bucket)
std::pair<bool, std::size_t> std::__detail::_Prime_rehash_policy::_M_need_rehash(std::size_t, std::size_t, std::size_t) const { return {false, 0}; }

extern "C" void vp_body(int i);                  // user work: the harness makes it "throw" on a symbolic subset of calls
extern "C" void vp_wait_result(int group, int status, int threw, int cancelled_after);
extern "C" void vp_note(int what, int arg);

static thread_data* vp_td;
static arena* vp_arena;
static cancellation_disseminator* vp_cd;
static thread_control_monitor* vp_mon;
#ifndef VP_WORLD_WITH_ARENA_CPP
// arena.cpp is not part of this unit: the arena's waiting-threads monitor is a real, constructed monitor without sleepers
thread_control_monitor& arena::get_waiting_threads_monitor() { return *vp_mon; }
#else
// a wrapper that includes the real arena.cpp (props/C16 iso_dispatch): arena::get_waiting_threads_monitor forwards to threading_control
thread_control_monitor& threading_control::get_waiting_threads_monitor() { return *vp_mon; }
#endif

// threading_control.cpp is not part of this unit: its one entry point used here forwards to a real
// cancellation_disseminator that knows the single model thread (what threading_control_impl does).
void threading_control::propagate_task_group_state(std::atomic<uint32_t> d1::task_group_context::*mptr_state,
                                                   d1::task_group_context& src, uint32_t new_state) {
  vp_cd->propagate_task_group_state(mptr_state, src, new_state);
}

extern "C" {
void* vp_tls() { return vp_td; }
unsigned vp_arena_alloc_size() { return (unsigned)arena::allocation_size(2); }
// replica of the parts of arena::arena()/allocate_arena() (arena.cpp is not in this unit) that the dispatcher paths
// exercised here read: 2 slots (external + 1 worker slot, never occupied), mailboxes, default dispatchers
// the storage comes from the harness as zero-initialised objects of the generated struct types (typed memory keeps cbmc's
// encoding small; a byte buffer + memset does not)
unsigned vp_sizeof(int what) { return what == 0 ? sizeof(mail_outbox) : what == 1 ? sizeof(arena) : what == 2 ? sizeof(arena_slot) : what == 3 ? sizeof(task_dispatcher) : what == 4 ? sizeof(thread_data) : what == 5 ? sizeof(cancellation_disseminator) : what == 6 ? sizeof(thread_control_monitor) : sizeof(d1::task_group_context); }
void vp_setup(void* arena_at, void* td_mem, void* cd_mem, void* disp0, void* disp1, void* mon_mem, void* defctx_mem) {
  vp_mon = new (mon_mem) thread_control_monitor();
  const unsigned ns = 2;
  arena* a = reinterpret_cast<arena*>(arena_at);
  unsigned char* vp_cd_mem = (unsigned char*)cd_mem; unsigned char* vp_td_mem = (unsigned char*)td_mem;
  a->my_limit = 1; a->my_num_slots = ns; a->my_num_reserved_slots = 1; a->my_max_num_workers = 1;
  a->my_references = arena::ref_external;
  a->my_threading_control = reinterpret_cast<threading_control*>(vp_cd_mem);   // only used through the forwarder above
  // (the real arena places the default dispatchers right behind the slots; nothing but the constructor depends on that)
  // "Initialize the default context. It should be allocated before task_dispatch construction." (arena::arena)
  a->my_default_ctx = new (defctx_mem) d1::task_group_context{ d1::task_group_context::isolated, d1::task_group_context::fp_settings };
  void* disp[2] = { disp0, disp1 };
  for (unsigned i = 0; i < ns; ++i) {
    a->mailbox(i).construct();
    a->my_slots[i].my_default_task_dispatcher = new (disp[i]) task_dispatcher(a);
  }
  vp_arena = a;
  vp_cd = new (vp_cd_mem) cancellation_disseminator();
  vp_td = new (vp_td_mem) thread_data(0, false);
  vp_td->attach_arena(*a, 0);
  a->my_slots[0].occupy();
  vp_td->attach_task_dispatcher(a->my_slots[0].default_task_dispatcher());
  vp_td->my_is_registered = true;          // pm_client (un)registration is outside this unit
  vp_td->my_inbox.set_is_idle(false);
  vp_cd->register_thread(*vp_td);
}
unsigned long vp_pool_left() {
  arena_slot& s = vp_arena->my_slots[0];
  return s.task_pool.load() == nullptr ? 0 : s.tail.load() - s.head.load();
}
int vp_ctx_list_empty() { return vp_td->my_context_list->empty(); }
}

// C03 / parallel_scan under cancellation: wrapper over the real parallel_scan task code (include/oneapi/tbb/parallel_scan.h: start_scan,
// finish_scan, sum_node, final_sum), driven by the task bag of h_scan_cancel.c. Self-contained copy of props/C06/w_scan.cpp (b-C06).
#include "oneapi/tbb/parallel_scan.h"
#include "oneapi/tbb/blocked_range.h"
using namespace tbb::detail::d1;
#ifndef VP_PART
#define VP_PART simple_partitioner
#endif
extern "C" {
void vp_emit(unsigned long v);
void vp_body_split(unsigned from_id, unsigned new_id);
void vp_body_dtor(unsigned id);
void vp_body_run(unsigned id, int b, int e);                       // may run other tasks meanwhile (harness)
void vp_scan_pass(unsigned id, int b, int e, int is_final, unsigned long prefix_seq, unsigned prefix_len);   // a pass over [b,e) starts with this running sum
void vp_body_rjoin(unsigned into_id, unsigned left_id);            // into = left (+) into
void vp_body_assign(unsigned into_id, unsigned from_id);
}
// free-monoid scan body: the running sum is the sequence of operands seen so far (4 bits each)
static unsigned g_next_id = 1;
struct Body {
  unsigned long seq; unsigned len; unsigned id;
  constexpr Body() : seq(0), len(0), id(0) {}
  Body(Body& o, tbb::split) : seq(0), len(0), id(g_next_id++) { vp_body_split(o.id, id); }
  ~Body() { vp_body_dtor(id); }
  template <typename Tag> void operator()(const tbb::blocked_range<int>& r, Tag) {
    vp_scan_pass(id, r.begin(), r.end(), Tag::is_final_scan(), seq, len);
    vp_body_run(id, r.begin(), r.end());
    for (int i = r.begin(); i != r.end(); ++i) { seq = (seq << 4) | (unsigned long)((i + 1) & 15); ++len; }
  }
  void reverse_join(Body& a) { vp_body_rjoin(id, a.id); seq = (a.seq << (4 * len)) | seq; len += a.len; }
  void assign(Body& b) { vp_body_assign(id, b.id); seq = b.seq; len = b.len; }
};
typedef tbb::blocked_range<int> R;
static Body g_root;
extern "C" {
void vp_ctx_initialize(task_group_context* c) {
  c->my_cancellation_requested = 0; c->my_may_have_children.store(0, std::memory_order_relaxed);
  c->my_state.store(task_group_context::state::created, std::memory_order_relaxed);
  c->my_parent = nullptr; c->my_context_list = nullptr; c->my_exception.store(nullptr, std::memory_order_relaxed);
}
void vp_scan(int b, int e, int grain) {
  g_next_id = 1; g_root.seq = 0; g_root.len = 0;
  R range(b, e, (unsigned long)grain);
  tbb::parallel_scan(range, g_root, VP_PART());
}
unsigned long vp_result_seq() { return g_root.seq; }
unsigned vp_result_len() { return g_root.len; }
unsigned vp_result_shape() { return 0; }
void vp_ed_init(execution_data* ed, task_group_context* ctx) { ed->context = ctx; ed->original_slot = 0; ed->affinity_slot = no_slot; }
unsigned long vp_wait_refs(wait_context* w) { return w->m_ref_count.load(std::memory_order_relaxed); }
// scheduler side: virtual dispatch over the four task types of the scan; returns the bypass task (run next by the same thread)
task* vp_task_execute(task* t, execution_data* ed) { return t->execute(*ed); }
task* vp_task_cancel(task* t, execution_data* ed) { return t->cancel(*ed); }
// keep the four task struct types in the IR (typed allocation in the harness)
typedef final_sum<R, Body> FS; typedef sum_node<R, Body> SN; typedef finish_scan<R, Body> FI; typedef start_scan<R, Body, VP_PART> SS;
unsigned vp_probe_fs(FS* p) { return p->m_body.id; }
unsigned vp_probe_sn(SN* p) { return p->ref_count.load(std::memory_order_relaxed); }
unsigned vp_probe_fi(FI* p) { return p->ref_count.load(std::memory_order_relaxed); }
unsigned vp_probe_ss(SS* p) { return p->m_is_final; }
unsigned vp_sizeof_fs() { return sizeof(FS); } unsigned vp_sizeof_sn() { return sizeof(SN); }
unsigned vp_sizeof_fi() { return sizeof(FI); } unsigned vp_sizeof_ss() { return sizeof(SS); }
void vp_selftest() { vp_emit(sizeof(FS)); vp_emit(sizeof(SN)); vp_emit(sizeof(FI)); vp_emit(sizeof(SS)); }
}

// C03 / parallel_reduce with throwing user callbacks, under the task-bag scheduler model of h_reduce_throw.c (prepared by b-C06;
// self-contained adaptation of props/C06/w_reduce.cpp, built WITH exceptions). The real start_reduce / reduction_tree_node /
// fold_tree / partitioner code runs; the harness plays the dispatcher (incl. its catch handler) through the r1:: entry points.
// User types: a Range and a Body whose copy/split constructors, operator() and join report to the harness and may throw there
// (vp_may_throw_user is the only throwing entry - the translator treats vp_may_throw* callbacks as throwing; everything else is noexcept).
#include "oneapi/tbb/parallel_reduce.h"
using namespace tbb::detail::d1;
#ifndef VP_PART
#define VP_PART simple_partitioner
#endif

extern "C" {
// kinds of user callbacks: 1 Body split ctor, 2 Body::operator(), 3 Body::join, 4 Range split ctor, 5 Range copy ctor
void vp_may_throw_user(unsigned kind);                                            // harness: may throw here (the k-th call does)
void vp_body_made(void* addr, unsigned id, unsigned from_id) noexcept;       // a Body constructor completed on this storage
void vp_body_dtor(void* addr, unsigned id) noexcept;                         // ~Body runs on this storage
void vp_range_made(void* addr) noexcept;
void vp_range_dtor(void* addr) noexcept;
void vp_body_run(unsigned id, int b, int e) noexcept;                        // inside operator(): other tasks may run meanwhile (harness)
void vp_body_join(unsigned into_id, unsigned from_id) noexcept;
void vp_note_caught(void) noexcept;                                          // the caller of parallel_reduce caught an exception
}

static unsigned g_next_id = 1;    // id 0 = the user's own body
// free-monoid body (result = sequence of operand indices, 4 bits each)
struct Body {
  unsigned long seq; unsigned len; unsigned id;
  constexpr Body() : seq(0), len(0), id(0) {}                                // the user's own body: constant-initialised, never reported
  Body(Body& o, tbb::split) : seq(0), len(0), id(0) { vp_may_throw_user(1); id = g_next_id++; vp_body_made(this, id, o.id); }
  ~Body() { vp_body_dtor(this, id); }
  void operator()(const struct TRange& r);
  void join(Body& rhs) {
    vp_may_throw_user(3);
    vp_body_join(id, rhs.id);
    seq = (seq << (4 * rhs.len)) | rhs.seq; len += rhs.len;
  }
};
// user range [b,e) with grain 1..: every copy the library makes is tracked by storage address
struct TRange {
  int b, e, g;
  TRange(int b_, int e_, int g_) : b(b_), e(e_), g(g_) { vp_range_made(this); }
  TRange(const TRange& r) : b(r.b), e(r.e), g(r.g) { vp_may_throw_user(5); vp_range_made(this); }
  TRange(TRange& r, tbb::split) : b(0), e(r.e), g(r.g) { vp_may_throw_user(4); b = r.b + (r.e - r.b) / 2; r.e = b; vp_range_made(this); }
  ~TRange() { vp_range_dtor(this); }
  bool empty() const { return !(b < e); }
  bool is_divisible() const { return e - b > g; }
};
inline void Body::operator()(const TRange& r) {
  vp_body_run(id, r.b, r.e);          // other threads make progress here (harness); then this invocation may throw
  vp_may_throw_user(2);
  for (int i = r.b; i != r.e; ++i) { seq = (seq << 4) | (unsigned long)((i + 1) & 15); ++len; }
}

typedef start_reduce<TRange, Body, const VP_PART> SR;
static Body g_root;

extern "C" {
// contract of r1::initialize(task_group_context&) as far as the header code reads it
void vp_ctx_initialize(task_group_context* c) {
  c->my_cancellation_requested = 0; c->my_may_have_children.store(0, std::memory_order_relaxed);
  c->my_state.store(task_group_context::state::created, std::memory_order_relaxed);
  c->my_parent = nullptr; c->my_context_list = nullptr; c->my_exception.store(nullptr, std::memory_order_relaxed);
}
// the user's call: parallel_reduce inside try/catch, exactly as the public entry point does it
void vp_reduce(int b, int e, int grain) {
  g_next_id = 1; g_root.seq = 0; g_root.len = 0;
  try {
    TRange range(b, e, grain);
    tbb::parallel_reduce(range, g_root, VP_PART());
  } catch (...) {
    vp_note_caught();
  }
}
unsigned long vp_result_seq() { return g_root.seq; }
unsigned vp_result_len() { return g_root.len; }
void vp_ed_init(execution_data* ed, task_group_context* ctx) { ed->context = ctx; ed->original_slot = 0; ed->affinity_slot = no_slot; }
unsigned long vp_wait_refs(wait_context* w) { return w->m_ref_count.load(std::memory_order_relaxed); }
// scheduler side: run / cancel one task (all tasks in the bag are SR objects: direct, non-virtual call); an exception leaves
// these functions pending (vp_exc), the harness's dispatcher model handles it
task* vp_task_execute(task* t, execution_data* ed) { return static_cast<SR*>(t)->SR::execute(*ed); }
task* vp_task_cancel(task* t, execution_data* ed) { return static_cast<SR*>(t)->SR::cancel(*ed); }
void* vp_task_range_addr(task* t) { return &static_cast<SR*>(t)->my_range; }     // storage of the task's Range member (liveness probe)
// keeps the node's struct type in the IR (typed allocation in the harness)
int vp_node_refs(SR::tree_node_type* n) { return n->m_ref_count.load(std::memory_order_relaxed) + (int)n->m_child_stolen.load(std::memory_order_relaxed) + (n->left_body.id != 0); }
unsigned vp_sizeof_task() { return sizeof(SR); }
unsigned vp_sizeof_node() { return sizeof(SR::tree_node_type); }
}

#include "h_tg.c"

/* C03: the one-thread world around the real dispatcher (shared by the task_group and the algorithm harnesses):
 * external boundaries with their documented contract, typed storage, ghost counters. */
VP_DEFINE_EPTR_STUBS(struct S_class_std____exception_ptr__exception_ptr)
u32 _ZSt19uncaught_exceptionsv(void) { return 0; }

/* ---- allocation.  cbmc keeps byte-array (malloc) objects field-sensitive only up to 64 bytes; pointers and vptrs read back
   from larger ones become symbolic.  Therefore: the 64-entry task pool (512 bytes) is a pointer-typed array, task objects
   (r1::allocate, 128..256 bytes) come from an array of 8-byte words (<= 64 elements each), everything else is <= 64 bytes. */
#ifndef NPOOL
#define NPOOL 2
#endif
struct { struct S_class_tbb__detail__r1__context_list l; u8 pad[256 - sizeof(struct S_class_tbb__detail__r1__context_list)]; } vp_ctxlist_obj __attribute__((aligned(128))); int vp_ctxlist_used;
struct vp_poolmem { struct S_class_tbb__detail__d1__task* a[64]; } __attribute__((aligned(128)));   /* (struct-wrapped: cbmc decides &vp_pool[k] == q during symbolic execution, not so for rows of a 2-D array) */
struct vp_poolmem vp_pool[NPOOL]; int vp_pool_used;
u8* _ZN3tbb6detail2r122cache_aligned_allocateEm(u64 n) {
  if (n == 512) { VP_ASSERT(vp_pool_used < NPOOL, "VP bound: task pools"); return (u8*)&vp_pool[vp_pool_used++]; }
  if (n == 256) { VP_ASSERT(sizeof(vp_ctxlist_obj) == 256, "layout"); VP_ASSERT(!vp_ctxlist_used, "VP bound: one context_list"); vp_ctxlist_used = 1; return (u8*)&vp_ctxlist_obj; }   /* thread_data's context_list: typed */
  VP_ASSERT(n <= 64, "VP bound: cache_aligned_allocate larger than expected in this scenario");
  u8* p = malloc(n); __CPROVER_assume(p != 0); return p; }
void _ZN3tbb6detail2r124cache_aligned_deallocateEPv(u8* p) {
  for (int i = 0; i < NPOOL; i++) if (p == (u8*)&vp_pool[i]) return;
  if (p == (u8*)&vp_ctxlist_obj) return;
  free(p); }
/* allocate_memory: tbb_exception_ptr (8 bytes; tracked) and the nodes of the dispatcher's reference-vertex map (24 bytes).
   cbmc's free() contains a nondeterministic choice (= a path fork per call with --paths): released storage is tracked here instead
   (double release / release of a foreign pointer are assertions) and zeroed, so that a later use of a destroyed tbb_exception_ptr shows
   up as a null exception_ptr; the native replay build really frees (ASan) */
#define VP_MAXEPTR 4
int n_eptr_alloc, n_eptr_free; u8* vp_eptr_mem[VP_MAXEPTR]; u8 vp_eptr_live[VP_MAXEPTR];
#define VP_MAXNODE 6
int n_node_alloc; u8* vp_node_mem[VP_MAXNODE];
u8* _ZN3tbb6detail2r115allocate_memoryEm(u64 n) {
  VP_ASSERT(n <= 64, "VP bound: allocate_memory size");
  u8* p = malloc(n); __CPROVER_assume(p != 0);
  if (n == 8) { VP_ASSERT(n_eptr_alloc < VP_MAXEPTR, "VP bound: tbb_exception_ptr allocations"); vp_eptr_live[n_eptr_alloc] = 1; vp_eptr_mem[n_eptr_alloc++] = p; }
  else { VP_ASSERT(n_node_alloc < VP_MAXNODE, "VP bound: map node allocations"); vp_node_mem[n_node_alloc++] = p; }
  return p; }
void _ZN3tbb6detail2r117deallocate_memoryEPv(u8* p) {
  int hit = 0;
  for (int i = 0; i < VP_MAXNODE; i++) if (i < n_node_alloc && p == vp_node_mem[i]) { vp_node_mem[i] = 0; return; }   /* a map node (never happens below 1000 entries) */
  for (int i = 0; i < VP_MAXEPTR; i++) if (i < n_eptr_alloc && p == vp_eptr_mem[i]) {
    VP_ASSERT(vp_eptr_live[i], "tbb_exception_ptr storage released twice"); vp_eptr_live[i] = 0; hit = 1; }
  VP_ASSERT(hit, "deallocate_memory of a pointer that is not a live tbb_exception_ptr");
  n_eptr_free++;
#ifdef VP_NATIVE
  free(p);
#else
  *(u64*)p = 0;
#endif
}
/* task storage (r1::allocate / r1::deallocate; small_object_pool.cpp is outside the unit): objects of the requested size; the
   pool handle only has to be non-null; allocations and releases are counted and checked (leak / double free / wrong size) */
#ifndef NTASKMEM
#define NTASKMEM 8
#endif
#ifndef TASKWORDS
#define TASKWORDS 32
#endif
struct vp_taskmem { u64 w[TASKWORDS]; } __attribute__((aligned(128)));
struct vp_taskmem vp_taskmem[NTASKMEM]; u8 vp_taskmem_live[NTASKMEM]; u64 vp_taskmem_size[NTASKMEM]; int vp_taskmem_used;
int n_task_alloc, n_task_free; u8 vp_pool_token;
u8* _ZN3tbb6detail2r18allocateERPNS0_2d117small_object_poolEm(struct S_class_tbb__detail__d1__small_object_pool** pool, u64 n) {
  VP_ASSERT(vp_taskmem_used < NTASKMEM, "VP bound: number of task allocations");
  VP_ASSERT(n <= sizeof(struct vp_taskmem), "VP bound: task object size");
  int k = vp_taskmem_used++; vp_taskmem_live[k] = 1; vp_taskmem_size[k] = n;
  *pool = (struct S_class_tbb__detail__d1__small_object_pool*)&vp_pool_token; n_task_alloc++; return (u8*)&vp_taskmem[k]; }
u8* _ZN3tbb6detail2r18allocateERPNS0_2d117small_object_poolEmRKNS2_14execution_dataE(struct S_class_tbb__detail__d1__small_object_pool** pool, u64 n, struct S_struct_tbb__detail__d1__execution_data* ed) {
  return _ZN3tbb6detail2r18allocateERPNS0_2d117small_object_poolEm(pool, n); }
void _ZN3tbb6detail2r110deallocateERNS0_2d117small_object_poolEPvm(struct S_class_tbb__detail__d1__small_object_pool* pool, u8* p, u64 n) {
  int hit = 0;
  VP_ASSERT((u8*)pool == &vp_pool_token, "r1::deallocate with a pool that did not allocate the object");
  for (int k = 0; k < NTASKMEM; k++) if (p == (u8*)&vp_taskmem[k]) {
    VP_ASSERT(vp_taskmem_live[k], "a task object was released twice"); VP_ASSERT(vp_taskmem_size[k] == n, "r1::deallocate with a size different from the allocation");
    vp_taskmem_live[k] = 0; hit = 1; }
  VP_ASSERT(hit, "r1::deallocate of something r1::allocate did not return");
  n_task_free++; }
void _ZN3tbb6detail2r110deallocateERNS0_2d117small_object_poolEPvmRKNS2_14execution_dataE(struct S_class_tbb__detail__d1__small_object_pool* pool, u8* p, u64 n, struct S_struct_tbb__detail__d1__execution_data* ed) {
  _ZN3tbb6detail2r110deallocateERNS0_2d117small_object_poolEPvm(pool, p, n); }
void _ZdlPv(u8* p) { free(p); }
void _ZdlPvSt11align_val_t(u8* p, u64 a) { free(p); }

/* ---- oneTBB / OS entry points outside this unit */
u8* vpx_pthread_getspecific(u32 k) { return vp_tls(); }
u64 _ZN3tbb6detail2r127global_control_active_valueEi(u32 p) { return 0; }       /* terminate_on_exception is off (the default) */
u8 _ZN3tbb6detail2r122terminate_on_exceptionEv(void) { return 0; }
u64 _ZN3tbb6detail2r115cache_line_sizeEv(void) { return 128; }
#ifndef VP_REAL_ARENA_CPP   /* (props/C16 iso_dispatch includes the real arena.cpp and stubs threading_control::adjust_demand instead) */
void _ZN3tbb6detail2r15arena15request_workersEiib(struct S_class_tbb__detail__r1__arena* a, u32 m, u32 w, u8 k) {}   /* no workers exist in this world */
void _ZN3tbb6detail2r15arena11out_of_workEv(struct S_class_tbb__detail__r1__arena* a) {}
#endif
void _ZN3tbb6detail2r113observer_list25do_notify_entry_observersERPNS1_14observer_proxyEb(struct S_class_tbb__detail__r1__observer_list* l, struct S_class_tbb__detail__r1__observer_proxy** p, u8 w) {}
void _ZN3tbb6detail2r121notify_by_address_oneEPv(u8* a) {}                           /* nobody sleeps on an address: one thread */
/* everything below is reachable only through code that needs a second thread, a coroutine or a sleeping thread: none exists */
#define VP_OUTSIDE(what) VP_ASSERT(0, "VP: reached code outside the one-thread world: " what)
void _ZN3tbb6detail2r115wait_on_addressEPvRNS0_2d113delegate_baseEm(u8* a, struct S_class_tbb__detail__d1__delegate_base* d, u64 c) { VP_OUTSIDE("wait_on_address (would sleep forever)"); }
u64 vpx_syscall(u64 nr, ...) { VP_OUTSIDE("futex syscall (no thread ever sleeps / is woken in this world)"); return 0; }
void _ZN3tbb6detail2r18governor20init_external_threadEv(void) { VP_OUTSIDE("governor::init_external_thread"); }
u64 _ZN3tbb6detail2r15arena28calculate_stealing_thresholdEv(struct S_class_tbb__detail__r1__arena* a) { VP_OUTSIDE("coroutines"); return 0; }
void _ZN3tbb6detail2r15arena17on_thread_leavingEj(struct S_class_tbb__detail__r1__arena* a, u32 r) { VP_OUTSIDE("arena::on_thread_leaving"); }
u64 _ZN3tbb6detail2r117threading_control17worker_stack_sizeEv(struct S_class_tbb__detail__r1__threading_control* t) { VP_OUTSIDE("coroutines"); return 0; }
u64 _ZN3tbb6detail2r121DefaultSystemPageSizeEv(void) { VP_OUTSIDE("coroutines"); return 4096; }
void _ZN3tbb6detail2r117assertion_failureEPKciS3_S3_(u8* a, u32 b, u8* c, u8* d) { VP_ASSERT(0, "oneTBB assertion_failure called"); }
void _ZSt20__throw_length_errorPKc(u8* m) { VP_ASSERT(0, "std::length_error"); }
void _ZNSt9exceptionD2Ev(struct S_class_std__exception* e) {}
void vpx___cxa_pure_virtual(void) { VP_ASSERT(0, "pure virtual call"); }
u8* vpx_mmap(u8* a, u64 n, u32 p, u32 f, u32 fd, u64 o) { VP_OUTSIDE("coroutines"); return 0; }
u32 vpx_mprotect(u8* a, u64 n, u32 p) { VP_OUTSIDE("coroutines"); return 0; }
u32 vpx_munmap(u8* a, u64 n) { VP_OUTSIDE("coroutines"); return 0; }
u32 vpx_getcontext(struct S_struct_ucontext_t* c) { VP_OUTSIDE("coroutines"); return 0; }
void vpx_makecontext(struct S_struct_ucontext_t* c, vp_fn f, u32 n, ...) { VP_OUTSIDE("coroutines"); }
u32 vpx_swapcontext(struct S_struct_ucontext_t* a, struct S_struct_ucontext_t* b) { VP_OUTSIDE("coroutines"); return 0; }
u32 vpx___cxa_guard_acquire(u64* g) { VP_OUTSIDE("function-local static"); return 0; }
void vpx___cxa_guard_release(u64* g) {}
void vpx___cxa_guard_abort(u64* g) {}
struct S_class_tbb__detail__r1__basic_tls _ZN3tbb6detail2r18governor6theTLSE;
u8* _ZTISt9exception; u8* _ZTVN10__cxxabiv117__class_type_infoE; u8* _ZTVN10__cxxabiv120__si_class_type_infoE; u8* _ZTVN10__cxxabiv121__vmi_class_type_infoE;

/* receive_or_steal_task is cut: with one thread and every task in the local pool, the real function is entered only when the
   pool is empty although the wait is not released - the real dispatcher would spin there forever */
#define ROS(name, RW) struct S_class_tbb__detail__d1__task* name(struct S_class_tbb__detail__r1__task_dispatcher* d, struct S_class_tbb__detail__r1__thread_data* td, \
   struct S_struct_tbb__detail__r1__execution_data_ext* ed, RW* w, u64 iso, u8 fifo, u8 crit) { \
   VP_ASSERT(0, "dispatcher has no local work left but the wait is not released (lost task or unreleased wait reference): would spin forever"); \
   __CPROVER_assume(0); return 0; }
ROS(_ZN3tbb6detail2r115task_dispatcher21receive_or_steal_taskILb0ENS1_15external_waiterEEEPNS0_2d14taskERNS1_11thread_dataERNS1_18execution_data_extERT0_lbb, struct S_class_tbb__detail__r1__external_waiter)
#ifndef VP_NO_COROUTINE_WAITER
ROS(_ZN3tbb6detail2r115task_dispatcher21receive_or_steal_taskILb0ENS1_16coroutine_waiterEEEPNS0_2d14taskERNS1_11thread_dataERNS1_18execution_data_extERT0_lbb, struct S_class_tbb__detail__r1__coroutine_waiter)
#endif

/* ---- the world: arena block as allocate_arena lays it out: [mail_outbox x 2][arena incl. slot 0][slot 1], dispatchers, thread_data,
   zero-initialised typed globals (typed memory keeps cbmc's encoding small; a byte buffer + memset does not) */
struct { struct S_class_tbb__detail__r1__mail_outbox mb[2]; struct S_class_tbb__detail__r1__arena a; struct S_class_tbb__detail__r1__arena_slot s1; } vp_block __attribute__((aligned(128)));
struct S_class_tbb__detail__r1__task_dispatcher vp_disp0 __attribute__((aligned(128))), vp_disp1 __attribute__((aligned(128)));
struct S_class_tbb__detail__r1__thread_data vp_td_obj __attribute__((aligned(128)));
struct S_class_tbb__detail__r1__cancellation_disseminator vp_cd_obj __attribute__((aligned(64)));
struct S_class_tbb__detail__r1__thread_control_monitor vp_mon_obj __attribute__((aligned(64)));
struct S_class_tbb__detail__d1__task_group_context vp_defctx_obj __attribute__((aligned(128)));
static void vp_world_setup(void) {
  VP_ASSERT(sizeof(vp_block.mb[0]) == vp_sizeof(0) && sizeof(vp_block.a) == vp_sizeof(1) && sizeof(vp_block.s1) == vp_sizeof(2) &&
            sizeof(vp_disp0) == vp_sizeof(3) && sizeof(vp_td_obj) == vp_sizeof(4) && sizeof(vp_cd_obj) == vp_sizeof(5) && sizeof(vp_mon_obj) == vp_sizeof(6) &&
            sizeof(vp_defctx_obj) == vp_sizeof(7), "generated struct layout differs from the C++ layout");
  VP_ASSERT((u8*)&vp_block.s1 == (u8*)&vp_block.a + vp_sizeof(1), "arena block layout");
  vp_setup((u8*)&vp_block.a, (u8*)&vp_td_obj, (u8*)&vp_cd_obj, (u8*)&vp_disp0, (u8*)&vp_disp1, (u8*)&vp_mon_obj, (u8*)&vp_defctx_obj);
}

# Snippet for props/C03/spec.py (prepared by b-C06): parallel_reduce with throwing user callbacks under a task-bag model of the
# scheduler in which right children are stolen while the left sibling is unfinished (=> zombie bodies in reduction_tree_node).
# Files (self-contained, no dependency on props/C06): w_reduce_throw.cpp, h_reduce_throw.c, repro_reduce_throw.cpp (native).
#
# reduce_throw            PASSES on the unchanged tree (Body split constructor / Body::operator() throw).
# reduce_throw_range_ctor KNOWN FINDING, fails with exactly:
#     "reduce: storage handed out by r1::allocate never released (task / tree node leaked)"
#   a Range copy/split constructor throws inside small_object_allocator::new_object<start_reduce>(...) (start_reduce::run /
#   offer_work_impl): new_object has no guard, the storage is never deallocated. Native: repro_reduce_throw.cpp part A
#   (1 thread, parallel_reduce over 8 elements, first Range split constructor throws: RSS +76 MB over 300000 calls = 256 B per
#   call; control with operator() throwing: +0.4 MB).
# reduce_throw_join       KNOWN FINDING, fails with exactly:
#     "reduce: exception left start_reduce::execute() after the task had destroyed itself (Body::join threw inside fold_tree called from finalize)"
#   start_reduce::finalize runs this->~start_reduce(), then fold_tree (-> reduction_tree_node::join -> Body::join), then
#   deallocate(this); a throwing join leaves execute() with a destroyed, not yet deallocated task whose tree node was already
#   decremented; the dispatcher re-dispatches that task through cancel(). Native: repro_reduce_throw.cpp part B (4 threads, 64
#   leaves of 200 us, join throws): the very first parallel_reduce call never returns (hang).
# known_findings.txt lines:
#   known: property=C03 harness=reduce_throw_range_ctor assertion="reduce: storage handed out by r1::allocate never released (task / tree node leaked)" define=- :: parallel_reduce: small_object_allocator::new_object leaks the allocation when the Range copy/split constructor of the new start_reduce throws; native: props/C03/repro_reduce_throw.cpp A
#   known: property=C03 harness=reduce_throw_join assertion="reduce: exception left start_reduce::execute() after the task had destroyed itself (Body::join threw inside fold_tree called from finalize)" define=- :: parallel_reduce: Body::join throwing inside fold_tree (finalize is not exception-safe); real library hangs; native: props/C03/repro_reduce_throw.cpp B
def _rt_sched(nelem, orders, throwats, kinds, extra=None):
  out = []
  for (nestmask, nestpol, drain) in orders:
    for k in throwats:
      sc = {'NELEM': nelem, 'GRAIN': 1, 'NEST': 1, 'NESTK': 1, 'NESTMASK': nestmask, 'NESTPOL': nestpol, 'DRAIN': drain, 'STOLEN': 255, 'THROWAT': k, 'KINDS': kinds}
      if extra: sc.update(extra)
      out.append(sc)
  return out
# task orders (NESTMASK, NESTPOL, DRAIN): (0,1,0) = plain LIFO, nothing overlaps; NESTMASK bit h = during the h-th body invocation a
# thief runs a task from the bag (NESTPOL 1: the oldest = right child of the outermost split, 0: the newest) => that right child
# finds m_ref_count == 2 => constructs a zombie body in the parent's zombie_space and flags has_right_zombie
_RT_ORDERS_Q = [(0, 1, 0), (1, 1, 0), (1, 0, 0), (3, 1, 1)]
_RT_ORDERS_T = [(nm, pol, dr) for nm in range(8) for pol in ((0, 1) if nm else (1,)) for dr in (0, 1, 3)]
_RT_COMMON = dict(unit='reduce_throw', harness='h_reduce_throw.c', cbmc=['--unwind', '25', '--max-field-sensitivity-array-size', '256'],
                  native_cflags=['-fno-sanitize=null'], timeout=600, mem_gb=6)
_RT_DESC = ('real parallel_reduce(Range, Body, simple_partitioner) (start_reduce::execute/cancel/finalize/offer_work, reduction_tree_node incl. '
            'zombie_space/has_right_zombie/join/dtor, fold_tree) under a sequential task-bag model of the scheduler whose dispatcher catch handler '
            'behaves like the real one (capture once, cancel the group, re-dispatch the same task through cancel()); other tasks may run while a '
            'task is inside the user body, so right children are stolen while the left sibling is unfinished (zombie bodies). The k-th user callback '
            'of the selected kinds throws (k concrete per query). Oracle: destructors only on storage where a constructor completed, every '
            'library-made Body/Range copy destroyed exactly once and none alive on return, tasks/tree nodes freed exactly once, wait released once, '
            'exactly one exception captured and it is the thrown one, caller catches it once, exception object released once, no body invocation / '
            'join after the capture, in-order result without a throw. ')
_RT_BOUNDS = {'range': '3 (thorough 3,4) elements, grain 1', 'partitioner': 'simple', 'throw position': 'every k-th callback of the selected kinds',
              'task order': 'enumerated (NESTMASK, NESTPOL, DRAIN), all taken tasks stolen', 'tasks': 'atomic except nested runs inside the user body'}

# --- add to UNITS ---
UNITS_SNIPPET = {
  'reduce_throw': dict(wrapper='w_reduce_throw.cpp', mode='seq', cxxflags=['-DVP_PART=simple_partitioner'], exceptions=True),
}
# --- add to HARNESSES ---
HARNESSES_SNIPPET = [
  dict(name='reduce_throw', tiers=['quick', 'thorough'],
       scenarios_quick=_rt_sched(3, _RT_ORDERS_Q, range(0, 8), 0x03),
       scenarios_thorough=_rt_sched(3, _RT_ORDERS_T, range(0, 8), 0x03) + _rt_sched(4, [(0, 1, 0), (1, 1, 0), (3, 1, 0), (5, 0, 5), (1, 1, 7), (7, 1, 3)], range(0, 11), 0x03),
       desc=_RT_DESC + 'Throwing kinds: Body splitting constructor (incl. the one into zombie_space) and Body::operator().', bounds=_RT_BOUNDS, **_RT_COMMON),
  dict(name='reduce_throw_range_ctor', tiers=['quick', 'thorough'],
       scenarios=_rt_sched(3, [(0, 1, 0), (1, 1, 0)], (1, 2, 3), 0x18),
       desc=_RT_DESC + 'Throwing kinds: Range copy / split constructor. KNOWN FINDING: small_object_allocator::new_object leaks the allocation.', bounds=_RT_BOUNDS, **_RT_COMMON),
  dict(name='reduce_throw_join', tiers=['quick', 'thorough'],
       scenarios=_rt_sched(3, [(1, 1, 0), (1, 0, 0), (3, 1, 1)], (1,), 0x04),
       desc=_RT_DESC + 'Throwing kind: Body::join. KNOWN FINDING: finalize destroys the task before fold_tree, which may throw.', bounds=_RT_BOUNDS, **_RT_COMMON),
]

// C18 wrapper over the whole tbbmalloc library in one TU: frontend.cpp, large_objects.cpp, backref.cpp, backend.cpp are
// included textually (they compile as one TU). Each unit in spec.py translates this TU with its own set of cut functions.
#include "src/tbbmalloc/frontend.cpp"
#include "src/tbbmalloc/large_objects.cpp"
#include "src/tbbmalloc/backref.cpp"
#include "src/tbbmalloc/backend.cpp"
using namespace rml::internal;
extern "C" void vp_emit(unsigned long v);
static inline unsigned long idx_bits(BackRefIdx i) { unsigned long b = 0; memcpy(&b, &i, sizeof(i)); return b; }
static inline BackRefIdx bits_idx(unsigned long b) { BackRefIdx i; memcpy(&i, &b, sizeof(i)); return i; }

extern "C" {
void vp_set_initialized() { mallocInitialized.store(2, std::memory_order_relaxed); }
void* vp_default_pool() { return defaultMemPool; }
void* vp_default_extpool() { return &defaultMemPool->extMemPool; }
unsigned long vp_min_large() { return minLargeObjectSize; }
unsigned long vp_hdrs_size() { return sizeof(LargeMemoryBlock) + sizeof(LargeObjectHdr); }
unsigned long vp_sizeof_lmb() { return sizeof(LargeMemoryBlock); }
unsigned long vp_slab_size() { return slabSize; }
unsigned vp_objsize(unsigned s) { return getObjectSize(s); }

// ---- large-object front end
// the harness owns a zero-filled TLSData object (what bootStrapBlocks.allocate() delivers); only the fields getFromLLOCache uses are set
void vp_tls_setup(void* tls, unsigned cacheIdx) { TLSData* t = (TLSData*)tls; t->memPool = defaultMemPool; t->currCacheIdx = cacheIdx; t->lloc.head.store(nullptr, std::memory_order_relaxed); }
unsigned vp_tls_cache_idx(void* tls) { return ((TLSData*)tls)->currCacheIdx; }
void* vp_llo(void* tls, unsigned long size, unsigned long alignment) { return defaultMemPool->getFromLLOCache((TLSData*)tls, size, alignment); }
void* vp_alloc_aligned(unsigned long size, unsigned long alignment) { return allocateAligned(defaultMemPool, size, alignment); }
void* vp_pool_malloc(unsigned long size) { return internalPoolMalloc(defaultMemPool, size); }
void vp_lmb_setup(void* p, unsigned long unalignedSize, unsigned long idxbits, void* pool) { LargeMemoryBlock* l = (LargeMemoryBlock*)p; l->unalignedSize = unalignedSize; l->backRefIdx = bits_idx(idxbits); l->pool = (MemoryPool*)pool; l->objectSize = 0; }
unsigned long vp_lmb_objsize(void* p) { return ((LargeMemoryBlock*)p)->objectSize; }
unsigned long vp_lmb_unaligned(void* p) { return ((LargeMemoryBlock*)p)->unalignedSize; }
unsigned long vp_lmb_idx(void* p) { return idx_bits(((LargeMemoryBlock*)p)->backRefIdx); }
void* vp_lmb_pool(void* p) { return ((LargeMemoryBlock*)p)->pool; }
void* vp_hdr_block(void* obj) { return ((LargeObjectHdr*)obj - 1)->memoryBlock; }
unsigned long vp_hdr_idx(void* obj) { return idx_bits(((LargeObjectHdr*)obj - 1)->backRefIdx); }
void vp_hdr_set(void* obj, void* lmb, unsigned long idxbits) { LargeObjectHdr* h = (LargeObjectHdr*)obj - 1; h->memoryBlock = (LargeMemoryBlock*)lmb; h->backRefIdx = bits_idx(idxbits); }
unsigned long vp_idx_make(unsigned main, unsigned large, unsigned offset) { BackRefIdx i; i.main = main; i.largeObj = large; i.offset = offset; return idx_bits(i); }
unsigned long vp_idx_invalid() { return idx_bits(BackRefIdx()); }
unsigned vp_idx_is_large(unsigned long b) { return bits_idx(b).isLargeObject(); }
unsigned vp_idx_main(unsigned long b) { return bits_idx(b).getMain(); }
unsigned vp_idx_offset(unsigned long b) { return bits_idx(b).getOffset(); }

// ---- ExtMemoryPool::mallocLargeObject (large_objects.cpp)
void* vp_malloc_large(unsigned long allocationSize) { return defaultMemPool->extMemPool.mallocLargeObject(defaultMemPool, allocationSize); }

// ---- pool_identify (frontend.cpp)
void* vp_pool_identify(void* obj) { return rml::pool_identify(obj); }
void vp_block_set_pool(void* blk, void* tlsOrPool) { /* Block::getMemPool() reads poolPtr */ ((Block*)blk)->poolPtr = (MemoryPool*)tlsOrPool; }

// ---- bin arithmetic lemmas (large_objects.h / backend.h)
unsigned long vp_align_to_bin(unsigned long size) { return LargeObjectCache::alignToBin(size); }
int vp_loc_size_to_idx(unsigned long size) { return LargeObjectCache::sizeToIdx(size); }
int vp_large_idx(unsigned long size) { return LargeObjectCache::LargeCacheType::sizeToIdx(size); }
int vp_huge_idx(unsigned long size) { return LargeObjectCache::HugeCacheType::sizeToIdx(size); }
unsigned vp_large_numbins() { return LargeObjectCache::LargeCacheType::numBins; }
unsigned vp_huge_numbins() { return LargeObjectCache::HugeCacheType::numBins; }
unsigned long vp_max_large() { return LargeObjectCache::maxLargeSize; }
unsigned long vp_max_huge() { return LargeObjectCache::maxHugeSize; }
int vp_backend_size_to_bin(unsigned long size) { return Backend::sizeToBin(size); }
unsigned vp_backend_bins() { return Backend::freeBinsNum; }
unsigned long vp_backend_min_binned() { return Backend::minBinnedSize; }
unsigned long vp_backend_max_binned_small() { return Backend::maxBinned_SmallPage; }
unsigned long vp_backend_max_binned_huge() { return Backend::maxBinned_HugePage; }
unsigned long vp_backend_bin_step() { return Backend::freeBinsStep; }
int vp_backend_huge_bin() { return Backend::HUGE_BIN; }

// ---- raw memory / regions (backend.cpp): user pool built field by field in a zero-filled MemoryPool owned by the harness
void vp_pool_setup(void* pool, void* rawAlloc, void* rawFree, unsigned long granularity, unsigned fixed, unsigned keepAll, long poolId, long bootstrapStatus) {
  MemoryPool* p = (MemoryPool*)pool; ExtMemoryPool* e = &p->extMemPool;
  e->poolId = poolId; e->rawAlloc = (rml::rawAllocType)rawAlloc; e->rawFree = (rml::rawFreeType)rawFree; e->granularity = granularity;
  e->keepAllMemory = keepAll; e->fixedPool = fixed; e->delayRegsReleasing = false;
  e->backend.extMemPool = e; e->backend.bootsrapMemStatus.store(bootstrapStatus, std::memory_order_relaxed);
}
void vp_pool_set_total(void* pool, unsigned long t) { ((MemoryPool*)pool)->extMemPool.backend.totalMemSize.store(t, std::memory_order_relaxed); }
unsigned long vp_pool_total(void* pool) { return ((MemoryPool*)pool)->extMemPool.backend.totalMemSize.load(std::memory_order_relaxed); }
void* vp_region_head(void* pool) { return ((MemoryPool*)pool)->extMemPool.backend.regionList.head; }
void vp_region_set_head(void* pool, void* r) { ((MemoryPool*)pool)->extMemPool.backend.regionList.head = (MemRegion*)r; }
void* vp_region_next(void* r) { return ((MemRegion*)r)->next; }
void* vp_region_prev(void* r) { return ((MemRegion*)r)->prev; }
unsigned long vp_region_allocsz(void* r) { return ((MemRegion*)r)->allocSz; }
unsigned long vp_region_blocksz(void* r) { return ((MemRegion*)r)->blockSz; }
int vp_region_type(void* r) { return ((MemRegion*)r)->type; }
unsigned long vp_sizeof_region() { return sizeof(MemRegion); }
unsigned long vp_sizeof_lastfree() { return sizeof(LastFreeBlock); }
unsigned long vp_sizeof_freeblock() { return sizeof(FreeBlock); }
long vp_bootstrap_done() { return Backend::bootsrapMemDone; }
void* vp_add_region(void* pool, unsigned long size, int type, int addToBin) { return ((MemoryPool*)pool)->extMemPool.backend.addNewRegion(size, (MemRegionType)type, addToBin); }
void* vp_alloc_raw(void* pool, unsigned long* size) { return ((MemoryPool*)pool)->extMemPool.backend.allocRawMem(*size); }
int vp_free_raw(void* pool, void* obj, unsigned long size) { return ((MemoryPool*)pool)->extMemPool.backend.freeRawMem(obj, size); }
void* vp_map_memory(unsigned long bytes, int pageType) { return MapMemory(bytes, (PageType)pageType); }
int vp_unmap_memory(void* p, unsigned long bytes) { return UnmapMemory(p, bytes); }
unsigned long vp_huge_page_size() { return HUGE_PAGE_SIZE; }
void vp_hugepages_set(unsigned enabled, unsigned hpAvail, unsigned thpAvail) { hugePages.isEnabled = enabled; hugePages.isHPAvailable = hpAvail; hugePages.isTHPAvailable = thpAvail; }

// ---- back references (backref.cpp)
unsigned long vp_sizeof_backrefmain() { return sizeof(BackRefMain); }
unsigned long vp_sizeof_backrefblock() { return sizeof(BackRefBlock); }
int vp_br_datasz() { return BackRefMain::dataSz; }
int vp_br_maxcnt() { return BR_MAX_CNT; }
unsigned long vp_br_blockspace() { return BackRefMain::blockSpaceSize; }
void vp_br_main_setup(void* m, void* backend, void* active, void* listForUse, long lastUsed) {
  BackRefMain* b = (BackRefMain*)m; b->backend = (Backend*)backend; b->active.store((BackRefBlock*)active, std::memory_order_relaxed);
  b->listForUse.store((BackRefBlock*)listForUse, std::memory_order_relaxed); b->allRawMemBlocks = nullptr; b->lastUsed.store(lastUsed, std::memory_order_relaxed); b->rawMemUsed = false;
  backRefMain.store(b, std::memory_order_relaxed);
}
void vp_br_block_setup(void* bl, void* bump, void* freeList, int allocated, unsigned myNum, unsigned addedToForUse, void* nextForUse) {
  BackRefBlock* b = (BackRefBlock*)bl; b->bumpPtr = (FreeObject*)bump; b->freeList = (FreeObject*)freeList; b->allocatedCount.store(allocated, std::memory_order_relaxed);
  b->myNum = myNum; b->addedToForUse.store(addedToForUse, std::memory_order_relaxed); b->nextForUse = (BackRefBlock*)nextForUse; b->nextRawMemBlock = nullptr;
}
void* vp_br_active() { return backRefMain.load(std::memory_order_relaxed)->active.load(std::memory_order_relaxed); }
void* vp_br_list() { return backRefMain.load(std::memory_order_relaxed)->listForUse.load(std::memory_order_relaxed); }
void* vp_br_rawlist() { return backRefMain.load(std::memory_order_relaxed)->allRawMemBlocks; }
long vp_br_lastused() { return backRefMain.load(std::memory_order_relaxed)->lastUsed.load(std::memory_order_relaxed); }
int vp_br_block_count(void* bl) { return ((BackRefBlock*)bl)->allocatedCount.load(std::memory_order_relaxed); }
void* vp_br_block_bump(void* bl) { return ((BackRefBlock*)bl)->bumpPtr; }
void* vp_br_block_freelist(void* bl) { return ((BackRefBlock*)bl)->freeList; }
unsigned vp_br_block_added(void* bl) { return ((BackRefBlock*)bl)->addedToForUse.load(std::memory_order_relaxed); }
int vp_br_request_space() { return backRefMain.load(std::memory_order_relaxed)->requestNewSpace(); }
void* vp_br_find_free() { return backRefMain.load(std::memory_order_relaxed)->findFreeBlock(); }
unsigned long vp_br_new(unsigned large) { return idx_bits(BackRefIdx::newBackRef(large)); }
void vp_br_remove(unsigned long idxbits) { removeBackRef(bits_idx(idxbits)); }
void* vp_br_get(unsigned long idxbits) { return getBackRef(bits_idx(idxbits)); }
void vp_br_set(unsigned long idxbits, void* p) { setBackRef(bits_idx(idxbits), p); }
int vp_br_init(void* backend) { return initBackRefMain((Backend*)backend); }

// ---- Backend::splitBlock arithmetic (backend.cpp)
void* vp_split(void* pool, void* fBlock, int num, unsigned long size, int blockIsAligned, int needAligned) {
  return ((MemoryPool*)pool)->extMemPool.backend.splitBlock((FreeBlock*)fBlock, num, size, blockIsAligned, needAligned);
}
void vp_fb_set_sizetmp(void* fb, unsigned long sz) { ((FreeBlock*)fb)->sizeTmp = sz; }
unsigned long vp_fb_min() { return FreeBlock::minBlockSize; }

// ---- translator validation vectors (pure arithmetic only: nothing that reaches a cut function)
void vp_selftest() {
  unsigned long v[] = {8, 63, 64, 4096, 8191, 8192, 8193, 16384, 100000, 1048575, 1048576, 4194303, 4194304, 8388607, 8388608, 8388609, 9437184,
                       16777216, 123456789, 1ul << 32, (1ul << 40) - 1, 1ul << 40, (1ul << 40) + 1, 1ul << 50, (1ul << 63) + 5, ~0ul - (1ul << 60), ~0ul - 4096, ~0ul};
  for (unsigned long s : v) {
    unsigned long a = LargeObjectCache::alignToBin(s);
    vp_emit(a); vp_emit((unsigned long)Backend::sizeToBin(s)); vp_emit((unsigned long)Backend::sizeToBin(a));
    if (a >= 8192 && a < LargeObjectCache::maxHugeSize && a >= s) vp_emit((unsigned long)LargeObjectCache::sizeToIdx(a));
    vp_emit(alignUpGeneric(s, 4096)); vp_emit(alignUpGeneric(s, 3000));
  }
  for (unsigned s = 1; s <= 8128; s += 97) vp_emit(getObjectSize(s));
  vp_emit(vp_idx_make(5, 1, 77)); vp_emit(vp_idx_invalid()); vp_emit(vp_idx_offset(vp_idx_make(5, 1, 77))); vp_emit(vp_idx_is_large(vp_idx_make(5, 0, 77)));
  vp_emit(sizeof(MemoryPool)); vp_emit(sizeof(LargeMemoryBlock)); vp_emit(sizeof(MemRegion)); vp_emit(sizeof(FreeBlock)); vp_emit(sizeof(LastFreeBlock)); vp_emit(sizeof(BackRefBlock)); vp_emit(BackRefMain::dataSz); vp_emit(BR_MAX_CNT);
}

// ---- LargeObjectCache routing (large_objects.cpp): which cache / which bin a size is sent to
#define LOC (defaultMemPool->extMemPool.loc)
void vp_loc_setup(unsigned long threshold) { LOC.extMemPool = &defaultMemPool->extMemPool; LOC.setHugeSizeThreshold(threshold); }
unsigned long vp_loc_threshold() { return LOC.hugeSizeThreshold; }
long vp_loc_huge_thr_idx() { return LOC.hugeCache.hugeSizeThresholdIdx; }
long vp_loc_large_thr_idx() { return LOC.largeCache.hugeSizeThresholdIdx; }
unsigned long vp_loc_default_max_huge() { return LargeObjectCache::defaultMaxHugeSize; }
void vp_loc_update(int op, unsigned long size) { LOC.updateCacheState((DecreaseOrIncrease)op, size); }
void* vp_loc_get(unsigned long size) { return LOC.get(size); }
void vp_loc_put(void* lmb) { LOC.put((LargeMemoryBlock*)lmb); }
void vp_loc_putlist(void* head) { LOC.putList((LargeMemoryBlock*)head); }
void vp_loc_realloc(unsigned long oldSize, unsigned long newSize) { LOC.registerRealloc(oldSize, newSize); }
int vp_loc_in_range(unsigned long size) { return LOC.sizeInCacheRange(size); }
void* vp_loc_bin(int huge, unsigned idx) { return huge ? (void*)&LOC.hugeCache.bin[idx] : (void*)&LOC.largeCache.bin[idx]; }
void* vp_loc_bitmask(int huge) { return huge ? (void*)&LOC.hugeCache.bitMask : (void*)&LOC.largeCache.bitMask; }
void vp_lmb_link(void* p, void* next, void* prev) { ((LargeMemoryBlock*)p)->next = (LargeMemoryBlock*)next; ((LargeMemoryBlock*)p)->prev = (LargeMemoryBlock*)prev; }
void* vp_lmb_next(void* p) { return ((LargeMemoryBlock*)p)->next; }

// ---- MemoryPool::getEmptyBlock (frontend.cpp): slab refill with back-reference failure
void* vp_get_empty_block(unsigned long size) { return defaultMemPool->getEmptyBlock(size); }
void vp_tls_fsb_setup(void* tls) { TLSData* t = (TLSData*)tls; t->memPool = defaultMemPool; t->freeSlabBlocks.head.store(nullptr, std::memory_order_relaxed); t->freeSlabBlocks.size = 0; t->freeSlabBlocks.backend = &defaultMemPool->extMemPool.backend; }
void* vp_tls_fsb_head(void* tls) { return ((TLSData*)tls)->freeSlabBlocks.head.load(std::memory_order_relaxed); }
int vp_tls_fsb_size(void* tls) { return ((TLSData*)tls)->freeSlabBlocks.size; }
unsigned long vp_block_backref(void* b) { return idx_bits(*((Block*)b)->getBackRefIdx()); }
void* vp_block_pool(void* b) { return ((Block*)b)->poolPtr; }
void* vp_block_tls(void* b) { return ((Block*)b)->tlsPtr.load(std::memory_order_relaxed); }
unsigned vp_block_objsize(void* b) { return ((Block*)b)->objectSize; }
void* vp_block_bump(void* b) { return ((Block*)b)->bumpPtr; }
void* vp_block_next(void* b) { return ((Block*)b)->next; }
}

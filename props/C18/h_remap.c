/* C18 remap_fail (thorough tier): the real Backend::remap (backend.cpp, Linux mremap branch) on a default-pool backend whose
 * regionList holds a one-block large-object region R (alone, or before/after another region O) lying anywhere inside
 * usedAddrRange (in particular at its low edge, its high edge, or being the whole range); mremap is a stub that FAILS.
 * Before calling mremap the code unlinks R and calls usedAddrRange.registerFree(R); on MAP_FAILED it must restore everything.
 * Oracle after the call (for every argument combination, also the early refusals): NULL returned; R and O are in regionList
 * exactly once each with consistent links; usedAddrRange bounds as before, so ptrCanBeValid(old block) still holds;
 * totalMemSize unchanged; region header, block header, object header and LastFreeBlock untouched; mremap asked at most once
 * and only for R with its recorded size.
 * Address model (ptrhooks): region header + block header + object header are one real object at BASE, the LastFreeBlock
 * trailer at BASE+64+unalignedSize (>= 1 MB away) is a second real object. */
#include "w.h"
#include "vp.h"
typedef struct S_class_rml__internal__MemoryPool pool_t;
pool_t P;
u8 A[256] __attribute__((aligned(64)));   /* [0,40) MemRegion, [64,152) LargeMemoryBlock, [176,192) LargeObjectHdr, user pointer = A+192 */
u8 L[128] __attribute__((aligned(64)));   /* LastFreeBlock right of the block */
u8 O[64] __attribute__((aligned(64)));    /* another region of the same pool */
u64 BASE, US;                             /* address of the region, unalignedSize of its block */
u64 vpx_pthread_self(void) { return 1; }
#define LOFF (64 + US)
#ifdef VP_NATIVE
u8 PADN[4096];
u64 vp_p2i(u8* p) { return (p >= A && p < A + 256) ? BASE + (u64)(p - A) : (p >= L && p < L + 128) ? BASE + LOFF + (u64)(p - L) : (u64)p; }
#else
u64 vp_p2i(u8* p) { return __CPROVER_POINTER_OBJECT(p) == __CPROVER_POINTER_OBJECT(A) ? BASE + (u64)__CPROVER_POINTER_OFFSET(p) :
                           __CPROVER_POINTER_OBJECT(p) == __CPROVER_POINTER_OBJECT(L) ? BASE + LOFF + (u64)__CPROVER_POINTER_OFFSET(p) : (u64)p; }
#endif
u8* vp_i2p(u64 x) { return (x >= BASE && x - BASE < 256) ? A + (x - BASE) : (x >= BASE + LOFF && x - BASE - LOFF < 128) ? L + (x - BASE - LOFF) : (u8*)x; }
int n_mremap; u8* mr_old; u64 mr_oldsz, mr_newsz;
u8* vpx_mremap(u8* old, u64 oldsz, u64 newsz, u32 flags, ...) { n_mremap++; mr_old = old; mr_oldsz = oldsz; mr_newsz = newsz; return (u8*)~0ull; /* MAP_FAILED */ }
void _ZN3rml8internal7Backend13startUseBlockEPNS0_9MemRegionEPNS0_9FreeBlockEb(struct S_class_rml__internal__Backend* b, struct S_struct_rml__internal__MemRegion* r, struct S_class_rml__internal__FreeBlock* f, u8 add) { VP_ASSERT(0, "startUseBlock reached although mremap failed"); }
u8 _ZN3rml8internalL16doInitializationEv(void) { return 1; }
int main(void) {
  BASE = vp_nd(); __CPROVER_assume(BASE % 4096 == 0 && BASE >= (1ull << 62) && BASE < (1ull << 62) + (1ull << 60));
  US = vp_nd(); __CPROVER_assume(US >= (1ull << 20) && US < (1ull << 45) && US % 8192 == 0);
  u64 allocSz = vp_nd(); __CPROVER_assume(allocSz % 4096 == 0 && allocSz >= 64 + US + vp_sizeof_lastfree() && allocSz < (1ull << 46));
  u64 left = vp_nd(), right = vp_nd(), total = vp_nd();
  __CPROVER_assume(left <= BASE && right >= BASE + allocSz && left >= 4096 && total >= allocSz && total < (1ull << 60));
  int pos = POS;     /* 0: R alone, 1: R -> O, 2: O -> R */
  u32 type = (u32)vp_nd_range(0, 2); int isLast = vp_nd_bool();
  vp_region_setup(A, allocSz, US, (int)type, pos == 1 ? (u8*)O : (u8*)0, pos == 2 ? (u8*)O : (u8*)0);
  vp_region_setup(O, 4096, 0, 0, pos == 2 ? (u8*)A : (u8*)0, pos == 1 ? (u8*)A : (u8*)0);
  u64 osz = vp_nd(); __CPROVER_assume(osz >= 1 && 128 + osz <= US);
  vp_lmb_setup(A + 64, US, osz, 0x0000000100000007ull);
  vp_hdr_set(A + 192, A + 64, 0x0000000100000007ull);
  vp_lastfree_setup(L, A, isLast);
  vp_bk_setup((u8*)&P, 4096, left, right, total, pos == 2 ? (u8*)O : (u8*)A);
  u64 oldSize = vp_nd(), newSize = vp_nd(), lg = vp_nd(); __CPROVER_assume(lg <= 63);
  /* No bound on newSize: for newSize near 2^64 `alignToBin(newSize + userOffset)` wraps; upstream only tested `requestSize < alignedSize`,
     so mremap was asked to SHRINK the region and realloc returned the old pointer with objectSize = newSize (defect found with this
     harness, props/C18/repro_remap_wrap.cpp; repaired in /repo by also testing `alignedSize < newSize`). The mremap-size assertion
     below ("mremap asked for a wrong region / size") is what reports it. */
  u8* r = vp_remap((u8*)&P, A + 192, oldSize, newSize, 1ull << lg);
  VP_ASSERT(r == 0, "remap returned an object although mremap failed");
  VP_ASSERT(n_mremap <= 1, "mremap called more than once");
  if (n_mremap) VP_ASSERT(mr_old == A && mr_oldsz == allocSz && mr_newsz >= newSize, "mremap asked for a wrong region / size");
  /* region list: R and O (if any) exactly once, links consistent */
  u8* h = vp_bk_head((u8*)&P); int seenR = 0, seenO = 0; u8* prev = 0;
  for (int i = 0; i < 3 && h; i++) { VP_ASSERT(h == A || h == O, "foreign node in the region list"); if (h == A) seenR++; else seenO++; VP_ASSERT(vp_region_prev(h) == prev, "region list back link broken"); prev = h; h = vp_region_next(h); }
  VP_ASSERT(h == 0, "region list has a cycle");
  VP_ASSERT(seenR == 1, "after a refused remap the old region must be in the region list exactly once (live block would never be released / released twice)");
  VP_ASSERT(seenO == (pos != 0), "another region was lost from / duplicated in the region list");
  VP_ASSERT(vp_bk_left((u8*)&P) == left && vp_bk_right((u8*)&P) == right, "usedAddrRange not restored after a refused remap");
  VP_ASSERT(vp_bk_can_be_valid((u8*)&P, A + 192), "live block no longer recognised by ptrCanBeValid after a refused remap");
  VP_ASSERT(vp_bk_total((u8*)&P) == total, "totalMemSize changed by a refused remap");
  VP_ASSERT(vp_region_allocsz(A) == allocSz && vp_region_blocksz(A) == US && (u32)vp_region_type(A) == type, "region header changed");
  VP_ASSERT(vp_lmb_unaligned(A + 64) == US && vp_lmb_objsize(A + 64) == osz && vp_hdr_block(A + 192) == A + 64 && vp_hdr_idx(A + 192) == 0x0000000100000007ull, "block / object header changed");
  VP_ASSERT(vp_lastfree_region(L) == A && vp_lastfree_islast(L) == isLast, "LastFreeBlock trailer changed");
  __CPROVER_assume(n_mremap == 1);     /* the witness must be reachable THROUGH the failing mremap (revert branch) */
  VP_REACHED();
}

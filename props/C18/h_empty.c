/* C18: MemoryPool::getEmptyBlock (frontend.cpp), slab refill, one step: back-reference failure after the backend delivered slabs.
 * Cut: Backend::getSlabBlock (NULL or a 16 KB aligned run of `num` slabs), BackRefIdx::newBackRef (succeeds/fails per slab,
 * symbolic), Backend::putSlabBlock / removeBackRef / setBackRef (recorders), MemoryPool::getTLS (NULL => 1 slab; TLS object with
 * an empty per-thread slab pool => numOfSlabAllocOnMiss = 2 slabs). The two slab headers are real objects, 16 KB apart in the address model.
 * Oracle, failure: NULL; every slab {result + j*16384 | j < num} handed back through putSlabBlock exactly once and nothing else;
 * the back references already taken are released exactly once each; no back reference set; per-thread pool untouched.
 * success: every slab carries its own back reference (set to the slab), pool and TLS pointers; the spare slab goes to the
 * per-thread pool; the first one is initialised for the requested size. */
#include "w.h"
#include "vp.h"
typedef struct S_class_rml__internal__Block blk_t;
typedef struct S_class_rml__internal__TLSData tls_t;
typedef struct S_class_rml__internal__MemoryPool pool_t;
#define SLAB 16384
/* Both worlds agree on addresses: a pointer derived from the first header by pointer arithmetic (offset o, even out of bounds)
   has address BASE+o, one derived from the second BASE+SLAB+o. cbmc: two separate header objects. Native replay: one 32 KB
   buffer with real 16 KB spacing (two adjacent 128-byte objects would make first+128 alias the second slab natively). */
#define HS sizeof(blk_t)
#ifdef VP_NATIVE
u8 NB[2 * SLAB] __attribute__((aligned(SLAB)));
#define S0 (NB)
#define S1 (NB + SLAB)
u64 BASE;
u64 vp_p2i(u8* p) { return (p >= NB && p < NB + 2 * SLAB) ? BASE + (u64)(p - NB) : (u64)p; }
u8* vp_i2p(u64 x) { return (x >= BASE && x - BASE < 2 * SLAB) ? NB + (x - BASE) : (u8*)x; }
#else
blk_t H0 __attribute__((aligned(128))), H1 __attribute__((aligned(128)));
#define S0 ((u8*)&H0)
#define S1 ((u8*)&H1)
u64 BASE;
u64 vp_p2i(u8* p) { return __CPROVER_POINTER_OBJECT(p) == __CPROVER_POINTER_OBJECT(S0) ? BASE + (u64)__CPROVER_POINTER_OFFSET(p) :
                           __CPROVER_POINTER_OBJECT(p) == __CPROVER_POINTER_OBJECT(S1) ? BASE + SLAB + (u64)__CPROVER_POINTER_OFFSET(p) : (u64)p; }
u8* vp_i2p(u64 x) { return (x >= BASE && x - BASE < HS) ? S0 + (x - BASE) : (x >= BASE + SLAB && x - BASE - SLAB < HS) ? S1 + (x - BASE - SLAB) : (u8*)x; }
#endif
tls_t TLS; u8* the_tls;
u64 vpx_pthread_self(void) { return 1; }
int n_get, got_num, slab_null, n_new, n_rm, n_put, n_set; int ok[2]; u64 idx[2], rm_idx[2], put_addr[2], set_idx[2]; u8* set_ptr[2];
struct S_class_rml__internal__BlockI* _ZN3rml8internal7Backend12getSlabBlockEi(struct S_class_rml__internal__Backend* b, u32 num) {
  n_get++; got_num = (int)num;
  if (vp_nd_bool()) { slab_null = 1; return 0; }
  return (struct S_class_rml__internal__BlockI*)S0;
}
void _ZN3rml8internal7Backend12putSlabBlockEPNS0_6BlockIE(struct S_class_rml__internal__Backend* b, struct S_class_rml__internal__BlockI* bl) {
  VP_ASSERT(n_put < 2, "more slabs handed back than were obtained");
  u64 a = vp_p2i((u8*)bl);
  VP_ASSERT(a == BASE || (got_num == 2 && a == BASE + SLAB), "putSlabBlock got an address that is not the start of one of the obtained slabs (wrong stride)");
  if (n_put < 2) put_addr[n_put++] = a;
}
u64 _ZN3rml8internal10BackRefIdx10newBackRefEb(u8 large) {
  VP_ASSERT(large == 0, "slab back reference requested as large-object reference");
  VP_ASSERT(n_new < 2, "more back references requested than slabs"); if (n_new >= 2) return vp_idx_invalid();
  int k = n_new++; ok[k] = vp_nd_bool();
  idx[k] = ok[k] ? vp_idx_make(10 + k, 0, 100 + k) : vp_idx_invalid();
  return idx[k];
}
void _ZN3rml8internal13removeBackRefENS0_10BackRefIdxE(u64 i) { VP_ASSERT(n_rm < 2, "more back references released than taken"); if (n_rm < 2) rm_idx[n_rm++] = i; }
void _ZN3rml8internal10setBackRefENS0_10BackRefIdxEPv(u64 i, u8* p) { VP_ASSERT(n_set < 2, "too many setBackRef"); if (n_set < 2) { set_idx[n_set] = i; set_ptr[n_set] = p; n_set++; } }
tls_t* _ZN3rml8internal10MemoryPool6getTLSEb(pool_t* mp, u8 create) { VP_ASSERT(!create, "getEmptyBlock must not create a TLS"); return (tls_t*)the_tls; }
u8 _ZN3rml8internalL16doInitializationEv(void) { return 1; }
int main(void) {
  BASE = vp_nd(); __CPROVER_assume(BASE % SLAB == 0 && BASE >= (1ull << 62) && BASE < (1ull << 62) + (1ull << 61));
  u64 size = vp_nd_range(1, 8128);
  if (vp_nd_bool()) { the_tls = (u8*)&TLS; vp_tls_fsb_setup(the_tls); }
  int num = the_tls ? 2 : 1;
  u8* r = vp_get_empty_block(size);
  VP_ASSERT(n_get == 1 && got_num == num, "backend asked for a wrong number of slabs");
  if (slab_null) { VP_ASSERT(r == 0 && n_new == 0 && n_put == 0 && n_rm == 0 && n_set == 0, "backend failure must leave everything untouched"); }
  else {
    int fail = -1;
    for (int k = 0; k < 2; k++) if (k < n_new && !ok[k] && fail < 0) fail = k;
    if (fail >= 0) {
      VP_ASSERT(r == 0, "back-reference failure must give NULL");
      VP_ASSERT(n_new == fail + 1, "back references requested after the failure");
      VP_ASSERT(n_rm == fail && (fail < 1 || rm_idx[0] == idx[0]), "back references already taken must be released exactly once each");
      VP_ASSERT(n_put == num, "every slab obtained from the backend must be handed back (slab leaked / extra slab returned)");
      VP_ASSERT(put_addr[0] == BASE || (num == 2 && put_addr[0] == BASE + SLAB), "putSlabBlock got an address that is not one of the obtained slabs");
      if (num == 2) VP_ASSERT((put_addr[1] == BASE || put_addr[1] == BASE + SLAB) && put_addr[0] != put_addr[1], "the two slabs must be handed back once each (same slab twice / wrong stride)");
      VP_ASSERT(n_set == 0, "back reference registered although the refill failed");
      if (the_tls) VP_ASSERT(vp_tls_fsb_head(the_tls) == 0, "per-thread slab pool changed by a failed refill");
    } else {
      VP_ASSERT(r == S0 && n_new == num && n_put == 0 && n_rm == 0 && n_set == num, "successful refill: wrong result or roll-back actions");
      VP_ASSERT(set_idx[0] == idx[0] && set_ptr[0] == S0 && vp_block_backref(S0) == idx[0] && vp_block_pool(S0) == vp_default_pool() && vp_block_tls(S0) == the_tls, "first slab not registered with its own back reference / pool / TLS");
      if (num == 2) {
        VP_ASSERT(idx[0] != idx[1] && set_idx[1] == idx[1] && set_ptr[1] == S1 && vp_block_backref(S1) == idx[1] && vp_block_pool(S1) == vp_default_pool() && vp_block_tls(S1) == the_tls, "second slab not registered with its own back reference / pool / TLS");
        VP_ASSERT(vp_tls_fsb_head(the_tls) == S1 && vp_block_next(S1) == 0 && vp_tls_fsb_size(the_tls) == 1, "spare slab not placed in the per-thread pool");
      }
      VP_ASSERT(vp_block_objsize(S0) == vp_objsize((u32)size) && vp_p2i(vp_block_bump(S0)) == BASE + SLAB - vp_objsize((u32)size), "first slab not initialised for the requested size");
    }
  }
  VP_REACHED();
}

/* C18/C17 one-step arithmetic lemmas over the real bin-index functions (large_objects.h, backend.h), symbolic full-width sizes.
 *  L=1 LargeObjectCache::alignToBin: result >= size unless it wrapped (and it wraps only above 2^64-2^60); rounding is
 *      idempotent, monotone, and adds less than one bin step (8 KB below 8 MB, 1/8 of the leading power of two above);
 *  L=2 LargeObjectCache::sizeToIdx / Large-/HugeCacheType::sizeToIdx on bin-aligned sizes in the cached range
 *      [8 KB, 1 TB): index inside the bin array, strictly monotone (distinct bin sizes get distinct bins, size <= bin size < next);
 *  L=3 Backend::sizeToBin: bin in range; bin*step+min <= size < (bin+1)*step+min; NO_BIN below 8 KB; HUGE_BIN from 4 MB. */
#include "w.h"
#include "vp.h"
typedef unsigned __int128 u128;
static u64 step_of(u64 s) {   /* specification of the bin grid, written independently of the code under test */
  if (s < vp_max_large()) return 8192;
  u64 p = 1ull << 63; while (p > s) p >>= 1;   /* leading power of two; loop bounded by 64 */
  return p >> 3;
}
int main(void) {
  u64 s = vp_nd(), t = vp_nd();
#if L == 1
  __CPROVER_assume(s >= 8);
  u64 a = vp_align_to_bin(s);
  u64 st = step_of(s);
  if ((u128)s + st - 1 < ((u128)1 << 64)) {
    VP_ASSERT(a >= s, "alignToBin rounded down");
    VP_ASSERT(a - s < st, "alignToBin added a whole bin step or more");
    VP_ASSERT(a % st == 0, "alignToBin result not on the bin grid of its size");
    VP_ASSERT(vp_align_to_bin(a) == a, "alignToBin not idempotent");
  } else VP_ASSERT(a < s, "alignToBin must wrap (and be detected by callers) when size+step-1 >= 2^64");
  VP_ASSERT(a >= s || s > 0ull - (1ull << 60), "alignToBin wrapped for a size below 2^64-2^60");
  __CPROVER_assume(t >= s);
  u64 b = vp_align_to_bin(t);
  if (b >= t) VP_ASSERT(a <= b, "alignToBin not monotone");
#elif L == 2
  __CPROVER_assume(s >= 8192 && s < vp_max_huge() && t > s && t < vp_max_huge());
  __CPROVER_assume(vp_align_to_bin(s) == s && vp_align_to_bin(t) == t);    /* bin sizes */
  u32 NL = vp_large_numbins(), NH = vp_huge_numbins();
  int is = (int)vp_loc_size_to_idx(s), it = (int)vp_loc_size_to_idx(t);
  VP_ASSERT(is >= 0 && (u32)is < NL + NH && it >= 0 && (u32)it < NL + NH, "LargeObjectCache::sizeToIdx outside the bin range");
  VP_ASSERT(is < it, "two different bin sizes share a bin index or are ordered wrongly");
  if (s < vp_max_large()) { int k = (int)vp_large_idx(s); VP_ASSERT(k >= 0 && (u32)k < NL && k == is, "large bin index outside largeCache.bin[]"); }
  else { int k = (int)vp_huge_idx(s); VP_ASSERT(k >= 0 && (u32)k < NH && k + (int)NL == is, "huge bin index outside hugeCache.bin[]"); }
#elif L == 3
  int b = (int)vp_backend_size_to_bin(s);
  u64 mn = vp_backend_min_binned(), st = vp_backend_bin_step(), mx = vp_backend_max_binned_huge();
  if (s < mn) VP_ASSERT(b == -1, "sizeToBin: size below minBinnedSize must give NO_BIN");
  else if (s >= mx) VP_ASSERT(b == (int)vp_backend_huge_bin() && (u32)b == vp_backend_bins() - 1, "sizeToBin: sizes from maxBinned_HugePage go to HUGE_BIN");
  else {
    VP_ASSERT(b >= 0 && b < (int)vp_backend_huge_bin(), "sizeToBin: regular size outside the regular bins");
    VP_ASSERT((u64)b * st + mn <= s && s < ((u64)b + 1) * st + mn, "sizeToBin: size not inside its bin's range");
  }
  __CPROVER_assume(t >= s);
  VP_ASSERT((int)vp_backend_size_to_bin(t) >= b, "sizeToBin not monotone");
#endif
  VP_REACHED();
}

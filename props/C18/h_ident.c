/* C18: rml::pool_identify header arithmetic (frontend.cpp): real pool_identify + isLargeObject<ourMem> + Block::getMemPool;
 * getBackRef is cut. Unit built with ptrhooks: the object's memory gets a symbolic address BASE.
 *  KIND=0 small object inside a slab of pool POOL: any 8-byte aligned position behind the slab header; the 16 bytes in front of
 *         it (neighbour's user data or slab header fields) are arbitrary. Contract of the getBackRef stub: the back-reference
 *         table holds only addresses of registered LargeObjectHdrs and slab Blocks, so for whatever index those bytes spell it
 *         returns some pointer different from (object-16) (not a Block: not 16K aligned; not a large-object header: inside a slab).
 *  KIND=1 large object of pool POOL: block header at BASE (64-byte aligned), object 64-byte aligned behind it with a proper
 *         LargeObjectHdr; getBackRef(its index) returns the header.
 * Oracle: pool_identify names POOL (never the neighbour's bytes interpreted as a header, never a foreign pool). */
#include "w.h"
#include "vp.h"
#define ARENA 512
u8 area[ARENA] __attribute__((aligned(16384)));
u64 BASE;
u64 vpx_pthread_self(void) { return 1; }
static int in_area(u8* p) {
#ifdef VP_NATIVE
  return p >= area && p < area + ARENA;
#else
  return __CPROVER_POINTER_OBJECT(p) == __CPROVER_POINTER_OBJECT(area);
#endif
}
u64 vp_p2i(u8* p) { return in_area(p) ? BASE + (u64)(p - area) : (u64)p; }
u8* vp_i2p(u64 x) { return (x >= BASE && x - BASE < ARENA) ? area + (x - BASE) : (u8*)x; }
u8* hdr_addr; u64 true_idx; int n_gbr;
u8* _ZN3rml8internal10getBackRefENS0_10BackRefIdxE(u64 idx) {
  n_gbr++;
#if KIND == 1
  if (idx == true_idx) return hdr_addr;
#endif
  u8* q = (u8*)vp_nd(); __CPROVER_assume(q != hdr_addr); return q;
}
void _ZN3rml8internal17assertion_failureEPKciS2_S2_(u8* a, u32 b, u8* c, u8* d) { VP_ASSERT(0, "pool_identify: release assertion fired (object attributed to the default pool)"); }
u8 _ZN3rml8internalL16doInitializationEv(void) { return 1; }
int main(void) {
  u8* POOL = (u8*)vp_nd(); __CPROVER_assume(POOL != vp_default_pool() && POOL != 0);
  for (unsigned i = 0; i < ARENA / 8; i++) ((u64*)area)[i] = vp_nd();     /* arbitrary memory content */
#if KIND == 0
  BASE = vp_nd(); __CPROVER_assume(BASE % 16384 == 0 && BASE >= (1ull << 62) && BASE < (1ull << 62) + (1ull << 61));
  vp_block_set_pool(area, POOL);
  u64 off = vp_nd(); __CPROVER_assume(off % 8 == 0 && off >= 128 && off < ARENA);
  u8* obj = area + off; hdr_addr = obj - 16;
#else
  BASE = vp_nd(); __CPROVER_assume(BASE % 64 == 0 && BASE >= (1ull << 62) && BASE < (1ull << 62) + (1ull << 61));
  u64 m = vp_nd(), o = vp_nd(); __CPROVER_assume(m < 0xffffffffu && o < (1u << 15));
  true_idx = vp_idx_make((u32)m, 1, (u32)o);
  vp_lmb_setup(area, 8192, true_idx, POOL);
  u64 k = vp_nd_range(2, ARENA / 64 - 1);
  u8* obj = area + 64 * k; hdr_addr = obj - 16;
  vp_hdr_set(obj, area, true_idx);
#endif
  u8* r = vp_pool_identify(obj);
  VP_ASSERT(r == POOL, "pool_identify named the wrong pool");
  VP_ASSERT(n_gbr <= 1, "back-reference table consulted more than once");
  VP_REACHED();
}

// C18 remap_fail: real Backend::remap (backend.cpp, Linux mremap branch) on a default-pool backend holding one-block regions.
#include "src/tbbmalloc/frontend.cpp"
#include "src/tbbmalloc/large_objects.cpp"
#include "src/tbbmalloc/backref.cpp"
#include "src/tbbmalloc/backend.cpp"
using namespace rml::internal;
static inline BackRefIdx bits_idx(unsigned long b) { BackRefIdx i; memcpy(&i, &b, sizeof(i)); return i; }
static inline unsigned long idx_bits(BackRefIdx i) { unsigned long b = 0; memcpy(&b, &i, sizeof(i)); return b; }
#define BK(p) (((MemoryPool*)(p))->extMemPool.backend)
extern "C" {
void vp_bk_setup(void* pool, unsigned long granularity, unsigned long left, unsigned long right, unsigned long total, void* head) {
  MemoryPool* p = (MemoryPool*)pool; ExtMemoryPool* e = &p->extMemPool;
  e->rawAlloc = nullptr; e->rawFree = nullptr; e->granularity = granularity; e->backend.extMemPool = e;
  e->backend.usedAddrRange.leftBound.store(left, std::memory_order_relaxed); e->backend.usedAddrRange.rightBound.store(right, std::memory_order_relaxed);
  e->backend.totalMemSize.store(total, std::memory_order_relaxed); e->backend.regionList.head = (MemRegion*)head;
}
unsigned long vp_bk_left(void* pool) { return BK(pool).usedAddrRange.leftBound.load(std::memory_order_relaxed); }
unsigned long vp_bk_right(void* pool) { return BK(pool).usedAddrRange.rightBound.load(std::memory_order_relaxed); }
unsigned long vp_bk_total(void* pool) { return BK(pool).totalMemSize.load(std::memory_order_relaxed); }
int vp_bk_can_be_valid(void* pool, void* ptr) { return BK(pool).ptrCanBeValid(ptr); }
void* vp_bk_head(void* pool) { return BK(pool).regionList.head; }
void* vp_remap(void* pool, void* ptr, unsigned long oldSize, unsigned long newSize, unsigned long alignment) { return BK(pool).remap(ptr, oldSize, newSize, alignment); }
void vp_region_setup(void* r, unsigned long allocSz, unsigned long blockSz, int type, void* next, void* prev) { MemRegion* m = (MemRegion*)r; m->allocSz = allocSz; m->blockSz = blockSz; m->type = (MemRegionType)type; m->next = (MemRegion*)next; m->prev = (MemRegion*)prev; }
void* vp_region_next(void* r) { return ((MemRegion*)r)->next; }
void* vp_region_prev(void* r) { return ((MemRegion*)r)->prev; }
unsigned long vp_region_allocsz(void* r) { return ((MemRegion*)r)->allocSz; }
unsigned long vp_region_blocksz(void* r) { return ((MemRegion*)r)->blockSz; }
int vp_region_type(void* r) { return ((MemRegion*)r)->type; }
void vp_lastfree_setup(void* l, void* region, int isLast) { LastFreeBlock* b = (LastFreeBlock*)l; b->initHeader(); if (isLast) b->setMeFree(GuardedSize::LAST_REGION_BLOCK); b->memRegion = (MemRegion*)region; }
void* vp_lastfree_region(void* l) { return ((LastFreeBlock*)l)->memRegion; }
int vp_lastfree_islast(void* l) { return ((LastFreeBlock*)l)->isLastRegionBlock(); }
void vp_lmb_setup(void* p, unsigned long unalignedSize, unsigned long objectSize, unsigned long idxbits) { LargeMemoryBlock* l = (LargeMemoryBlock*)p; l->unalignedSize = unalignedSize; l->objectSize = objectSize; l->backRefIdx = bits_idx(idxbits); }
unsigned long vp_lmb_unaligned(void* p) { return ((LargeMemoryBlock*)p)->unalignedSize; }
unsigned long vp_lmb_objsize(void* p) { return ((LargeMemoryBlock*)p)->objectSize; }
void vp_hdr_set(void* obj, void* lmb, unsigned long idxbits) { LargeObjectHdr* h = (LargeObjectHdr*)obj - 1; h->memoryBlock = (LargeMemoryBlock*)lmb; h->backRefIdx = bits_idx(idxbits); }
void* vp_hdr_block(void* obj) { return ((LargeObjectHdr*)obj - 1)->memoryBlock; }
unsigned long vp_hdr_idx(void* obj) { return idx_bits(((LargeObjectHdr*)obj - 1)->backRefIdx); }
unsigned long vp_sizeof_lastfree() { return sizeof(LastFreeBlock); }
unsigned long vp_sizeof_region() { return sizeof(MemRegion); }
}

// White-box reproducer (sources included directly, like test/tbbmalloc/test_malloc_whitebox.cpp): a REFUSED large allocation whose
// size is outside the large-object cache range (defaultMaxHugeSize=64 MB < size < hugeSizeThreshold, default 1 TB) decrements the
// usedSize of a hugeCache bin that was never charged: ExtMemoryPool::mallocLargeObject calls loc.updateCacheState(decrease, size)
// unconditionally, while LargeObjectCache::get() only charges sizes with sizeInCacheRange(size). usedSize wraps to ~2^64.
// Consequence: cache heuristics only (isLOCTooLarge / bin bit mask); no heap corruption, not user visible through the public API.
// Build: g++ -std=c++17 -O1 -I/repo/include -I/repo/src -I/repo/src/tbbmalloc -I/repo repro_loc_usedsize.cpp -lpthread -ldl -o repro && ./repro
#define __TBB_MALLOC_WHITEBOX_TEST 1
#define __TBB_SOURCE_DIRECTLY_INCLUDED 1
#define __TBB_NO_IMPLICIT_LINKAGE 1
#define __TBBMALLOC_NO_IMPLICIT_LINKAGE 1
#define __TBBMALLOC_BUILD 1
#include <cstddef>
namespace tbbmalloc_whitebox { static size_t locGetProcessed = 0; static size_t locPutProcessed = 0; }
#include "src/tbbmalloc/tbbmalloc.cpp"
#include "src/tbbmalloc/frontend.cpp"
#include "src/tbbmalloc/backend.cpp"
#include "src/tbbmalloc/backref.cpp"
#include "src/tbbmalloc/large_objects.cpp"
#include "src/tbb/itt_notify.cpp"
#include <sys/resource.h>
#include <cstdio>
int main() {
  void* warm = scalable_malloc(100000); scalable_free(warm);
  size_t before = rml::internal::defaultMemPool->extMemPool.loc.getUsedSize();
  rlimit rl; getrlimit(RLIMIT_AS, &rl); rlimit lim = rl; lim.rlim_cur = 1ul << 30; setrlimit(RLIMIT_AS, &lim);   // make the 4 GB mmap fail
  void* p = scalable_malloc(4ul << 30);
  setrlimit(RLIMIT_AS, &rl);
  size_t after = rml::internal::defaultMemPool->extMemPool.loc.getUsedSize();
  printf("malloc(4GB) -> %p ; LargeObjectCache usedSize before=%zu after=%zu (delta=%zd)\n", p, before, after, (ssize_t)(after - before));
  return p == nullptr && after != before ? 1 : 0;   // 1 = accounting drift reproduced
}

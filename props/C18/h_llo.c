/* C18: large-object front end. Real MemoryPool::getFromLLOCache, LargeObjectCache::alignToBin, allocateAligned;
 * cut at ExtMemoryPool::mallocLargeObject (backend side), internalPoolMalloc (slab side), getTLS, setBackRef.
 *  H=1  getFromLLOCache(tls, size, alignment), size full 64 bit, alignment 2^6..2^63:
 *       the backend is never asked for less than size+headers+alignment (computed without wrap-around); a request is
 *       refused without reaching the backend only if the padded size cannot be represented after bin rounding;
 *       a returned object is aligned, lies behind the block header and fits in the block; its LargeObjectHdr is consistent.
 *  H=2  allocateAligned(size, alignment) end to end through the real getFromLLOCache: size full 64 bit, alignment 2^0..2^63.
 * Stub contracts: mallocLargeObject(allocationSize) returns NULL or a 64-byte aligned block of exactly allocationSize bytes
 * with unalignedSize==allocationSize (what Backend::getLargeBlock guarantees); blocks larger than the harness arena always
 * fail (the allocator may fail at any time). internalPoolMalloc: NULL or any object with the slab-grid guarantee (C17). */
#include "w.h"
#include "vp.h"
typedef struct S_class_rml__internal__MemoryPool pool_t;
typedef struct S_struct_rml__internal__ExtMemoryPool ext_t;
typedef struct S_class_rml__internal__TLSData tls_t;
typedef struct S_struct_rml__internal__LargeMemoryBlock lmb_t;
typedef unsigned __int128 u128;
#ifndef ARENA
#define ARENA 1024
#endif
#ifndef OFFMAX
#define OFFMAX 3
#endif
u8 area[ARENA] __attribute__((aligned(ARENA)));   /* alignments tested for placement are <= ARENA/2 */
u64 vpx_pthread_self(void) { return 1; }
#ifdef PTRHOOKS
/* unit built with ptrhooks: every ptrtoint/inttoptr of the translated code goes through these. The arena is given a symbolic
   address BASE (64-byte aligned, anywhere in the address space where BASE+2^40 does not wrap): integers in [BASE,BASE+ARENA)
   are addresses inside the arena, everything else is converted as is (and faults in cbmc if dereferenced). */
u64 BASE;
static int in_area(u8* p) {
#ifdef VP_NATIVE
  return p >= area && p < area + ARENA;
#else
  return __CPROVER_POINTER_OBJECT(p) == __CPROVER_POINTER_OBJECT(area);
#endif
}
u64 vp_p2i(u8* p) { return in_area(p) ? BASE + (u64)(p - area) : (u64)p; }
u8* vp_i2p(u64 x) { return (x >= BASE && x - BASE < ARENA) ? area + (x - BASE) : (u8*)x; }
#define ADDR(p) vp_p2i((u8*)(p))
#else
#define ADDR(p) ((u64)(p))
#endif

u64 req_size, req_align;          /* what the harness asked the entry point for (alignment after the max(64,.) of callers) */
int n_mlo, mlo_null, n_sbr, n_small, small_null; u64 a_asz; u8* the_lmb; u64 the_idx; u64 sbr_idx; u8* sbr_ptr;
u64 small_p, small_usable, small_req;
u8* the_tls; tls_t tls_obj;
static u8* make_tls(void) { vp_tls_setup((u8*)&tls_obj, (u32)vp_nd()); return (u8*)&tls_obj; }

lmb_t* _ZN3rml8internal13ExtMemoryPool17mallocLargeObjectEPNS0_10MemoryPoolEm(ext_t* ext, pool_t* pool, u64 asz) {
  n_mlo++; a_asz = asz;
  VP_ASSERT(ext == (ext_t*)vp_default_extpool() && pool == (pool_t*)vp_default_pool(), "mallocLargeObject: wrong pool");
  VP_ASSERT((u128)req_size + vp_hdrs_size() + req_align <= (u128)asz, "backend asked for a block smaller than size+headers+alignment (wrapped arithmetic): too-small block");
#ifdef ARITH   /* arithmetic-only scenario: the backend always fails, nothing is dereferenced (alignment masks up to 2^63 would wipe cbmc's object bits) */
  mlo_null = 1; return 0;
#endif
  /* placement scenarios: the block is [lmb, lmb+asz) but only its first ARENA-off bytes are backed by a real object (cbmc's cost
     grows steeply with the size of byte-addressed objects). getFromLLOCache touches the block header and the 16 bytes in front
     of the returned object, which lies at or left of lmb+asz-size: so only requests with off+(asz-size) <= ARENA may succeed,
     everything else fails ("the allocator may fail at any time"); an access outside the arena is reported by cbmc. */
  u64 off = OFFMAX ? 64 * vp_nd_range(0, OFFMAX) : 0;
  if (vp_nd_bool() || asz < req_size || off + (asz - req_size) > ARENA) { mlo_null = 1; return 0; }
  the_lmb = area + off;
  u64 m = vp_nd(), o = vp_nd(); __CPROVER_assume(m < 0xffffffffu && o < (1u << 15));
  the_idx = vp_idx_make((u32)m, 1, (u32)o);
  vp_lmb_setup(the_lmb, asz, the_idx, (u8*)pool);
  return (lmb_t*)the_lmb;
}
void _ZN3rml8internal10setBackRefENS0_10BackRefIdxEPv(u64 idx, u8* p) { n_sbr++; sbr_idx = idx; sbr_ptr = p; }
tls_t* _ZN3rml8internal10MemoryPool6getTLSEb(pool_t* mp, u8 create) { return (tls_t*)the_tls; }
u8 _ZN3rml8internalL16doInitializationEv(void) { VP_ASSERT(0, "doInitialization reached although initialised"); return 1; }
u8* _ZN3rml8internalL18internalPoolMallocEPNS0_10MemoryPoolEm(pool_t* mp, u64 size) {
  n_small++; small_req = size;
  if (vp_nd_bool()) { small_null = 1; return 0; }
  if (size == 0) size = 8;
  if (size >= vp_min_large()) {            /* large object path of internalPoolMalloc: 64-byte aligned, at least size bytes */
    u64 p = vp_nd(); __CPROVER_assume(p % 64 == 0 && p != 0 && p < (1ull << 47));
    small_p = p; small_usable = size; return (u8*)p;
  }
  unsigned os = vp_objsize((unsigned)size);
  unsigned cap = (16384 - 128) / os;
  u64 b = vp_nd(); __CPROVER_assume(b >= 1 && b < (1ull << 33));
  u64 k = vp_nd(); __CPROVER_assume(k >= 1 && k <= cap);
  small_p = b * 16384 + 16384 - k * os; small_usable = os;
  return (u8*)small_p;
}

static void check_large_result(u8* r, u64 size, u64 alignment) {
  const u64 HDRS = vp_hdrs_size();
  if (n_mlo == 0) {
    VP_ASSERT(r == 0, "object returned without asking the backend");
    /* refusal without reaching the backend is legitimate only when the padded size cannot be represented: bin rounding
       (alignToBin) uses steps of at most 2^60 */
    VP_ASSERT((u128)size + HDRS + alignment > ((u128)1 << 64) - ((u128)1 << 60), "representable request refused without reaching the backend");
  } else {
    VP_ASSERT(n_mlo == 1, "backend asked more than once");
    if (mlo_null) { VP_ASSERT(r == 0, "object returned although the backend failed"); VP_ASSERT(n_sbr == 0, "back reference set although the backend failed"); }
    else {
      VP_ASSERT(r != 0, "NULL although the backend delivered a block (leak)");
      VP_ASSERT((ADDR(r) & (alignment - 1)) == 0, "large object not aligned as requested");
      VP_ASSERT(ADDR(r) >= ADDR(the_lmb) + HDRS, "large object overlaps the block header");
      VP_ASSERT(ADDR(r) - ADDR(the_lmb) <= a_asz && size <= a_asz - (ADDR(r) - ADDR(the_lmb)), "large object does not fit in its block");
      VP_ASSERT(vp_hdr_block(r) == the_lmb && vp_hdr_idx(r) == the_idx, "LargeObjectHdr does not point back to its block / back reference");
      VP_ASSERT(n_sbr == 1 && sbr_idx == the_idx && sbr_ptr == r - 16, "back reference not set to the object header");
      VP_ASSERT(vp_lmb_objsize(the_lmb) == size, "objectSize not recorded");
      VP_ASSERT(vp_lmb_unaligned(the_lmb) == a_asz && vp_lmb_idx(the_lmb) == the_idx, "block header damaged");
    }
  }
}

int main(void) {
  vp_set_initialized();
#ifdef PTRHOOKS
  BASE = vp_nd(); __CPROVER_assume(BASE % 64 == 0 && BASE >= (1ull << 62) && BASE < (1ull << 62) + (1ull << 61));   /* disjoint from cbmc object addresses (object id << 52, small ids) and from native addresses (< 2^47) */
#endif
  u64 size = vp_nd(), lg = vp_nd();
#ifdef SIZE_LT
  __CPROVER_assume(size < SIZE_LT);
#endif
#ifdef SIZE_GE
  __CPROVER_assume(size >= SIZE_GE);
#endif
#if TLS == 1
  the_tls = make_tls();
#elif TLS == 2
  if (vp_nd_bool()) the_tls = make_tls();
#endif
#ifdef LG
  lg = LG;       /* placement scenario: concrete alignment so that the alignment masks are constants */
#endif
#if H == 1
  __CPROVER_assume(lg >= 6 && lg <= 63);
  u64 alignment = 1ull << lg;
  req_size = size; req_align = alignment;
  u8* r = vp_llo(the_tls, size, alignment);
  VP_ASSERT(n_small == 0, "slab allocator reached from getFromLLOCache");
  check_large_result(r, size, alignment);
#elif H == 2
  __CPROVER_assume(lg <= 63);
  u64 alignment = 1ull << lg;
  req_size = size; req_align = alignment < 64 ? 64 : alignment;
  u8* r = vp_alloc_aligned(size, alignment);
  VP_ASSERT(n_small + n_mlo <= 1, "allocateAligned consulted the inner allocators more than once");
  if (n_small) {
    VP_ASSERT(small_req >= size, "allocateAligned asked the slab allocator for less than size (wrapped addition)");
    if (small_null) VP_ASSERT(r == 0, "non-null result from a failed inner allocation");
    else {
      VP_ASSERT(r != 0, "NULL although the inner allocation succeeded (leak)");
      VP_ASSERT(((u64)r & (alignment - 1)) == 0, "aligned allocation is not aligned to the requested alignment");
      VP_ASSERT((u64)r >= small_p && (u64)r - small_p <= small_usable && size <= small_usable - ((u64)r - small_p), "aligned block does not fit inside the object obtained from the inner allocator");
    }
  } else check_large_result(r, size, req_align);
#endif
  VP_REACHED();
}

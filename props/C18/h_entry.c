/* C18: argument validation / overflow guards / dispatch of the tbbmalloc C entry points (real frontend.cpp),
 * inner allocator cut at internalMalloc / internalPoolMalloc / allocateAligned / reallocAligned / internalPoolFree /
 * MemoryPool::init / doInitialization. The stubs below record that they were reached and with which arguments and
 * return NULL or an arbitrary (symbolic) pointer: "the allocator may fail at any call".
 * H selects the entry point, PART the input region (see spec.py). */
#include "w.h"
#include "vp.h"
typedef struct S_class_rml__internal__MemoryPool pool_t;
typedef struct S_struct_rml__MemPoolPolicy policy_t;
#define POW2(x) ((x) != 0 && (((x) & ((x) - 1)) == 0))

/* ---- errno (external boundary: libc) ---- */
u32 the_errno;
u32* vpx___errno_location(void) { return &the_errno; }
#define ERRNO_INIT 4242u

/* ---- recording stubs of the cut allocator ---- */
int n_malloc, n_poolmalloc, n_aligned, n_realloc, n_free, n_init, n_doinit;
u64 a_size, a_align; u8* a_ptr; pool_t* a_pool; u8* a_freed; pool_t* a_freepool; u64 a_freesize;
u8* stub_ret; int stub_null;
#ifndef BUF
#define BUF 64
#endif
u8 buf[BUF + 8];
static u8* any_result(u64 size) {
  if (vp_nd_bool()) { stub_null = 1; stub_ret = 0; return 0; }
#ifdef REAL_BUF
  if (size > BUF && H != 6) { stub_null = 1; stub_ret = 0; return 0; }   /* contract: the allocator may always fail */
  stub_ret = buf; return buf;
#else
  u64 p = vp_nd(); __CPROVER_assume(p != 0);
  stub_ret = (u8*)p; return stub_ret;
#endif
}
#if H == 6
/* pool_create clears the 125 KB descriptor with memset; cbmc's built-in memset model does not cope with that size, so for
   this harness memset on the descriptor buffer is an observer (records its arguments), the descriptor content is not used */
int n_memset, ms_c; u64 ms_n;
void* memset(void* p, int c, size_t n) {
  if (p == (void*)buf) { n_memset++; ms_c = c; ms_n = n; return p; }
  for (size_t k = 0; k < n; k++) ((u8*)p)[k] = (u8)c;
  return p;
}
#endif
u8* _ZN3rml8internalL14internalMallocEm(u64 size) { n_malloc++; a_size = size; return any_result(size); }
u8* _ZN3rml8internalL18internalPoolMallocEPNS0_10MemoryPoolEm(pool_t* mp, u64 size) { n_poolmalloc++; a_pool = mp; a_size = size; return any_result(size); }
u8* _ZN3rml8internalL15allocateAlignedEPNS0_10MemoryPoolEmm(pool_t* mp, u64 size, u64 alignment) {
  n_aligned++; a_pool = mp; a_size = size; a_align = alignment;
  VP_ASSERT(POW2(alignment), "allocateAligned reached with an alignment that is not a power of two");
  return any_result(size);
}
u8* _ZN3rml8internalL14reallocAlignedEPNS0_10MemoryPoolEPvmm(pool_t* mp, u8* ptr, u64 size, u64 alignment) {
  n_realloc++; a_pool = mp; a_ptr = ptr; a_size = size; a_align = alignment;
  VP_ASSERT(alignment == 0 || POW2(alignment), "reallocAligned reached with an alignment that is not a power of two");
  VP_ASSERT(ptr != 0 && size != 0, "reallocAligned reached with NULL pointer or zero size (callers must dispatch these)");
  return any_result(size);
}
/* (the third parameter, size, is removed by LLVM's dead-argument elimination: every caller in this TU passes 0) */
u8 _ZN3rml8internalL16internalPoolFreeEPNS0_10MemoryPoolEPvm(pool_t* mp, u8* obj) { n_free++; a_freepool = mp; a_freed = obj; a_freesize = 0; return 1; }
int init_ok;
u8 _ZN3rml8internal10MemoryPool4initElPKNS_13MemPoolPolicyE(pool_t* mp, u64 id, policy_t* pol) { n_init++; a_pool = mp; init_ok = vp_nd_bool(); return (u8)init_ok; }
int doinit_ok;
u8 _ZN3rml8internalL16doInitializationEv(void) { n_doinit++; doinit_ok = vp_nd_bool(); if (doinit_ok) vp_set_initialized(); return (u8)doinit_ok; }
#define N_ALLOC (n_malloc + n_poolmalloc + n_aligned + n_realloc)
#define NOTHING_REACHED (N_ALLOC == 0 && n_free == 0 && n_init == 0)

int main(void) {
  const u32 EINVAL_ = vp_EINVAL(), ENOMEM_ = vp_ENOMEM();
  pool_t* const DEF = (pool_t*)vp_default_pool();
  the_errno = ERRNO_INIT;
#ifndef NOINIT
  vp_set_initialized();
#endif

#if H == 1  /* ------------------------------------------------ scalable_calloc */
  u64 nobj = vp_nd(), size = vp_nd();
  int overflow;
  const u64 HALF = 1ull << 32;
  int exact = 1;    /* compare the allocator's argument with an independently computed product (a second multiplier) */
#if PART == 0       /* both below 2^32: the product cannot overflow ((2^32-1)^2 < 2^64) */
  __CPROVER_assume(nobj < HALF && size < HALF); overflow = 0;
  exact = 0;        /* equivalence of two 32x32 multipliers is not reliably decided by SAT: exact product is checked in PART 2..5 */
#elif PART == 5     /* both below 2^W: exact product with full mantissas */
  __CPROVER_assume(nobj < (1ull << W) && size < (1ull << W)); overflow = 0;
#elif PART == 1     /* both at least 2^32: the product always overflows (>= 2^64) */
  __CPROVER_assume(nobj >= HALF && size >= HALF); overflow = 1;
#elif PART == 2     /* nobj any power of two, size full width: overflow iff size >= 2^(64-k) */
  { u64 k = vp_nd(); __CPROVER_assume(k < 64); nobj = 1ull << k; overflow = k != 0 && (size >> (64 - k)) != 0; }
#elif PART == 3     /* nobj < 2^W, size full width */
  __CPROVER_assume(nobj < (1u << W)); overflow = (((unsigned __int128)nobj * size) >> 64) != 0;
#elif PART == 4     /* size < 2^W, nobj full width */
  __CPROVER_assume(size < (1u << W)); overflow = (((unsigned __int128)nobj * size) >> 64) != 0;
#endif
  u64 i = vp_nd(); __CPROVER_assume(i < BUF + 8);
  memset(buf, 0xA5, sizeof buf);   /* garbage pattern: zero-filling must be the callee's work */
  u8* r = vp_calloc(nobj, size);
  if (overflow) {
    VP_ASSERT(r == 0, "calloc: nobj*size overflows but a block was returned");
    VP_ASSERT(the_errno == ENOMEM_, "calloc: overflow must set errno=ENOMEM");
    VP_ASSERT(NOTHING_REACHED, "calloc: overflow must not reach the allocator");
  } else {
    VP_ASSERT(n_malloc == 1 && N_ALLOC == 1 && n_free == 0, "calloc: allocator must be consulted exactly once");
    if (exact) VP_ASSERT(a_size == nobj * size, "calloc: allocator not asked for exactly nobj*size bytes");
    VP_ASSERT(r == stub_ret, "calloc: result is not what the allocator returned");
    if (r == 0) VP_ASSERT(the_errno == ENOMEM_, "calloc: failed allocation must set errno=ENOMEM");
    else {
      VP_ASSERT(the_errno == ERRNO_INIT, "calloc: errno touched on success");
      if (i < a_size) VP_ASSERT(buf[i] == 0, "calloc: block not zero-filled");
      else VP_ASSERT(buf[i] == 0xA5, "calloc: wrote past the requested size");
    }
  }

#elif H == 2  /* ------------------------------------------------ scalable_posix_memalign */
  u64 alignment = vp_nd(), size = vp_nd();
  u8* slot = (u8*)0x77;
  u32 rc = vp_posix_memalign(&slot, alignment, size);
  if (!POW2(alignment) || alignment < 8) {
    VP_ASSERT(rc == EINVAL_, "posix_memalign: bad alignment (not a power of two or < sizeof(void*)) must give EINVAL");
    VP_ASSERT(NOTHING_REACHED, "posix_memalign: bad alignment must not reach the allocator");
    VP_ASSERT(slot == (u8*)0x77, "posix_memalign: *memptr modified on error");
  } else {
    VP_ASSERT(n_aligned == 1 && N_ALLOC == 1 && n_free == 0, "posix_memalign: allocateAligned must be consulted exactly once");
    VP_ASSERT(a_pool == DEF && a_size == size && a_align == alignment, "posix_memalign: arguments altered on the way to allocateAligned");
    if (stub_null) { VP_ASSERT(rc == ENOMEM_, "posix_memalign: failed allocation must give ENOMEM"); VP_ASSERT(slot == (u8*)0x77, "posix_memalign: *memptr modified on error"); }
    else { VP_ASSERT(rc == 0, "posix_memalign: success must return 0"); VP_ASSERT(slot == stub_ret, "posix_memalign: *memptr is not the allocated block"); }
  }
  VP_ASSERT(the_errno == ERRNO_INIT, "posix_memalign must not touch errno");

#elif H == 3  /* ------------------------------------------------ scalable_aligned_malloc / pool_aligned_malloc */
  u64 alignment = vp_nd(), size = vp_nd();
#if PART == 0
  u8* r = vp_aligned_malloc(size, alignment); pool_t* P = DEF;
#else
  pool_t* P = (pool_t*)vp_nd();
  u8* r = vp_pool_aligned_malloc((u8*)P, size, alignment);
#endif
  if (!POW2(alignment) || size == 0) {
    VP_ASSERT(r == 0, "aligned_malloc: bad alignment / zero size must return NULL");
    VP_ASSERT(NOTHING_REACHED, "aligned_malloc: bad arguments must not reach the allocator");
    if (PART == 0) VP_ASSERT(the_errno == EINVAL_, "aligned_malloc: bad arguments must set errno=EINVAL");
  } else {
    VP_ASSERT(n_aligned == 1 && N_ALLOC == 1 && n_free == 0, "aligned_malloc: allocateAligned must be consulted exactly once");
    VP_ASSERT(a_pool == P && a_size == size && a_align == alignment, "aligned_malloc: arguments altered on the way to allocateAligned");
    VP_ASSERT(r == stub_ret, "aligned_malloc: result is not what the allocator returned");
    if (PART == 0) VP_ASSERT(the_errno == (r ? ERRNO_INIT : ENOMEM_), "aligned_malloc: errno must be ENOMEM exactly on failure");
  }
  if (PART != 0) VP_ASSERT(the_errno == ERRNO_INIT, "pool_aligned_malloc must not touch errno");

#elif H == 4  /* ------------------------------------------------ scalable_aligned_realloc / pool_aligned_realloc */
  u64 alignment = vp_nd(), size = vp_nd(); u8* ptr = (u8*)vp_nd();
#if PART == 0
  u8* r = vp_aligned_realloc(ptr, size, alignment); pool_t* P = DEF;
#else
  pool_t* P = (pool_t*)vp_nd();
  u8* r = vp_pool_aligned_realloc((u8*)P, ptr, size, alignment);
#endif
  if (!POW2(alignment)) {
    VP_ASSERT(r == 0, "aligned_realloc: bad alignment must return NULL");
    VP_ASSERT(NOTHING_REACHED, "aligned_realloc: bad alignment must reach neither the allocator nor free (the old block stays valid)");
    if (PART == 0) VP_ASSERT(the_errno == EINVAL_, "aligned_realloc: bad alignment must set errno=EINVAL");
  } else if (ptr == 0) {
    VP_ASSERT(n_aligned == 1 && N_ALLOC == 1 && n_free == 0, "aligned_realloc(NULL,..): must behave as aligned allocation");
    VP_ASSERT(a_pool == P && a_size == size && a_align == alignment, "aligned_realloc(NULL,..): arguments altered");
    VP_ASSERT(r == stub_ret, "aligned_realloc: result is not what the allocator returned");
    if (PART == 0) VP_ASSERT(the_errno == (r ? ERRNO_INIT : ENOMEM_), "aligned_realloc: errno must be ENOMEM exactly on failure");
  } else if (size == 0) {
    VP_ASSERT(r == 0 && N_ALLOC == 0, "aligned_realloc(p,0): must free and return NULL");
    VP_ASSERT(n_free == 1 && a_freed == ptr && a_freepool == P && a_freesize == 0, "aligned_realloc(p,0): the block must be freed exactly once");
    VP_ASSERT(the_errno == ERRNO_INIT, "aligned_realloc(p,0) is not an error: errno must stay");
  } else {
    VP_ASSERT(n_realloc == 1 && N_ALLOC == 1 && n_free == 0, "aligned_realloc: reallocAligned must be consulted exactly once");
    VP_ASSERT(a_pool == P && a_ptr == ptr && a_size == size && a_align == alignment, "aligned_realloc: arguments altered");
    VP_ASSERT(r == stub_ret, "aligned_realloc: result is not what the allocator returned");
    if (PART == 0) VP_ASSERT(the_errno == (r ? ERRNO_INIT : ENOMEM_), "aligned_realloc: errno must be ENOMEM exactly on failure");
  }
  if (PART != 0) VP_ASSERT(the_errno == ERRNO_INIT, "pool_aligned_realloc must not touch errno");

#elif H == 5  /* ------------------------------------------------ scalable_malloc / scalable_realloc / pool_realloc / pool_malloc dispatch */
  u64 size = vp_nd(); u8* ptr = (u8*)vp_nd();
#if PART == 0
  u8* r = vp_realloc(ptr, size); pool_t* P = DEF;
#elif PART == 1
  pool_t* P = (pool_t*)vp_nd();
  u8* r = vp_pool_realloc((u8*)P, ptr, size);
#elif PART == 2
  ptr = 0; u8* r = vp_malloc(size); pool_t* P = DEF;
#else
  ptr = 0; pool_t* P = (pool_t*)vp_nd(); u8* r = vp_pool_malloc((u8*)P, size);
#endif
  if (ptr == 0) {
    if (PART == 0 || PART == 2) VP_ASSERT(n_malloc == 1 && N_ALLOC == 1 && n_free == 0, "realloc(NULL,n)/malloc(n): must behave as malloc(n)");
    else VP_ASSERT(n_poolmalloc == 1 && N_ALLOC == 1 && n_free == 0 && a_pool == P, "pool_realloc(NULL,n)/pool_malloc: must behave as pool_malloc(n)");
    VP_ASSERT(a_size == size && r == stub_ret, "realloc(NULL,n): size/result altered");
    if (PART == 0 || PART == 2) VP_ASSERT(the_errno == (r ? ERRNO_INIT : ENOMEM_), "malloc/realloc: errno must be ENOMEM exactly on failure");
  } else if (size == 0) {
    VP_ASSERT(r == 0 && N_ALLOC == 0, "realloc(p,0): must free and return NULL");
    VP_ASSERT(n_free == 1 && a_freed == ptr && a_freepool == P && a_freesize == 0, "realloc(p,0): the block must be freed exactly once");
    VP_ASSERT(the_errno == ERRNO_INIT, "realloc(p,0) is not an error: errno must stay");
  } else {
    VP_ASSERT(n_realloc == 1 && N_ALLOC == 1 && n_free == 0, "realloc: reallocAligned must be consulted exactly once");
    VP_ASSERT(a_pool == P && a_ptr == ptr && a_size == size && a_align == 0, "realloc: arguments altered");
    VP_ASSERT(r == stub_ret, "realloc: result is not what the allocator returned");
    if (PART == 0) VP_ASSERT(the_errno == (r ? ERRNO_INIT : ENOMEM_), "realloc: errno must be ENOMEM exactly on failure");
  }
  if (PART == 1 || PART == 3) VP_ASSERT(the_errno == ERRNO_INIT, "pool_* must not touch errno");

#elif H == 6  /* ------------------------------------------------ pool_create_v1 parameter checks and failure clean-up */
  u64 id = vp_nd(), gran = vp_nd();
  int has_alloc = vp_nd_bool(), has_free = vp_nd_bool();
  u32 version = (u32)vp_nd(), fixed = (u32)vp_nd_bool(), keep = (u32)vp_nd_bool(), reserved = (u32)vp_nd();
  __CPROVER_assume(reserved < (1u << 30));
  u8* out = (u8*)0x99;
  const u32 V = vp_POOL_VERSION();
  u32 rc = vp_pool_create(id, has_alloc, has_free, gran, version, fixed, keep, reserved, &out);
  if (!has_alloc || (int)version < (int)V || !(fixed || has_free)) {
    VP_ASSERT(rc == vp_INVALID_POLICY() && out == 0, "pool_create: invalid policy must give INVALID_POLICY and *pool=NULL");
    VP_ASSERT(NOTHING_REACHED && n_doinit == 0, "pool_create: invalid policy must not allocate");
  } else if ((int)version > (int)V || reserved != 0) {
    VP_ASSERT(rc == vp_UNSUPPORTED_POLICY() && out == 0, "pool_create: future version / reserved bits must give UNSUPPORTED_POLICY and *pool=NULL");
    VP_ASSERT(NOTHING_REACHED && n_doinit == 0, "pool_create: unsupported policy must not allocate");
  } else {
#ifdef NOINIT
    VP_ASSERT(n_doinit == 1, "pool_create: library must be initialised first");
    if (!doinit_ok) { VP_ASSERT(rc == vp_NO_MEMORY() && out == 0 && NOTHING_REACHED, "pool_create: failed initialisation must give NO_MEMORY, *pool=NULL, nothing allocated"); }
    else
#else
    VP_ASSERT(n_doinit == 0, "pool_create: re-initialisation of an initialised library");
#endif
    {
      VP_ASSERT(n_malloc == 1 && N_ALLOC == 1 && a_size == vp_sizeof_mempool(), "pool_create: pool descriptor must be allocated exactly once with its size");
      if (stub_null) VP_ASSERT(rc == vp_NO_MEMORY() && out == 0 && n_init == 0 && n_free == 0, "pool_create: failed descriptor allocation must give NO_MEMORY and touch nothing");
      else {
        VP_ASSERT(n_init == 1 && a_pool == (pool_t*)stub_ret, "pool_create: init must run once on the new descriptor");
        VP_ASSERT(n_memset == 1 && ms_c == 0 && ms_n == vp_sizeof_mempool(), "pool_create: descriptor must be cleared in full exactly once");
        if (!init_ok) {
          VP_ASSERT(rc == vp_NO_MEMORY() && out == 0, "pool_create: failed init must give NO_MEMORY and *pool=NULL");
          VP_ASSERT(n_free == 1 && a_freed == stub_ret && a_freepool == DEF, "pool_create: failed init must give the descriptor back exactly once (no leak)");
        } else {
          VP_ASSERT(rc == vp_POOL_OK() && out == stub_ret && n_free == 0, "pool_create: success must return the descriptor and free nothing");
        }
      }
    }
  }
  VP_ASSERT(the_errno == ERRNO_INIT, "pool_create must not touch errno");
#endif
  VP_REACHED();
}

/* C18: ExtMemoryPool::mallocLargeObject (large_objects.cpp), one step with every collaborator's outcome symbolic.
 * Cut: LargeObjectCache::get (cache hit or miss), BackRefIdx::newBackRef (may fail: invalid index), Backend::getLargeBlock
 * (may fail: NULL), removeBackRef, LargeObjectCache::updateCacheState (recorders).
 * Property: failure at any point => NULL, and the back reference taken for the block is given back exactly once (no leak of
 * back-reference slots, no double release); a failed back-reference allocation never reaches the backend; success => the
 * block carries exactly the back reference that was taken and the owning pool. */
#include "w.h"
#include "vp.h"
typedef struct S_class_rml__internal__MemoryPool pool_t;
typedef struct S_struct_rml__internal__ExtMemoryPool ext_t;
typedef struct S_struct_rml__internal__LargeMemoryBlock lmb_t;
u8 blk[128] __attribute__((aligned(64)));
int n_get, n_new, n_glb, n_rm, n_ucs; int hit, idx_ok, glb_ok; u64 the_idx, rm_idx, ucs_size, get_size, glb_size; u32 ucs_op, new_large;
lmb_t* _ZN3rml8internal16LargeObjectCache3getEm(struct S_class_rml__internal__LargeObjectCache* loc, u64 size) {
  n_get++; get_size = size; hit = vp_nd_bool();
  if (hit) { vp_lmb_setup(blk, size, vp_idx_make(7, 1, 9), (u8*)0x1234); return (lmb_t*)blk; }
  return 0;
}
u64 _ZN3rml8internal10BackRefIdx10newBackRefEb(u8 large) {
  n_new++; new_large = large; idx_ok = vp_nd_bool();
  if (!idx_ok) { the_idx = vp_idx_invalid(); return the_idx; }
  u64 m = vp_nd(), o = vp_nd(); __CPROVER_assume(m < 0xffffffffu && o < (1u << 15));
  the_idx = vp_idx_make((u32)m, large, (u32)o); return the_idx;
}
lmb_t* _ZN3rml8internal7Backend13getLargeBlockEm(struct S_class_rml__internal__Backend* b, u64 size) {
  n_glb++; glb_size = size; glb_ok = vp_nd_bool();
  if (!glb_ok) return 0;
  vp_lmb_setup(blk, size, vp_idx_invalid(), 0);
  return (lmb_t*)blk;
}
void _ZN3rml8internal13removeBackRefENS0_10BackRefIdxE(u64 idx) { n_rm++; rm_idx = idx; }
void _ZN3rml8internal16LargeObjectCache16updateCacheStateENS0_18DecreaseOrIncreaseEm(struct S_class_rml__internal__LargeObjectCache* loc, u32 op, u64 size) { n_ucs++; ucs_op = op; ucs_size = size; }
int main(void) {
  u64 asz = vp_nd();
  u8* r = vp_malloc_large(asz);
  VP_ASSERT(n_get == 1 && get_size == asz, "mallocLargeObject must consult the cache once with the requested size");
  if (hit) {
    VP_ASSERT(r == blk && n_new == 0 && n_glb == 0 && n_rm == 0, "cache hit: block must be returned as is, no back reference taken, backend untouched");
    VP_ASSERT(vp_lmb_idx(blk) == vp_idx_make(7, 1, 9) && vp_lmb_pool(blk) == (u8*)0x1234, "cache hit: cached block header modified");
  } else {
    VP_ASSERT(n_new == 1 && new_large == 1, "cache miss: exactly one large-object back reference must be requested");
    if (!idx_ok) {
      VP_ASSERT(r == 0, "back-reference table exhausted: must fail with NULL");
      VP_ASSERT(n_glb == 0, "back-reference table exhausted: backend must not be asked (block could not be registered)");
      VP_ASSERT(n_rm == 0, "invalid back reference released");
    } else {
      VP_ASSERT(n_glb == 1 && glb_size == asz, "backend must be asked once for exactly the requested size");
      if (!glb_ok) {
        VP_ASSERT(r == 0, "backend failure must give NULL");
        VP_ASSERT(n_rm == 1 && rm_idx == the_idx, "backend failure: the back reference taken for the block must be released exactly once (slot leak / wrong slot)");
        VP_ASSERT(n_ucs == 1 && ucs_op == 0 && ucs_size == asz, "backend failure: cache usage accounting of the miss must be rolled back");
      } else {
        VP_ASSERT(r == blk && n_rm == 0, "success: block must be returned and its back reference kept");
        VP_ASSERT(vp_lmb_idx(blk) == the_idx, "success: block does not carry the back reference taken for it");
        VP_ASSERT(vp_lmb_pool(blk) == vp_default_pool(), "success: block not owned by the requesting pool");
        VP_ASSERT(vp_lmb_unaligned(blk) == asz, "success: unalignedSize (set by the backend) damaged");
      }
    }
  }
  VP_REACHED();
}

/* C18: back-reference table growth fails cleanly (backref.cpp): real BackRefMain::requestNewSpace, findFreeBlock,
 * BackRefIdx::newBackRef with Backend::getBackRefSpace cut (raw allocation result symbolic: here NULL, the failure case).
 * State: main table header + a few slots (128-byte object), active leaf full (allocatedCount == BR_MAX_CNT), listForUse empty or not.
 *  S=1 requestNewSpace(): no room in the main table => false without asking for memory; a leaf already waiting in listForUse => true
 *      without asking; raw allocation fails => false; in every case the table (lastUsed, active, listForUse, allRawMemBlocks) is unchanged
 *      and nothing is given back that was not obtained.
 *  S=2 newBackRef() with a full active leaf, empty listForUse and failing growth => invalid index, table unchanged, leaf unchanged. */
#include "w.h"
#include "vp.h"
u8 mainTab[128] __attribute__((aligned(64)));
u8 leaf[64] __attribute__((aligned(64)));       /* header of the active leaf */
u8 leaf2[64] __attribute__((aligned(64)));      /* header of a leaf waiting in listForUse */
u64 vpx_pthread_self(void) { return 1; }
int n_get, n_put; u64 get_size;
u8* _ZN3rml8internal7Backend15getBackRefSpaceEmPb(struct S_class_rml__internal__Backend* b, u64 size, u8* rawMemUsed) { n_get++; get_size = size; return 0; }
void _ZN3rml8internal7Backend15putBackRefSpaceEPvmb(struct S_class_rml__internal__Backend* b, u8* p, u64 size, u8 raw) { n_put++; }
u8 _ZN3rml8internalL16doInitializationEv(void) { return 1; }
int main(void) {
  const int DS = (int)vp_br_datasz(), MAXC = (int)vp_br_maxcnt();
  u64 last = vp_nd();
  int haveList = vp_nd_bool();
#if S == 1
  __CPROVER_assume((long)last >= 0 && (long)last <= DS - 1);     /* any fill level of the main table, including completely full */
  int cnt = (int)vp_nd(); __CPROVER_assume(cnt >= 0 && cnt <= MAXC);
#else
  __CPROVER_assume((long)last >= 0 && (long)last <= DS - 1);
  int cnt = MAXC; haveList = 0;
#endif
  vp_br_block_setup(leaf, 0, 0, cnt, 0, 0, 0);
  vp_br_block_setup(leaf2, 0, 0, 5, 1, 1, 0);
  vp_br_main_setup(mainTab, (u8*)0x4000, leaf, haveList ? (u8*)leaf2 : (u8*)0, (long)last);
#if S == 1
  int r = (int)vp_br_request_space();
  if ((long)last + 1 >= DS) { VP_ASSERT(r == 0 && n_get == 0, "main table full: growth must be refused without asking for memory"); }
  else if (haveList) { VP_ASSERT(r == 1 && n_get == 0, "a leaf is already available: no memory must be requested"); }
  else { VP_ASSERT(n_get == 1 && get_size == vp_br_blockspace(), "growth must ask once for one batch of leaves"); VP_ASSERT(r == 0, "growth reported success although the raw allocation failed"); }
#else
  u64 idx = vp_br_new(vp_nd_bool());
  VP_ASSERT(idx == vp_idx_invalid(), "newBackRef returned a usable index although the table is exhausted / out of memory");
  VP_ASSERT((long)last + 1 >= DS ? n_get == 0 : n_get == 1, "newBackRef must try to grow exactly once");
  VP_ASSERT(vp_br_block_count(leaf) == MAXC && vp_br_block_bump(leaf) == 0 && vp_br_block_freelist(leaf) == 0, "full leaf modified by a failed newBackRef");
#endif
  VP_ASSERT(n_put == 0, "memory given back that was never obtained");
  VP_ASSERT((long)vp_br_lastused() == (long)last && vp_br_active() == leaf && vp_br_list() == (haveList ? (u8*)leaf2 : (u8*)0) && vp_br_rawlist() == 0, "back-reference table changed by a failed growth");
  VP_REACHED();
}

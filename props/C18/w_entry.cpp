// C18 wrapper over the real tbbmalloc C entry points (src/tbbmalloc/frontend.cpp is included textually).
// The inner allocator is cut (spec: cut=[internalMalloc, internalPoolMalloc, allocateAligned, reallocAligned,
// internalPoolFree, ...]); the harness supplies contract stubs that record being reached.
#include "src/tbbmalloc/frontend.cpp"
using namespace rml::internal;
extern "C" void vp_emit(unsigned long v);
extern "C" {
void* vp_calloc(unsigned long nobj, unsigned long size) { return scalable_calloc(nobj, size); }
void* vp_malloc(unsigned long size) { return scalable_malloc(size); }
void* vp_realloc(void* p, unsigned long size) { return scalable_realloc(p, size); }
int vp_posix_memalign(void** memptr, unsigned long alignment, unsigned long size) { return scalable_posix_memalign(memptr, alignment, size); }
void* vp_aligned_malloc(unsigned long size, unsigned long alignment) { return scalable_aligned_malloc(size, alignment); }
void* vp_aligned_realloc(void* p, unsigned long size, unsigned long alignment) { return scalable_aligned_realloc(p, size, alignment); }
void* vp_safer_aligned_realloc(void* p, unsigned long size, unsigned long alignment) { return __TBB_malloc_safer_aligned_realloc(p, size, alignment, nullptr); }
void* vp_pool_aligned_malloc(void* pool, unsigned long size, unsigned long alignment) { return rml::pool_aligned_malloc((rml::MemoryPool*)pool, size, alignment); }
void* vp_pool_aligned_realloc(void* pool, void* p, unsigned long size, unsigned long alignment) { return rml::pool_aligned_realloc((rml::MemoryPool*)pool, p, size, alignment); }
void* vp_pool_realloc(void* pool, void* p, unsigned long size) { return rml::pool_realloc((rml::MemoryPool*)pool, p, size); }
void* vp_pool_malloc(void* pool, unsigned long size) { return rml::pool_malloc((rml::MemoryPool*)pool, size); }
unsigned long vp_pool_msize(void* pool, void* p) { return rml::pool_msize((rml::MemoryPool*)pool, p); }
void* vp_default_pool() { return defaultMemPool; }
void vp_set_initialized() { mallocInitialized.store(2, std::memory_order_relaxed); }
unsigned long vp_min_large() { return minLargeObjectSize; }
int vp_EINVAL() { return EINVAL; }
int vp_ENOMEM() { return ENOMEM; }

// pool_create_v1: policy fields are passed one by one so that the harness does not depend on the struct layout
typedef void* (*vp_raw_alloc_t)(long, unsigned long&);
typedef int (*vp_raw_free_t)(long, void*, unsigned long);
int vp_pool_create(long pool_id, int has_alloc, int has_free, unsigned long granularity, int version,
                   unsigned fixed, unsigned keepAll, unsigned reserved, void** out) {
  rml::MemPoolPolicy pol((rml::rawAllocType)(has_alloc ? (void*)0x1000 : nullptr), (rml::rawFreeType)(has_free ? (void*)0x2000 : nullptr), granularity, fixed, keepAll);
  pol.version = version; pol.reserved = reserved;
  rml::MemoryPool* p = (rml::MemoryPool*)0x5555;
  int r = (int)rml::pool_create_v1(pool_id, &pol, &p);
  *out = p;
  return r;
}
int vp_POOL_OK() { return rml::POOL_OK; }
int vp_INVALID_POLICY() { return rml::INVALID_POLICY; }
int vp_UNSUPPORTED_POLICY() { return rml::UNSUPPORTED_POLICY; }
int vp_NO_MEMORY() { return rml::NO_MEMORY; }
int vp_POOL_VERSION() { return rml::MemPoolPolicy::TBBMALLOC_POOL_VERSION; }
unsigned long vp_sizeof_mempool() { return sizeof(rml::internal::MemoryPool); }

// translator validation vectors: only paths that do not reach a cut function
void vp_selftest() {
  unsigned long big[] = {0, 1, 2, 3, 0xffffffffUL, 0x100000000UL, 0x100000001UL, 0x8000000000000000UL, 0xffffffffffffffffUL, 0xfffffffffffffffeUL, 0x5555555555555556UL};
  for (unsigned long a : big) for (unsigned long b : big) {
    unsigned __int128 p = (unsigned __int128)a * b;
    if (p >> 64) { errno = 0; vp_emit((unsigned long)scalable_calloc(a, b)); vp_emit(errno); }
  }
  unsigned long al[] = {0, 3, 5, 6, 7, 12, 24, 0xffffffffffffffffUL, 0x8000000000000001UL, 96};
  for (unsigned long a : al) {
    void* m = (void*)0x77; errno = 0;
    vp_emit(scalable_posix_memalign(&m, a, 100)); vp_emit((unsigned long)m);
    vp_emit((unsigned long)scalable_aligned_malloc(100, a)); vp_emit(errno); errno = 0;
    vp_emit((unsigned long)scalable_aligned_realloc(nullptr, 100, a)); vp_emit(errno);
  }
  void* m = (void*)0x77;
  vp_emit(scalable_posix_memalign(&m, 1, 100)); vp_emit(scalable_posix_memalign(&m, 2, 100)); vp_emit(scalable_posix_memalign(&m, 4, 100));
  errno = 0; vp_emit((unsigned long)scalable_aligned_malloc(0, 64)); vp_emit(errno);
}
}

/* C17/C18 lemma: Backend::splitBlock (backend.cpp) arithmetic, one step, symbolic block address/size and request.
 * Cut: Backend::coalescAndPut (recorder of the pieces given back), FreeBlock::initHeader / markBlocks (header writes into the
 * pieces: would need the whole block as real memory). Preconditions = what IndexedBins::getFromBin / askMemFromOS guarantee:
 * num*size <= sizeTmp, remainders are 0 or >= FreeBlock::minBlockSize; "aligned" blocks end on a slab boundary and slab requests
 * have size == slabSize; the fixed-pool special case (aligned request from an unaligned block) has alignUp(block)+num*size <= end.
 * Oracle: the returned block and the pieces handed to coalescAndPut are pairwise disjoint, lie inside the original block and
 * tile it exactly; an aligned request yields a slab-aligned block; the alignment flag of every piece is truthful. */
#include "w.h"
#include "vp.h"
typedef struct S_class_rml__internal__MemoryPool pool_t;
typedef unsigned __int128 u128;
#define ARENA 64
u8 area[ARENA] __attribute__((aligned(64)));
u64 BASE;
pool_t P;
u64 vpx_pthread_self(void) { return 1; }
/* address model: the block starts at the 64-byte object `area` whose address is BASE; LLVM turns some of the integer address
   arithmetic into pointer arithmetic on the block pointer, so pointers up to 2^50 bytes past `area` (never dereferenced: the
   header writes are cut) belong to the block as well */
#define WIN (1ull << 50)
#ifdef VP_NATIVE
u64 vp_p2i(u8* p) { return (p >= area && (u64)(p - area) < WIN) ? BASE + (u64)(p - area) : (u64)p; }
#else
u64 vp_p2i(u8* p) { return __CPROVER_POINTER_OBJECT(p) == __CPROVER_POINTER_OBJECT(area) ? BASE + (u64)__CPROVER_POINTER_OFFSET(p) : (u64)p; }
#endif
u8* vp_i2p(u64 x) { return (x >= BASE && x - BASE < WIN) ? area + (x - BASE) : (u8*)x; }
int np; u64 pc_addr[2], pc_size[2]; u32 pc_al[2];
void _ZN3rml8internal7Backend13coalescAndPutEPNS0_9FreeBlockEmb(struct S_class_rml__internal__Backend* b, struct S_class_rml__internal__FreeBlock* fb, u64 sz, u8 aligned) {
  VP_ASSERT(np < 2, "more than two pieces given back");
  pc_addr[np] = vp_p2i((u8*)fb); pc_size[np] = sz; pc_al[np] = aligned; np++;
}
void _ZN3rml8internal9FreeBlock10initHeaderEv(struct S_class_rml__internal__FreeBlock* fb) {}
void _ZN3rml8internal9FreeBlock10markBlocksEPS1_im(struct S_class_rml__internal__FreeBlock* fb, u32 num, u64 size) {}
u8 _ZN3rml8internalL16doInitializationEv(void) { return 1; }
int main(void) {
  const u64 SLAB = vp_slab_size(), MINB = vp_fb_min();
  BASE = vp_nd(); __CPROVER_assume(BASE % 64 == 0 && BASE >= (1ull << 62) && BASE < (1ull << 62) + (1ull << 61));
  u64 sz = vp_nd(), size = vp_nd(); u32 num = (u32)vp_nd_range(1, 4);
  int blockAligned = vp_nd_bool(), needAligned = NEED;
  __CPROVER_assume(sz >= MINB && sz % 8 == 0 && sz < (1ull << 50) && size >= MINB && size < (1ull << 48) && size % 8 == 0);
  u64 total = (u64)num * size, END = BASE + sz;
  __CPROVER_assume(total <= sz);
  if (blockAligned) __CPROVER_assume(END % SLAB == 0 && sz >= SLAB);
  if (needAligned) __CPROVER_assume(size == SLAB);
  if (needAligned && !blockAligned) {     /* fixed-pool special case */
    u64 nb = (BASE + SLAB - 1) & ~(SLAB - 1);
    __CPROVER_assume(nb + total <= END && (nb == BASE || nb - BASE >= MINB) && (nb + total == END || END - (nb + total) >= MINB));
  } else __CPROVER_assume(sz == total || sz - total >= MINB);
  vp_fb_set_sizetmp(area, sz);
  u64 R = vp_p2i(vp_split((u8*)&P, area, (int)num, size, blockAligned, needAligned));
  VP_ASSERT(R >= BASE && R + total <= END, "returned block outside the original block");
  if (needAligned) VP_ASSERT(R % SLAB == 0, "aligned request answered with an unaligned block");
  u64 sum = total;
  for (int i = 0; i < 2; i++) if (i < np) {
    VP_ASSERT(pc_size[i] >= MINB, "piece smaller than a FreeBlock header given back");
    VP_ASSERT(pc_addr[i] >= BASE && pc_addr[i] + pc_size[i] <= END, "piece outside the original block");
    VP_ASSERT(pc_addr[i] + pc_size[i] <= R || pc_addr[i] >= R + total, "piece overlaps the returned block");
    VP_ASSERT(pc_al[i] == ((pc_addr[i] + pc_size[i]) % SLAB == 0 && pc_size[i] >= SLAB) || (pc_al[i] == (u32)blockAligned && !(blockAligned ^ needAligned) && !(needAligned && !blockAligned)), "alignment flag of a piece given back is wrong");
    sum += pc_size[i];
  }
  if (np == 2) VP_ASSERT(pc_addr[0] + pc_size[0] <= pc_addr[1] || pc_addr[1] + pc_size[1] <= pc_addr[0], "the two pieces overlap");
  VP_ASSERT(sum == sz, "returned block and pieces do not tile the original block (bytes lost or duplicated)");
  VP_REACHED();
}

/* C18: LargeObjectCache routing (large_objects.cpp/.h), one step, symbolic full-width size: every path that sends a size to
 * largeCache or hugeCache and indexes `bin[sizeToIdx(size)]` stays inside that cache's bin array and uses that cache's bit mask,
 * for EVERY size >= minLargeSize (in particular maxLargeSize, maxHugeSize and the sizes around them) and every legal
 * hugeSizeThreshold. The pool (and with it both caches with all their bins) is the real zero-filled defaultMemPool object.
 * Cut (recorders with the contract "acts on exactly the CacheBin it is called on"): CacheBin::get / putList / updateUsedSize
 * (the aggregator layer), Backend::returnLargeObject / getLargeBlock, BackRefIdx::newBackRef, removeBackRef.
 *  E=1 LargeObjectCache::updateCacheState(op,size)      E=2 LargeObjectCache::get(size)      E=3 LargeObjectCache::put(block)
 *  E=4 LargeObjectCache::putList(two blocks)            E=5 registerRealloc(old,new)
 *  E=6 ExtMemoryPool::mallocLargeObject refused by the backend: the cache accounting added by the miss is taken back from the
 *      very same bin (or nothing is touched at all); see the KNOWN DEVIATION note at E==6 below */
#include "w.h"
#include "vp.h"
typedef struct S_struct_rml__internal__LargeMemoryBlock lmb_t;
u64 vpx_pthread_self(void) { return 1; }
lmb_t blkA_, blkB_;      /* typed objects: pointer fields stay field-sensitive in cbmc */
#define blkA ((u8*)&blkA_)
#define blkB ((u8*)&blkB_)
#define MAXT 4
int nt; int t_huge[MAXT]; u32 t_idx[MAXT]; u64 t_delta[MAXT]; int t_kind[MAXT];   /* kind: 0 usedSize delta, 1 get, 2 putList */
u8* t_arg[MAXT];
int n_ret; u8* ret_blk[2];
static void touch(int huge, u8* bin, u8* mask, u32 idx, int kind, u64 delta, u8* arg) {
  u32 nb = huge ? vp_huge_numbins() : vp_large_numbins();
  VP_ASSERT((int)idx >= 0 && idx < nb, "CacheBin index outside the bin array of the addressed cache");
  if ((int)idx >= 0 && idx < nb) VP_ASSERT(bin == vp_loc_bin(huge, idx), "CacheBin pointer is not bin[idx] of the addressed cache");
  VP_ASSERT(mask == vp_loc_bitmask(huge), "bit mask of the other cache used");
  VP_ASSERT(nt < MAXT, "more cache-bin operations than the step can cause");
  if (nt < MAXT) { t_huge[nt] = huge; t_idx[nt] = idx; t_kind[nt] = kind; t_delta[nt] = delta; t_arg[nt] = arg; nt++; }
}
#include "h_loc_stubs.h"
u8 _ZN3rml8internalL16doInitializationEv(void) { return 1; }
void _ZN3rml8internal7Backend17returnLargeObjectEPNS0_16LargeMemoryBlockE(struct S_class_rml__internal__Backend* b, lmb_t* l) { VP_ASSERT(n_ret < 2, "block returned to the backend twice"); if (n_ret < 2) ret_blk[n_ret++] = (u8*)l; }
int n_new, n_glb, n_rm;
u64 _ZN3rml8internal10BackRefIdx10newBackRefEb(u8 large) { n_new++; return vp_idx_make(3, large, 5); }
lmb_t* _ZN3rml8internal7Backend13getLargeBlockEm(struct S_class_rml__internal__Backend* b, u64 size) { n_glb++; return 0; }
void _ZN3rml8internal13removeBackRefENS0_10BackRefIdxE(u64 idx) { n_rm++; }

/* specification of the routing, written independently of the code under test */
static int spec_huge(u64 s) { return s >= vp_max_large(); }
static int spec_cached(u64 s, u64 thr) { return s < vp_max_huge() && (s <= vp_loc_default_max_huge() || s >= thr); }
static u32 spec_idx(u64 s) {
  if (s < vp_max_large()) return (u32)((s - 8192) / 8192);
  unsigned e = 63u - (unsigned)__builtin_clzll(s);
  return 8 * (e - 23) + (u32)((s - (1ull << e)) >> (e - 3));
}
int main(void) {
  u64 thr0 = vp_nd(); __CPROVER_assume(thr0 <= vp_max_huge());
  vp_loc_setup(thr0);
  u64 thr = vp_loc_threshold();
  VP_ASSERT(thr >= vp_max_large() && thr <= vp_max_huge() && vp_align_to_bin(thr) == thr, "hugeSizeThreshold outside [maxLargeSize, maxHugeSize] or off the bin grid");
  VP_ASSERT(vp_loc_huge_thr_idx() >= 0 && vp_loc_huge_thr_idx() <= (long)vp_huge_numbins() && vp_loc_large_thr_idx() == (long)vp_large_numbins(), "threshold bin index beyond the end of the bin array");
  u64 s = vp_nd(), s2 = vp_nd();
  __CPROVER_assume(s >= 8192 && s2 >= 8192);
#ifdef GRID
  __CPROVER_assume(vp_align_to_bin(s) == s && vp_align_to_bin(s2) == s2);
#endif
#if E == 1
  u32 op = (u32)vp_nd_bool();
  vp_loc_update((int)op, s);
  if (s < vp_max_huge()) {
    VP_ASSERT(nt == 1 && t_kind[0] == 0 && t_huge[0] == spec_huge(s) && t_idx[0] == spec_idx(s), "updateCacheState routed the size to the wrong cache / bin");
    VP_ASSERT(t_delta[0] == (op ? s : 0 - s), "updateCacheState changed the accounting by a wrong amount");
  } else VP_ASSERT(nt == 0, "size beyond the cached range must not touch any bin");
#elif E == 2
  u8* r = vp_loc_get(s);
  if (spec_cached(s, thr)) VP_ASSERT(nt == 1 && t_kind[0] == 1 && t_huge[0] == spec_huge(s) && t_idx[0] == spec_idx(s) && t_delta[0] == s, "get routed the size to the wrong cache / bin");
  else VP_ASSERT(nt == 0 && r == 0, "size outside the cache range must miss without touching a bin");
  VP_ASSERT((vp_loc_in_range(s) != 0) == spec_cached(s, thr), "sizeInCacheRange disagrees with its specification");
#elif E == 3
  vp_lmb_setup(blkA, s, vp_idx_make(1, 1, 1), 0);
  vp_loc_put(blkA);
  if (spec_cached(s, thr)) VP_ASSERT(nt == 1 && n_ret == 0 && t_kind[0] == 2 && t_arg[0] == blkA && t_huge[0] == spec_huge(s) && t_idx[0] == spec_idx(s) && vp_lmb_next(blkA) == 0, "put routed the block to the wrong cache / bin");
  else VP_ASSERT(nt == 0 && n_ret == 1 && ret_blk[0] == blkA, "block outside the cache range must go back to the backend exactly once");
#elif E == 4
  /* block sizes are bin sizes (unalignedSize always comes from alignToBin): without this two different sizes can share a bin index */
  __CPROVER_assume(vp_align_to_bin(s) == s && vp_align_to_bin(s2) == s2);
  vp_lmb_setup(blkA, s, vp_idx_make(1, 1, 1), 0); vp_lmb_setup(blkB, s2, vp_idx_make(1, 1, 2), 0);
  vp_lmb_link(blkA, blkB, 0); vp_lmb_link(blkB, 0, blkA);
  vp_loc_putlist(blkA);
  int ca = spec_cached(s, thr), cb = spec_cached(s2, thr);
  int same = ca && cb && spec_huge(s) == spec_huge(s2) && spec_idx(s) == spec_idx(s2);
  VP_ASSERT(n_ret == !ca + !cb, "blocks outside the cache range must go back to the backend exactly once each");
  VP_ASSERT(nt == (same ? 1 : ca + cb), "wrong number of bins touched by putList");
  for (int i = 0; i < 2; i++) if (i < nt) {
    u64 sz = t_arg[i] == blkA ? s : s2;
    VP_ASSERT(t_kind[i] == 2 && (t_arg[i] == blkA || t_arg[i] == blkB) && t_huge[i] == spec_huge(sz) && t_idx[i] == spec_idx(sz), "putList routed a block to the wrong cache / bin");
  }
  if (same) VP_ASSERT(t_arg[0] == blkA && vp_lmb_next(blkA) == blkB && vp_lmb_next(blkB) == 0, "blocks of one bin not chained into one list");
  else if (nt == 2) VP_ASSERT(t_arg[0] != t_arg[1] && vp_lmb_next(blkA) == 0 && vp_lmb_next(blkB) == 0, "blocks of different bins must be put separately");
#elif E == 5
  __CPROVER_assume(s2 < 0 - (1ull << 60));
  vp_loc_realloc(s, s2);
  u64 a2 = vp_align_to_bin(s2);
  int n_exp = (s < vp_max_huge()) + (a2 < vp_max_huge());
  VP_ASSERT(nt == n_exp, "registerRealloc touched a wrong number of bins");
  int k = 0;
  if (s < vp_max_huge()) { VP_ASSERT(t_huge[k] == spec_huge(s) && t_idx[k] == spec_idx(s) && t_delta[k] == 0 - s, "registerRealloc: old size routed wrongly"); k++; }
  if (a2 < vp_max_huge()) VP_ASSERT(t_huge[k] == spec_huge(a2) && t_idx[k] == spec_idx(a2) && t_delta[k] == a2, "registerRealloc: new size routed wrongly");
#elif E == 6
  u8* r = vp_malloc_large(s);
  VP_ASSERT(r == 0 && n_new == 1 && n_glb == 1 && n_rm == 1, "refused allocation: NULL, back reference taken and released once");
  if (nt == 0) { /* nothing accounted, nothing to take back */ }
#ifndef STRICT_ACCOUNTING
  /* KNOWN DEVIATION of the unchanged code (reproduced natively: props/C18/repro_loc_usedsize.cpp): mallocLargeObject rolls the
     accounting back with loc.updateCacheState(decrease,size) for every size < maxHugeSize, but LargeObjectCache::get charged it
     only if sizeInCacheRange(size). For defaultMaxHugeSize < size < hugeSizeThreshold a bin that was never charged is decremented
     (usedSize wraps; heuristics only, the access itself is in range). Asserted here: that is the ONLY unbalanced case.
     -DSTRICT_ACCOUNTING turns it into a failure. */
  else if (nt == 1) {
    VP_ASSERT(t_kind[0] == 0 && t_delta[0] == 0 - s && t_huge[0] == 1 && t_idx[0] == spec_idx(s), "refused allocation: unexpected single cache operation");
    VP_ASSERT(s > vp_loc_default_max_huge() && s < thr && s < vp_max_huge(), "refused allocation: accounting unbalanced for a size inside the cache range");
  }
#endif
  else {
    VP_ASSERT(nt == 2 && t_kind[0] == 1 && t_kind[1] == 0, "refused allocation: expected one cache miss and one roll-back");
    VP_ASSERT(t_huge[0] == t_huge[1] && t_idx[0] == t_idx[1], "refused allocation: accounting rolled back in a different bin than the one charged by the miss");
    VP_ASSERT(t_delta[0] + t_delta[1] == 0, "refused allocation: usedSize of the bin not restored");
  }
#endif
  VP_REACHED();
}

/* C18: raw-memory acquisition, one step each, with the raw allocator's answer symbolic.
 *  H=1  Backend::addNewRegion + allocRawMem + findBlockInRegion + MemRegionList::add + freeRawMem on a USER pool whose
 *       rawAlloc/rawFree callbacks are harness stubs (may fail / may round the size up); startUseBlock is cut (recorder).
 *       - a fixed pool whose bootstrap allocation is done never calls rawAlloc again;
 *       - rawAlloc fails => NULL, region list / totalMemSize untouched, nothing freed;
 *       - region unusable (too small for header + block) => given back exactly once with the exact size (non-fixed pool),
 *         totalMemSize restored, list untouched;
 *       - success => region linked exactly once, accounted with the size the callback reported, and the free block handed to
 *         startUseBlock together with its LastFreeBlock trailer lies INSIDE [region+sizeof(MemRegion), region+rawSize).
 *  H=2  MapMemory/UnmapMemory (MapMemory.h) over mmap/munmap stubs that keep a ledger of the live mapping: failure => NULL,
 *       errno preserved, nothing left mapped; success => exactly the returned [p,p+bytes) stays mapped (THP path: the oversized
 *       mapping is trimmed head and tail to a huge-page aligned block).
 * Unit is built with ptrhooks: the region gets a symbolic address BASE (8-byte aligned), see vp_p2i/vp_i2p below. */
#include "w.h"
#include "vp.h"
typedef struct S_class_rml__internal__MemoryPool pool_t;
typedef unsigned __int128 u128;
u32 the_errno; u32* vpx___errno_location(void) { return &the_errno; }
u64 vpx_pthread_self(void) { return 1; }
#define ARENA 64
u8 area[ARENA] __attribute__((aligned(64)));     /* backs the MemRegion header of the new region */
u64 BASE;
static int in_area(u8* p) {
#ifdef VP_NATIVE
  return p >= area && p < area + ARENA;
#else
  return __CPROVER_POINTER_OBJECT(p) == __CPROVER_POINTER_OBJECT(area);
#endif
}
u64 vp_p2i(u8* p) { return in_area(p) ? BASE + (u64)(p - area) : (u64)p; }
u8* vp_i2p(u64 x) { return (x >= BASE && x - BASE < ARENA) ? area + (x - BASE) : (u8*)x; }

#if H == 1
pool_t P;                      /* zero-filled pool descriptor, as pool_create_v1 leaves it before init */
u8 old_region[64] __attribute__((aligned(64)));
int n_alloc, n_free, n_start, raw_null; u64 asked, given, free_size; u8* free_ptr; u64 POOLID;
u8* st_region; u8* st_block; u32 st_add;
u8* my_raw_alloc(u64 id, u64* bytes) {
  n_alloc++; asked = *bytes;
  VP_ASSERT(id == POOLID, "rawAlloc called with a foreign pool id");
  if (vp_nd_bool()) { raw_null = 1; return 0; }
  u64 extra = vp_nd(); __CPROVER_assume(extra <= (1ull << 40) && asked + extra >= asked);    /* callback may deliver more than asked */
  given = asked + extra; *bytes = given;
  if ((u128)BASE + given > ((u128)1 << 64)) { raw_null = 1; *bytes = asked; return 0; }   /* no such memory: a region cannot wrap around the address space */
  return area;
}
u32 my_raw_free(u64 id, u8* p, u64 bytes) {
  n_free++; free_ptr = p; free_size = bytes;
  VP_ASSERT(id == POOLID, "rawFree called with a foreign pool id");
  return (u32)vp_nd_bool();
}
void _ZN3rml8internal7Backend13startUseBlockEPNS0_9MemRegionEPNS0_9FreeBlockEb(struct S_class_rml__internal__Backend* b, struct S_struct_rml__internal__MemRegion* region, struct S_class_rml__internal__FreeBlock* fBlock, u8 addToBin) {
  n_start++; st_region = (u8*)region; st_block = (u8*)fBlock; st_add = addToBin;
}
u8 _ZN3rml8internalL16doInitializationEv(void) { return 1; }
#endif

#if H == 2
/* kernel-side ledger: at most one live mapping [lo,hi) */
u64 lo, hi; int live, n_mmap, n_munmap, ledger_bad; u64 HP;
u8* vpx_mmap(u8* hint, u64 len, u32 prot, u32 flags, u32 fd, u64 off) {
  n_mmap++;
  if (live) ledger_bad = 1;                         /* MapMemory never holds two mappings at once */
  if (vp_nd_bool() || len == 0) { the_errno = 12; return (u8*)~0ull; }   /* MAP_FAILED, errno=ENOMEM */
  u64 a = vp_nd(); __CPROVER_assume(a % 4096 == 0 && a >= 4096 && a < (1ull << 47) && len < (1ull << 46));
  lo = a; hi = a + len; live = 1;
  return (u8*)a;
}
u32 vpx_munmap(u8* p, u64 len) {
  n_munmap++;
  u64 a = (u64)p;
  if (!live || len == 0 || a < lo || a + len > hi || a + len < a) { ledger_bad = 1; return (u32)-1; }
  if (a == lo && a + len == hi) live = 0;
  else if (a == lo) lo = a + len;
  else if (a + len == hi) hi = a;
  else ledger_bad = 1;                              /* hole in the middle */
  return 0;
}
#endif

int main(void) {
  BASE = vp_nd(); __CPROVER_assume(BASE % 8 == 0 && BASE >= (1ull << 62) && BASE < (1ull << 62) + (1ull << 61));   /* disjoint from cbmc object addresses (object id << 52, small ids) and from native addresses (< 2^47) */
#if H == 1
  const u64 RS = vp_sizeof_region(), LS = vp_sizeof_lastfree(), FS = vp_sizeof_freeblock(), SLAB = vp_slab_size();
  u32 fixed = (u32)vp_nd_bool(), keep = (u32)vp_nd_bool(), addToBin = (u32)vp_nd_bool();
  u64 boot = vp_nd_range(1, 2);               /* bootstrap initialising | done */
  u64 size = vp_nd(), total0 = vp_nd(); u32 type = TYPE;
  POOLID = vp_nd();
  __CPROVER_assume(total0 < (1ull << 62));
  vp_pool_setup((u8*)&P, (u8*)my_raw_alloc, (u8*)my_raw_free, GRAN, fixed, keep, POOLID, boot);
  vp_pool_set_total((u8*)&P, total0);
  u8* head0 = vp_nd_bool() ? (u8*)old_region : (u8*)0;
  vp_region_set_head((u8*)&P, head0);
  u8* r = vp_add_region((u8*)&P, size, type, addToBin);
  if (fixed && boot == (u64)vp_bootstrap_done()) {
    VP_ASSERT(n_alloc == 0, "fixed pool asked its raw allocator a second time");
    VP_ASSERT(r == 0 && n_free == 0 && n_start == 0 && vp_region_head((u8*)&P) == head0 && vp_pool_total((u8*)&P) == total0, "refused request changed the pool");
  } else {
    VP_ASSERT(n_alloc == 1, "raw allocator must be asked exactly once per region");
    VP_ASSERT(asked % GRAN == 0, "raw request not a multiple of the pool granularity");
    if (raw_null) {
      VP_ASSERT(r == 0, "region returned although the raw allocator failed");
      VP_ASSERT(n_free == 0 && n_start == 0 && vp_region_head((u8*)&P) == head0 && vp_pool_total((u8*)&P) == total0, "failed raw allocation changed the pool (region list / totalMemSize / rawFree)");
    } else if (r == 0) {
      /* region obtained but unusable */
      VP_ASSERT(n_start == 0 && vp_region_head((u8*)&P) == head0, "unusable region was linked / used");
      if (!fixed) {
        VP_ASSERT(n_free == 1 && free_ptr == area && free_size == given, "unusable region must be given back exactly once with the size the raw allocator reported");
        VP_ASSERT(vp_pool_total((u8*)&P) == total0, "totalMemSize not restored after giving the region back");
      } else VP_ASSERT(n_free == 0, "fixed pool called rawFree");
      /* and it really was unusable: a region that holds header + block + trailer must not be rejected */
      /* (findBlockInRegion also refuses any block below numOfSlabAllocOnMiss*slabSize = 32 KB, whatever the region type) */
      u64 need = RS + 8 + 2 * SLAB + SLAB + LS;
      VP_ASSERT(type == 0 ? given < need : (size < 2 * SLAB || (u128)RS + 64 + size + LS > (u128)given), "usable region rejected (memory wasted / spurious out-of-memory)");
    } else {
      VP_ASSERT(n_free == 0, "successful region creation freed raw memory");
      VP_ASSERT(vp_region_head((u8*)&P) == area && vp_region_next(area) == head0 && vp_region_prev(area) == 0, "new region not linked at the head of the region list exactly once");
      if (head0) VP_ASSERT(vp_region_prev(head0) == area, "old head's back link not updated");
      VP_ASSERT(vp_pool_total((u8*)&P) == total0 + given, "totalMemSize not increased by the size the raw allocator reported");
      VP_ASSERT(vp_region_allocsz(area) == given && vp_region_type(area) == type, "region header does not record the raw size / type");
      VP_ASSERT(n_start == 1 && st_region == area && st_add == addToBin, "startUseBlock must be called once for the new region");
      VP_ASSERT(addToBin ? r == (u8*)1 : r == st_block, "wrong return value");
      u64 FB = vp_p2i(st_block), bs = vp_region_blocksz(area);
      VP_ASSERT(FB >= BASE + RS, "free block overlaps the region header");
      VP_ASSERT((u128)FB + bs + LS <= (u128)BASE + given, "free block + LastFreeBlock trailer extend beyond the raw memory obtained from the pool's allocator");
      VP_ASSERT(bs >= FS, "free block smaller than a FreeBlock header");
      if (type == 0) { VP_ASSERT(FB % 8 == 0 && (FB + bs) % SLAB == 0 && bs >= 2 * SLAB, "slab region: block end not slab aligned / too small"); }
      else { VP_ASSERT(FB % 64 == 0 && bs == size, "large-block region: block not 64-byte aligned or not exactly the requested size"); }
    }
  }
#elif H == 2
  HP = vp_huge_page_size();
  u64 bytes = vp_nd(); u32 type = PT;
  __CPROVER_assume(bytes > 0 && bytes < (1ull << 45));
  if (type != 0) __CPROVER_assume(bytes % HP == 0);      /* precondition asserted by MapMemory for huge-page kinds (allocRawMem aligns to the huge-page granularity) */
  the_errno = 4242;
  u8* p = vp_map_memory(bytes, type);
  VP_ASSERT(!ledger_bad, "mmap/munmap misuse: overlapping mappings, unmapping memory not owned, or a hole punched in the middle");
  if (p == 0) {
    VP_ASSERT(!live, "MapMemory failed but left memory mapped (address-space leak)");
    VP_ASSERT(the_errno == 4242, "MapMemory failure must preserve errno");
  } else {
    VP_ASSERT(live && lo == (u64)p && hi == (u64)p + bytes, "MapMemory success: the live mapping is not exactly [p, p+bytes)");
    if (type == 2) VP_ASSERT((u64)p % HP == 0, "transparent-huge-page mapping not huge-page aligned");
    int rc = (int)vp_unmap_memory(p, bytes);
    VP_ASSERT(rc == 0 && !live && !ledger_bad, "UnmapMemory did not release exactly the mapping");
  }
#endif
  VP_REACHED();
}

PROPERTY = 'C18'
MCXX = ['-D__TBBMALLOC_BUILD=1', '-fno-rtti', '-I{REPO}/src/tbbmalloc', '-I{REPO}/src']
UNITS = {
  'entry': dict(wrapper='w_entry.cpp', mode='seq', cxxflags=MCXX, selftest=True,
                cut=['internalMalloc', 'internalPoolMalloc', 'allocateAligned', 'reallocAligned', 'internalPoolFree',
                     'doInitialization', '10MemoryPool4init']),
  # getFromLLOCache / allocateAligned real, LargeObjectCache::alignToBin real (large_objects.cpp in the same TU)
  'llo': dict(wrapper='w_all.cpp', mode='seq', cxxflags=MCXX, inline_threshold=200,
              cut=['mallocLargeObject', 'internalPoolMalloc', '10MemoryPool6getTLS', 'doInitialization', 'setBackRef']),
}
HARNESSES = [
  dict(name='calloc', unit='entry', harness='h_entry.c', defines={'H': 1, 'REAL_BUF': None, 'BUF': 64},
       scenarios=[{'PART': 0}, {'PART': 1}, {'PART': 2}, {'PART': 3, 'W': 2}, {'PART': 4, 'W': 2}],
       scenarios_thorough=[{'PART': 0}, {'PART': 1}, {'PART': 2}, {'PART': 3, 'W': 3}, {'PART': 4, 'W': 3}],
       cbmc=['--unwind', '4'], timeout=900,
       desc='scalable_calloc: nobj*size overflow => NULL+ENOMEM, allocator not reached; else allocator reached once (PART>=2: with the exact product), block zero-filled, nothing written past it',
       bounds={'PART0': 'nobj,size < 2^32 (all; product not compared here, see calloc_exact)', 'PART1': 'nobj,size >= 2^32 (all)', 'PART2': 'nobj = 2^k (k=0..63), size full 64 bit',
               'PART3/4': 'one operand < 2^W (W=2 quick, 3 thorough), other full 64 bit', 'zero-fill': 'blocks <= 64 bytes (larger: stub fails)',
               'not covered': 'one operand >= 2^32 and the other in [2^W, 2^32) with a general mantissa: the division-based exact check is beyond SAT (measured: no verdict for 4-bit mantissas in 100 s)'}),
  dict(name='calloc_exact', unit='entry', harness='h_entry.c', defines={'H': 1, 'REAL_BUF': None, 'BUF': 64, 'PART': 5},
       scenarios=[{'W': 32}], cbmc=['--unwind', '4', '--external-sat-solver', 'kissat'], timeout=900,
       desc='scalable_calloc, no-overflow region: allocator asked for exactly nobj*size (independent second multiplier; kissat decides the multiplier equivalence, MiniSat does not)',
       bounds={'nobj,size': '< 2^32 (all)'}),
  dict(name='posix_memalign', unit='entry', harness='h_entry.c', defines={'H': 2}, scenarios=[{}], cbmc=['--unwind', '4'],
       desc='scalable_posix_memalign: alignment not a power of two or < sizeof(void*) => EINVAL, allocator not reached, *memptr untouched; else allocateAligned once with unchanged arguments; NULL => ENOMEM',
       bounds={'alignment,size': 'full 64 bit'}),
  dict(name='aligned_malloc', unit='entry', harness='h_entry.c', defines={'H': 3}, scenarios=[{'PART': 0}, {'PART': 1}], cbmc=['--unwind', '4'],
       desc='scalable_aligned_malloc / pool_aligned_malloc: non-power-of-two alignment or zero size => NULL (+EINVAL), allocator not reached; else one allocateAligned call, ENOMEM exactly on failure',
       bounds={'alignment,size': 'full 64 bit'}),
  dict(name='aligned_realloc', unit='entry', harness='h_entry.c', defines={'H': 4}, scenarios=[{'PART': 0}, {'PART': 1}], cbmc=['--unwind', '4'],
       desc='scalable_aligned_realloc / pool_aligned_realloc: bad alignment => NULL+EINVAL and the old block is neither freed nor reallocated; (NULL,n) => aligned allocation; (p,0) => exactly one free, NULL, errno untouched; else one reallocAligned call',
       bounds={'ptr,alignment,size': 'full 64 bit'}),
  dict(name='realloc_dispatch', unit='entry', harness='h_entry.c', defines={'H': 5}, scenarios=[{'PART': 0}, {'PART': 1}, {'PART': 2}, {'PART': 3}], cbmc=['--unwind', '4'],
       desc='scalable_realloc / pool_realloc / scalable_malloc / pool_malloc dispatch: (NULL,n) => malloc(n); (p,0) => one free + NULL; else reallocAligned(p,n,0); errno=ENOMEM exactly when the allocator failed',
       bounds={'ptr,size': 'full 64 bit'}),
  dict(name='pool_create', unit='entry', harness='h_entry.c', defines={'H': 6, 'REAL_BUF': None, 'BUF': 64}, scenarios=[{}, {'NOINIT': None}], cbmc=['--unwind', '4'],
       desc='pool_create_v1: parameter checks (pAlloc, version, pFree unless fixed, reserved bits) before anything is allocated; failure of doInitialization / descriptor allocation / MemoryPool::init => NO_MEMORY, *pool=NULL, descriptor given back exactly once',
       bounds={'policy fields': 'all symbolic', 'MemoryPool::init': 'cut: symbolic success/failure'}),
  dict(name='llo_arith', unit='llo', harness='h_llo.c', defines={'H': 1, 'ARITH': None}, scenarios=[{'TLS': 0}, {'TLS': 1}], cbmc=['--unwind', '4', '--object-bits', '12'], timeout=900,
       desc='getFromLLOCache size arithmetic: size+headers+alignment / alignToBin wrap-around => NULL without reaching the backend; the backend is never asked for less than size+headers+alignment; a representable request is never refused before the backend',
       bounds={'size': 'full 64 bit', 'alignment': '2^6..2^63 (symbolic)', 'backend': 'stub always fails (arithmetic only, nothing dereferenced)'}),
  dict(name='llo_place', unit='llo', harness='h_llo.c', defines={'H': 1}, scenarios=[{'TLS': t, 'LG': lg} for t in (0, 1) for lg in (6, 7, 9)], cbmc=['--unwind', '4', '--object-bits', '12'], timeout=900,
       desc='getFromLLOCache placement: returned object aligned, behind the block header, inside the block, LargeObjectHdr/back reference consistent, objectSize recorded; with tls: the cache-line shuffle stays inside the block; backend failure => NULL and nothing recorded',
       bounds={'size': 'full 64 bit', 'alignment': '64,128,512 (concrete per query)', 'block': 'first 1 KB backed by a real object: success only when alignedRight lies inside it (shuffle room <= 1 KB)', 'tls': 'NULL | object with symbolic currCacheIdx, empty local cache'}),
]
OUTSIDE = []
STUBS = []
ASSUMPTIONS = []

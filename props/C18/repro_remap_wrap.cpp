// Reproducer (real library): scalable_realloc of a >= 1 MB one-block large object to a size near SIZE_MAX goes through Backend::remap:
// alignToBin(newSize + userOffset) wraps to a few KB, the guard `requestSize < alignedSize` does not notice, mremap SHRINKS the region to 12 KB
// and realloc returns the OLD pointer with msize == SIZE_MAX-100: user data beyond 12 KB is unmapped (segfault on access). Expected: NULL + ENOMEM.
// Build: g++ -std=c++17 -I/repo/include repro_remap_wrap.cpp -L<build dir> -ltbbmalloc -Wl,-rpath,<build dir>
#include <oneapi/tbb/scalable_allocator.h>
#include <cstdio>
#include <cstring>
#include <cstdint>
int main() {
  size_t n = 8u << 20;
  char* p = (char*)scalable_malloc(n); memset(p, 0x5a, n);
  void* q = scalable_realloc(p, SIZE_MAX - 100);
  printf("realloc(8MB block, SIZE_MAX-100) -> %p (old %p) msize=%zu\n", q, (void*)p, q ? scalable_msize(q) : 0);
  if (q) { printf("touching byte 1MB of the 'grown' block...\n"); fflush(stdout); volatile char c = ((char*)q)[1 << 20]; printf("read %d\n", c); }
  return q != nullptr;
}

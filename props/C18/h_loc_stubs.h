/* contract stubs of the aggregator layer (CacheBin::get / putList / updateUsedSize with ExtMemoryPool*): recorders.
 * Names/prototypes as in the generated w.h (two instantiations: large = BitMaskMax<1023>, huge = BitMaskMax<136>). */
#define LBIN struct S_class_rml__internal__LargeObjectCacheImpl_rml__internal__LargeObjectCacheProps_rml__internal__LargeBinStructureProps_8192__8388608___2__2__16____CacheBin
#define HBIN struct S_class_rml__internal__LargeObjectCacheImpl_rml__internal__LargeObjectCacheProps_rml__internal__HugeBinStructureProps_8388608__1099511627776___1__1__4____CacheBin
#define LMASK struct S_class_rml__internal__BitMaskMax_10
#define HMASK struct S_class_rml__internal__BitMaskMax
#define EXT struct S_struct_rml__internal__ExtMemoryPool
void _ZN3rml8internal20LargeObjectCacheImplINS0_21LargeObjectCachePropsINS0_22LargeBinStructurePropsILm8192ELm8388608EEELi2ELi2ELi16EEEE8CacheBin14updateUsedSizeEPNS0_13ExtMemoryPoolEmPNS0_10BitMaskMaxILj1023EEEi(LBIN* b, EXT* e, u64 size, LMASK* m, u32 idx) { touch(0, (u8*)b, (u8*)m, idx, 0, size, 0); }
void _ZN3rml8internal20LargeObjectCacheImplINS0_21LargeObjectCachePropsINS0_21HugeBinStructurePropsILm8388608ELm1099511627776EEELi1ELi1ELi4EEEE8CacheBin14updateUsedSizeEPNS0_13ExtMemoryPoolEmPNS0_10BitMaskMaxILj136EEEi(HBIN* b, EXT* e, u64 size, HMASK* m, u32 idx) { touch(1, (u8*)b, (u8*)m, idx, 0, size, 0); }
void _ZN3rml8internal20LargeObjectCacheImplINS0_21LargeObjectCachePropsINS0_22LargeBinStructurePropsILm8192ELm8388608EEELi2ELi2ELi16EEEE8CacheBin7putListEPNS0_13ExtMemoryPoolEPNS0_16LargeMemoryBlockEPNS0_10BitMaskMaxILj1023EEEi(LBIN* b, EXT* e, lmb_t* head, LMASK* m, u32 idx) { touch(0, (u8*)b, (u8*)m, idx, 2, 0, (u8*)head); }
void _ZN3rml8internal20LargeObjectCacheImplINS0_21LargeObjectCachePropsINS0_21HugeBinStructurePropsILm8388608ELm1099511627776EEELi1ELi1ELi4EEEE8CacheBin7putListEPNS0_13ExtMemoryPoolEPNS0_16LargeMemoryBlockEPNS0_10BitMaskMaxILj136EEEi(HBIN* b, EXT* e, lmb_t* head, HMASK* m, u32 idx) { touch(1, (u8*)b, (u8*)m, idx, 2, 0, (u8*)head); }
/* a GET charges `size` to the bin's usedSize whether it hits or misses (ExecuteOperation, CBOP_GET); here: always a miss */
lmb_t* _ZN3rml8internal20LargeObjectCacheImplINS0_21LargeObjectCachePropsINS0_22LargeBinStructurePropsILm8192ELm8388608EEELi2ELi2ELi16EEEE8CacheBin3getEPNS0_13ExtMemoryPoolEmPNS0_10BitMaskMaxILj1023EEEi(LBIN* b, EXT* e, u64 size, LMASK* m, u32 idx) { touch(0, (u8*)b, (u8*)m, idx, 1, size, 0); return 0; }
lmb_t* _ZN3rml8internal20LargeObjectCacheImplINS0_21LargeObjectCachePropsINS0_21HugeBinStructurePropsILm8388608ELm1099511627776EEELi1ELi1ELi4EEEE8CacheBin3getEPNS0_13ExtMemoryPoolEmPNS0_10BitMaskMaxILj136EEEi(HBIN* b, EXT* e, u64 size, HMASK* m, u32 idx) { touch(1, (u8*)b, (u8*)m, idx, 1, size, 0); return 0; }

// C07 wrapper: the real token ring (input_buffer) of src/tbb/parallel_pipeline.cpp, textually included.
// Only drivers / accessors here; the spawner below is the harness-side observer of "item released to run".
#include "src/tbb/parallel_pipeline.cpp"
using namespace tbb::detail::r1;
using namespace tbb::detail;
extern "C" void vp_released(unsigned long token, void* obj, int token_ready);
extern "C" void vp_emit(unsigned long v);
extern "C" void vp_caller_info(unsigned long token, void* obj, int token_ready, int valid);  // what the caller holds after a put that returned false
struct vp_spawner {
  void spawn_stage_task(const task_info& w, d1::execution_data&) { vp_released(w.my_token, w.my_object, w.my_token_ready); }
};
extern "C" {
unsigned vp_ib_sizeof() { return sizeof(input_buffer); }
unsigned vp_ti_sizeof() { return sizeof(task_info); }
// real constructor (calls the real grow(initial_buffer_size)); then the token counters are moved to `low`
// (state reached by a pipeline that has already passed `low` items through this filter)
void vp_ib_init(input_buffer* b, int ordered, unsigned long low) { new (b) input_buffer(ordered != 0); b->low_token = low; b->high_token = low; }
// item with a token assigned by an earlier ordered filter arrives; 1 = parked, 0 = caller runs it now
int vp_ib_put(input_buffer* b, unsigned long token, void* obj) {
  task_info ti; ti.reset(); ti.my_object = obj; ti.my_token = token; ti.my_token_ready = true;
  return b->try_put_token(ti) ? 1 : 0;
}
// item carrying (token, ready) of an earlier ordered filter (or none) arrives at a serial_out_of_order filter
int vp_ib_put2(input_buffer* b, unsigned long token, int ready, void* obj) {
  task_info ti; ti.reset(); ti.my_object = obj; ti.my_token = token; ti.my_token_ready = ready != 0;
  int r = b->try_put_token(ti) ? 1 : 0;
  if (!r) vp_caller_info(ti.my_token, ti.my_object, ti.my_token_ready, ti.is_valid);
  return r;
}
// item without a token arrives (first ordered filter of the pipeline / serial_out_of_order filter); *tok = token it got
int vp_ib_put_fresh(input_buffer* b, void* obj, unsigned long* tok, int* ready) {
  task_info ti; ti.reset(); ti.my_object = obj;
  int r = b->try_put_token(ti) ? 1 : 0;
  *tok = ti.my_token; *ready = ti.my_token_ready;
  return r;
}
void vp_ib_done(input_buffer* b) { vp_spawner s; d1::execution_data* ed = nullptr; b->try_to_spawn_task_for_next_token(s, *ed); }
unsigned long vp_ib_ordered_token(input_buffer* b) { return b->get_ordered_token(); }
unsigned long vp_ib_low(input_buffer* b) { return b->low_token; }
unsigned long vp_ib_high(input_buffer* b) { return b->high_token; }
unsigned long vp_ib_size(input_buffer* b) { return b->array_size; }
void* vp_ib_array(input_buffer* b) { return b->array; }
unsigned long vp_ib_lockword(input_buffer* b) { return b->array_mutex.m_flag.load(std::memory_order_relaxed); }
// ---- arbitrary-ring-state support (lemma harness): raw slot access by *index*, no index arithmetic here
void vp_ib_raw(input_buffer* b, void* arr, unsigned long size, unsigned long low, unsigned long high) {
  b->array = (task_info*)arr; b->array_size = size; b->low_token = low; b->high_token = high;
}
void vp_slot_set(input_buffer* b, unsigned long i, void* obj, unsigned long token, int ready, int valid) {
  task_info& s = b->array[i]; s.my_object = obj; s.my_token = token; s.my_token_ready = ready != 0; s.is_valid = valid != 0;
}
int vp_slot_valid(input_buffer* b, unsigned long i) { return b->array[i].is_valid; }
int vp_slot_ready(input_buffer* b, unsigned long i) { return b->array[i].my_token_ready; }
unsigned long vp_slot_token(input_buffer* b, unsigned long i) { return b->array[i].my_token; }
void* vp_slot_obj(input_buffer* b, unsigned long i) { return b->array[i].my_object; }

// translator validation: the same op sequence as real C++ and as generated C
static unsigned long st_log;
void vp_selftest() {
  alignas(64) static unsigned char mem[sizeof(input_buffer)];
  unsigned long starts[] = {0, ~0ul - 3, 0xfffffffful};
  static int objs[8];
  for (unsigned long s : starts) {
    input_buffer* b = (input_buffer*)mem;
    vp_ib_init(b, 1, s);
    int order[] = {6, 2, 5, 1, 0, 4, 3};
    for (int k : order) { int r = vp_ib_put(b, s + k, &objs[k]); vp_emit(r); vp_emit(b->array_size); }
    for (int k = 0; k < 7; k++) { vp_ib_done(b); vp_emit(b->low_token); }
    for (unsigned long i = 0; i < b->array_size; i++) vp_emit(b->array[i].is_valid);
    b->~input_buffer();
  }
}
}

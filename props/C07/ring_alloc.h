/* Stub of r1::cache_aligned_allocate / cache_aligned_deallocate for the token ring (task_info arrays).
 * Contract: n usable bytes, suitably aligned, never NULL (the real function throws instead); deallocate takes a pointer
 * obtained from allocate, once.  Storage is handed out as *typed* static arrays of exactly the requested size (one per ring
 * size 4/8/16/32): cbmc then keeps ring slots field-sensitive and constant-folds every access on paths where the index is
 * concrete (a malloc'ed byte object makes each slot read symbolic and the SAT instance explode).  A ring grows monotonically,
 * so one buffer per size and ring suffices; a second request of the same size is a harness bound, not a oneTBB defect.
 * Use-after-free of an old ring cannot be seen by cbmc's own deallocation check on static storage; instead freed buffers are
 * recorded and ring_check_current() is asserted by the harnesses (current array live, every older one freed exactly once). */
typedef struct S_struct_tbb__detail__r1__task_info ti_t;
#ifndef RING_MAXLG
#define RING_MAXLG 4          /* largest ring: 2^RING_MAXLG slots */
#endif
static ti_t ring4[4], ring8[8], ring16[16];
#if RING_MAXLG >= 5
static ti_t ring32[32];
#endif
static int ring_used[6], ring_freed[6];    /* index = log2(size) */
static int ring_nalloc;
u8* _ZN3tbb6detail2r122cache_aligned_allocateEm(u64 n) {
  int lg = 0; u8* p = 0;
  if (n == 4 * sizeof(ti_t)) { lg = 2; p = (u8*)ring4; } else if (n == 8 * sizeof(ti_t)) { lg = 3; p = (u8*)ring8; }
  else if (n == 16 * sizeof(ti_t)) { lg = 4; p = (u8*)ring16; }
#if RING_MAXLG >= 5
  else if (n == 32 * sizeof(ti_t)) { lg = 5; p = (u8*)ring32; }
#endif
  VP_ASSERT(p != 0, "harness bound: ring grown to a size this harness has no buffer for (not a oneTBB defect)");
  VP_ASSERT(!ring_used[lg], "harness bound: second ring of the same size requested");
  __CPROVER_assume(p != 0 && !ring_used[lg]);
  ring_used[lg] = 1; ring_nalloc++;
  return p;
}
void _ZN3tbb6detail2r124cache_aligned_deallocateEPv(u8* p) {
  int lg = p == (u8*)ring4 ? 2 : p == (u8*)ring8 ? 3 : p == (u8*)ring16 ? 4 :
#if RING_MAXLG >= 5
           p == (u8*)ring32 ? 5 :
#endif
           0;
  VP_ASSERT(lg != 0 && ring_used[lg], "cache_aligned_deallocate of a pointer that was not allocated");
  VP_ASSERT(!ring_freed[lg], "ring array freed twice");
  ring_freed[lg] = 1;
}
/* cur/size: the ring's current array and array_size */
static void ring_check_current(u8* cur, u64 size) {
  for (int lg = 2; lg <= RING_MAXLG; lg++) {
    u8* p = lg == 2 ? (u8*)ring4 : lg == 3 ? (u8*)ring8 : lg == 4 ? (u8*)ring16 :
#if RING_MAXLG >= 5
            lg == 5 ? (u8*)ring32 :
#endif
            (u8*)0;
    if (p == cur) { VP_ASSERT(ring_used[lg] && !ring_freed[lg], "ring points to a freed / never allocated array"); VP_ASSERT(size == (1ull << lg), "array_size does not match the allocated array"); }
    else if (ring_used[lg]) VP_ASSERT(ring_freed[lg], "old ring array leaked by grow");
  }
}

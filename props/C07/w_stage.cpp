// C07 wrapper (task-bag mode): the real pipeline / stage_task / input_buffer of src/tbb/parallel_pipeline.cpp.
// The harness plays the scheduler (r1::spawn / allocate / deallocate / notify_waiters are its stubs) and the user filters.
#include "src/tbb/parallel_pipeline.cpp"
using namespace tbb::detail::r1;
using namespace tbb::detail;
extern "C" void* vp_filter_body(int idx, void* item);       // user body of filter idx (harness: observer + oracle)
extern "C" void vp_filter_finalize(int idx, void* item);
struct vp_filter : d1::base_filter {
  int idx;
  vp_filter(unsigned mode, int i) : d1::base_filter(mode), idx(i) {}
  void* operator()(void* item) override { return vp_filter_body(idx, item); }
  void finalize(void* item) override { vp_filter_finalize(idx, item); }
};
static d1::execution_data vp_ed;
extern "C" {
unsigned vp_sizeof_pipeline() { return sizeof(pipeline); }
unsigned vp_sizeof_filter() { return sizeof(vp_filter); }
unsigned vp_sizeof_task() { return sizeof(stage_task); }
unsigned vp_sizeof_ib() { return sizeof(input_buffer); }
// as r1::parallel_pipeline(): pipeline pipe(cxt, max_token); fill_pipeline -> add_filter per leaf
void vp_pipe_init(pipeline* p, d1::task_group_context* ctx, unsigned long max_token) { new (p) pipeline(*ctx, max_token); }
void vp_pipe_add(pipeline* p, vp_filter* storage, unsigned mode, int idx) { p->add_filter(*new (storage) vp_filter(mode, idx)); }
// ...  small_object_allocator alloc{}; stage_task& st = *alloc.new_object<stage_task>(pipe, alloc);   (then execute_and_wait(st,...))
void* vp_pipe_first_task(pipeline* p) { d1::small_object_allocator alloc{}; stage_task& st = *alloc.new_object<stage_task>(*p, alloc); return static_cast<d1::task*>(&st); }
// what the dispatcher does with a task it took: t->execute(ed); a non-null result is the next task to run (bypass)
void* vp_task_execute(void* t) { return static_cast<stage_task*>(static_cast<d1::task*>(t))->stage_task::execute(vp_ed); }
// white-box observers
int vp_task_filter(void* t) { stage_task* s = static_cast<stage_task*>(static_cast<d1::task*>(t)); return s->my_filter ? static_cast<vp_filter*>(s->my_filter)->idx : -1; }
int vp_task_at_start(void* t) { return static_cast<stage_task*>(static_cast<d1::task*>(t))->my_at_start; }
void* vp_task_object(void* t) { return static_cast<stage_task*>(static_cast<d1::task*>(t))->my_object; }
unsigned long vp_pipe_tokens(pipeline* p) { return p->input_tokens.load(std::memory_order_relaxed); }
int vp_pipe_eoi(pipeline* p) { return p->end_of_input.load(std::memory_order_relaxed); }
unsigned long vp_pipe_refs(pipeline* p) { return p->wait_ctx.m_ref_count.load(std::memory_order_relaxed); }
unsigned long vp_pipe_waitctx_addr(pipeline* p) { return (unsigned long)&p->wait_ctx; }
int vp_filter_ring_clean(vp_filter* f) {   // no item left parked, lock free (1 = clean / no ring)
  input_buffer* b = f->my_input_buffer; if (!b) return 1;
  for (unsigned long i = 0; i < b->array_size; i++) if (b->array[i].is_valid) return 0;
  return !b->array_mutex.m_flag.load(std::memory_order_relaxed);
}
}

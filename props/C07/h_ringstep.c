/* C07 ring_step: ONE operation of the real token ring from an ARBITRARY ring state satisfying the representation invariant
 * (inductive step; histories of any length follow by induction on INV, which ctor establishes: OP 2).
 *
 * Abstract state of a ring with array_size S and low_token L (any 64-bit value): a partial map  d -> item, 1 <= d <= S-1,
 * "item parked at distance d from L"; concretely INV says: slot i is valid only if d_i := (i - L) mod S != 0, and then
 *   KIND 0 (serial_in_order, tokens assigned upstream): the item's my_token == L + d_i, my_token_ready; which d are parked is arbitrary
 *   KIND 1 (first serial_in_order filter: token = high_token++ on arrival): parked exactly d = 1..cnt-1, cnt = high-L <= S, token L+d
 *   KIND 2 (serial_out_of_order): parked exactly d = 1..cnt-1; items carry arbitrary own (my_token, my_token_ready)
 * Everything else (payloads, garbage in invalid slots, L, which slots) is symbolic.
 *   OP 0  try_put_token of a token at distance dp (KIND 0: any dp < 4*S not already parked; KIND 1/2: dp = cnt): if dp == 0 the
 *         caller keeps the item and the ring is untouched; else the item is parked, the ring may have grown (power of two, > dp),
 *         EVERY previously parked item is still parked at its own distance with unchanged contents (re-homing by token), nothing
 *         else is valid, L unchanged, INV holds, an old array is freed exactly once.
 *   OP 1  try_to_spawn_task_for_next_token: L' = L+1; the item at distance 1 (if any) is released with its own contents and its
 *         slot cleared; all other parked items stay, now at distance d-1; INV holds.
 *   OP 2  constructor establishes INV (size 4, all slots invalid, lock free). */
#include "w.h"
#include "vp.h"
#define RING_MAXLG 5
typedef struct S_class_tbb__detail__r1__input_buffer ib_t;
ib_t B;
#include "ring_alloc.h"
#ifndef SZ
#define SZ 4
#endif
#ifndef GROWX
#define GROWX 4          /* put distances < GROWX*SZ: 4 = the ring may double or quadruple, 2 = at most double */
#endif
#define MAXS (GROWX * SZ)
static u8 objs[MAXS + 4];
#define NEWOBJ (&objs[MAXS])
#define JUNK (&objs[MAXS + 1])
static u32 val[SZ], rdy[SZ]; static u64 tok[SZ], dist[SZ];   /* pre-state per slot */
static int nrel; static u64 rel_tok; static u8* rel_obj; static u32 rel_rdy;
static int ncaller; static u64 c_tok; static u8* c_obj; static u32 c_rdy, c_valid;
void vp_released(u64 token, u8* obj, u32 ready) { nrel++; rel_tok = token; rel_obj = obj; rel_rdy = ready; }
void vp_caller_info(u64 token, u8* obj, u32 ready, u32 valid) { ncaller++; c_tok = token; c_obj = obj; c_rdy = ready; c_valid = valid; }

int main(void) {
#if OP == 2
  vp_ib_init(&B, KIND != 2, vp_nd());
  VP_ASSERT(vp_ib_size(&B) == 4 && vp_ib_array(&B) == (u8*)ring4 && ring_nalloc == 1, "ctor: ring of initial_buffer_size");
  for (u64 i = 0; i < 4; i++) VP_ASSERT(!vp_slot_valid(&B, i), "ctor: slot not cleared");
  VP_ASSERT(vp_ib_lockword(&B) == 0 && vp_ib_low(&B) == vp_ib_high(&B), "ctor: counters / lock");
#else
  const u64 S = SZ;
  u64 L = vp_nd();
  u64 cnt = vp_nd_range(0, S);                 /* KIND 1/2: high - L */
  u64 H = KIND == 0 ? vp_nd() : L + cnt;
  vp_ib_init(&B, KIND != 2, 0);                /* real ctor, then the ring is replaced by an arbitrary INV state of size S */
  u8* arr = S == 4 ? (u8*)ring4 : (u8*)ring8;
  if (S == 8) { ring_used[3] = 1; ring_freed[2] = 1; }
  vp_ib_raw(&B, arr, S, L, H);
  int nvalid = 0;
  for (u64 i = 0; i < S; i++) {
    u64 d = (i - L) & (S - 1); dist[i] = d;
    u32 v = vp_nd_bool(), r = vp_nd_bool(); u64 t = vp_nd();
#if KIND == 0
    __CPROVER_assume(!(d == 0 && v));
    if (v) { t = L + d; r = 1; }
#elif KIND == 1
    v = (d >= 1 && d < cnt);
    if (v) { t = L + d; r = 1; }
#else
    v = (d >= 1 && d < cnt);
#endif
    val[i] = v; rdy[i] = r; tok[i] = t; nvalid += v;
    vp_slot_set(&B, i, v ? &objs[i] : JUNK, t, r, v);
  }
#if OP == 0
  /* ---- put ---- */
#if KIND == 0
  u64 dp = vp_nd_range(0, MAXS - 1);
#ifdef DPR      /* scenario split of the put step: 0 token fits, 1 ring doubles, 2 ring quadruples */
  __CPROVER_assume(DPR == 0 ? dp < S : DPR == 1 ? (dp >= S && dp < 2 * S) : dp >= 2 * S);
#endif
  for (u64 i = 0; i < S; i++) __CPROVER_assume(!(val[i] && dist[i] == dp));   /* tokens are unique: not already parked */
  u64 T = L + dp; u32 R = 1;
  u32 parked = vp_ib_put2(&B, T, 1, NEWOBJ);
#elif KIND == 1
  u64 dp = cnt; u64 T = L + dp; u32 R = 1; u64 gt = 0; u32 gr = 0;
  u32 parked = vp_ib_put_fresh(&B, NEWOBJ, &gt, &gr);
  VP_ASSERT(gt == T && gr == 1, "first ordered filter: token assigned != high_token / not marked ready");
  VP_ASSERT(vp_ib_high(&B) == H + 1, "high_token not advanced by one");
#else
  u64 dp = cnt; u64 T = vp_nd(); u32 R = vp_nd_bool();
  u32 parked = vp_ib_put2(&B, T, R, NEWOBJ);
  VP_ASSERT(vp_ib_high(&B) == H + 1, "high_token not advanced by one");
#endif
  u64 S2 = vp_ib_size(&B); u8* arr2 = vp_ib_array(&B);
  VP_ASSERT(vp_ib_low(&B) == L, "put changed low_token");
  VP_ASSERT(vp_ib_lockword(&B) == 0, "array_mutex still held");
  VP_ASSERT(nrel == 0, "put released an item");
  VP_ASSERT(parked == (dp != 0), "put: parked iff token != low_token");
  if (dp == 0) {
#if KIND != 1
    VP_ASSERT(ncaller == 1 && c_tok == T && c_obj == NEWOBJ && (c_rdy != 0) == (R != 0) && c_valid, "caller's item damaged by put");
#endif
    VP_ASSERT(S2 == S && arr2 == arr, "put of the low token touched the ring");
  } else {
    VP_ASSERT(S2 >= S && S2 <= MAXS && (S2 & (S2 - 1)) == 0 && dp < S2, "ring size after put: power of two, large enough");
    VP_ASSERT(dp >= S || S2 == S, "ring grown although the token fits");
  }
  ring_check_current(arr2, S2);
  __CPROVER_assume(S2 >= S && S2 <= MAXS && (S2 & (S2 - 1)) == 0);
  /* every old parked item is at its own distance in the new ring, unchanged */
  for (u64 i = 0; i < S; i++) if (val[i]) {
    u64 j = (L + dist[i]) & (S2 - 1);
    VP_ASSERT(vp_slot_valid(&B, j), "parked item lost by put/grow");
    VP_ASSERT(vp_slot_obj(&B, j) == &objs[i] && vp_slot_token(&B, j) == tok[i] && (vp_slot_ready(&B, j) != 0) == (rdy[i] != 0), "parked item damaged / re-homed to the wrong slot by put/grow");
  }
  int nv2 = 0;
  for (u64 j = 0; j < MAXS; j++) if (j < S2) nv2 += vp_slot_valid(&B, j) != 0;
  if (dp != 0) {
    u64 j = (L + dp) & (S2 - 1);
    VP_ASSERT(vp_slot_valid(&B, j) && vp_slot_obj(&B, j) == NEWOBJ && vp_slot_token(&B, j) == T && (vp_slot_ready(&B, j) != 0) == (R != 0), "new item not parked at its own slot with its own contents");
  }
  VP_ASSERT(nv2 == nvalid + (dp != 0), "number of parked items wrong after put (phantom or duplicate item)");
  VP_ASSERT(!vp_slot_valid(&B, L & (S2 - 1)), "INV: slot of low_token must be empty");
#else
  /* ---- done ---- */
  vp_ib_done(&B);
  VP_ASSERT(vp_ib_low(&B) == L + 1 && vp_ib_high(&B) == H, "done: low_token must advance by exactly one, high_token untouched");
  VP_ASSERT(vp_ib_size(&B) == S && vp_ib_array(&B) == arr, "done must not resize");
  VP_ASSERT(vp_ib_lockword(&B) == 0, "array_mutex still held");
  int had = 0;
  for (u64 i = 0; i < S; i++) {
    if (dist[i] == 1) {
      had = val[i];
      if (val[i]) VP_ASSERT(nrel == 1 && rel_obj == &objs[i] && rel_tok == tok[i] && (rel_rdy != 0) == (rdy[i] != 0), "done: the next token's item was not released with its own contents");
      VP_ASSERT(!vp_slot_valid(&B, i), "done: slot of the new low_token not cleared");
    } else {
      VP_ASSERT((vp_slot_valid(&B, i) != 0) == (val[i] != 0), "done: another slot's valid flag changed");
      if (val[i]) VP_ASSERT(vp_slot_obj(&B, i) == &objs[i] && vp_slot_token(&B, i) == tok[i] && (vp_slot_ready(&B, i) != 0) == (rdy[i] != 0), "done: another parked item damaged");
    }
  }
  VP_ASSERT(nrel == had, "done: released an item although the next token is not parked (or twice)");
#endif
#endif
  VP_REACHED();
  return 0;
}

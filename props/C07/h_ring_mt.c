/* C07 tokenbuf_mt: the real token ring of a serial filter under true concurrency (Lazy-CSeq engine, context switch before every
 * memory operation): arriving items (try_put_token) race with the item that leaves the filter (try_to_spawn_task_for_next_token).
 * Pre-state (built with the real code, sequentially): the item with token L (symbolic 64-bit) has gone through the filter body
 * and is about to report completion; PREMASK bit d set = token L+d is already parked.
 * Threads: B = completion of L;  A = arrival of token L+DA;  C (NT==3) = arrival of token L+DC.
 * FRESH=1: arrivals carry no token (first serial_in_order filter / serial_out_of_order): the ring assigns high_token++.
 * Oracle: an item enters the filter only in token order, only while no other item is inside, exactly once, with its own payload;
 * no lost hand-off (an item whose turn has come is neither parked forever nor dropped): after the threads finish, the remaining
 * completions are replayed sequentially and every item must have run; ring empty, mutex free; blocked-state oracle for the mutex. */
#include "w.h"
#include "vp.h"
typedef struct S_class_tbb__detail__r1__input_buffer ib_t;
ib_t B;
#include "ring_alloc.h"
/* input_buffer::grow is cut in this unit (its loops would dominate the thread encoding; it is covered by tokenbuf_seq and
   ring_step, always runs under array_mutex). The ctor's call allocates the initial ring through the real allocator stub;
   any later call is unexpected here: every token of these scenarios fits into the initial ring. */
static int grow_calls;
void _ZN3tbb6detail2r112input_buffer4growEm(ib_t* b, u64 min) {
  grow_calls++;
  VP_ASSERT(grow_calls == 1 && min == 4, "grow called although the token fits into the ring (harness scenario has < 4 outstanding tokens)");
  u8* p = _ZN3tbb6detail2r122cache_aligned_allocateEm(4 * sizeof(ti_t));
  for (int i = 0; i < 4; i++) ((ti_t*)p)[i].f3 = 0;   /* is_valid = false */
  vp_ib_raw(b, p, 4);
}
#ifndef PREMASK
#define PREMASK 0
#endif
#ifndef FRESH
#define FRESH 0
#endif
#define MAXD 8
#define NPRE (((PREMASK) >> 1 & 1) + ((PREMASK) >> 2 & 1) + ((PREMASK) >> 3 & 1))
/* item ids = index into objs[]: with upstream tokens (FRESH 0) id == distance of the token from L; with ring-assigned tokens
   (FRESH 1 ordered, FRESH 2 serial_out_of_order) id 0 = the item that completes, 1..NPRE pre-parked, then A, then C */
#if FRESH
#define IDA (NPRE + 1)
#define IDC (NPRE + 2)
#else
#define IDA DA
#define IDC DC
#endif
static u64 L, next_expected; static int inside, nrun, ran[MAXD], present[MAXD];
static u8 objs[MAXD];
void vp_run(u32 how, u64 token, u8* obj, u32 ready) {
  VP_ASSERT(inside == 0, "serial filter entered while another item is still inside it");
  inside = 1; nrun++;
  u64 id = (u64)(obj - objs);
  VP_ASSERT(id < MAXD && present[id], "an item nobody put entered the filter (foreign payload)");
  VP_ASSERT(!ran[id], "item entered the serial filter twice");
  ran[id] = 1;
#if FRESH != 2
  VP_ASSERT(ready, "ordered filter: token not marked ready");
  VP_ASSERT(token == next_expected, "serial_in_order filter ran an item out of token order");
  next_expected++;
#endif
#if FRESH == 0
  VP_ASSERT(token - L == id, "item entered the filter with another item's token");
#endif
#if FRESH == 2
  VP_ASSERT(token == 1000 + id && !ready, "serial_out_of_order filter clobbered the item's own token");
#endif
}
int main(void) {
#ifdef LVAL
  L = LVAL;
#else
  L = vp_nd();
#endif
  vp_ib_init(&B, FRESH != 2, L);
  present[0] = 1; ran[0] = 1; nrun = 1; next_expected = L + 1;
  u32 r = vp_ib_put(&B, FRESH == 2 ? 1000 : L, FRESH == 0, &objs[0]);
  VP_ASSERT(r == 0, "pre-state: the low token must not be parked");
  int n = 1;
#if FRESH
  for (int d = 1; d <= NPRE; d++) { present[d] = 1; n++; r = vp_ib_put(&B, FRESH == 2 ? 1000 + d : 0, 0, &objs[d]); VP_ASSERT(r == 1, "pre-state: park"); }
#else
  for (int d = 1; d < MAXD; d++) if (PREMASK >> d & 1) { present[d] = 1; n++; r = vp_ib_put(&B, L + d, 1, &objs[d]); VP_ASSERT(r == 1, "pre-state: park"); }
#endif
  present[IDA] = 1; n++;
  vp_thr_put_a_start(&B, FRESH == 2 ? 1000 + IDA : FRESH ? 0 : L + DA, FRESH == 0, &objs[IDA]);
  vp_thr_done_b_start(&B);
#if NT == 3
  present[IDC] = 1; n++;
  vp_thr_put_c_start(&B, FRESH == 2 ? 1000 + IDC : FRESH ? 0 : L + DC, FRESH == 0, &objs[IDC]);
#endif
  for (int rr = 0; rr < ROUNDS; rr++) {
    VP_RUN(vp_thr_put_a) VP_RUN(vp_thr_done_b)
#if NT == 3
    VP_RUN(vp_thr_put_c)
#endif
  }
#if NT == 3
  VP_QUIESCE3(vp_thr_put_a, vp_thr_done_b, vp_thr_put_c)
#else
  VP_QUIESCE2(vp_thr_put_a, vp_thr_done_b)
#endif
  VP_ASSERT(!vp_deadlock, "array_mutex: lost hand-off / deadlock");
  __CPROVER_assume(!vp_unfinished);
  /* the remaining completions, sequentially (real code): each item that is inside leaves, which must release the next one */
  for (int k = 0; k < MAXD; k++) if (inside) { inside = 0; vp_thr_done_seq(&B); }
  VP_ASSERT(nrun == n, "an item whose turn had come never entered the filter (lost in the ring / lost hand-off)");
  for (int d = 0; d < MAXD; d++) VP_ASSERT(!present[d] || ran[d], "item lost");
  VP_ASSERT(vp_ib_low(&B) == L + (u64)n, "low_token after all items left");
  VP_ASSERT(vp_ib_high(&B) == (FRESH ? L + (u64)n : L), "high_token: one token per arrival without upstream token");
  VP_ASSERT(vp_ib_size(&B) == 4, "ring size");
  for (u64 s = 0; s < 4; s++) VP_ASSERT(!vp_slot_valid(&B, s), "parked item left behind");
  VP_ASSERT(vp_ib_lockword(&B) == 0, "array_mutex still held");
  VP_REACHED();
  return 0;
}

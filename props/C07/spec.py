import itertools
PROPERTY = 'C07'
CXX = ['-D__TBB_BUILD=1']
UNITS = {
  'ring': dict(wrapper='w_pipe.cpp', mode='seq', cxxflags=CXX, selftest=True),
  'stage': dict(wrapper='w_stage.cpp', mode='seq', cxxflags=CXX),
  'mt_ppd': dict(wrapper='w_ring_mt.cpp', mode='lcs', cxxflags=CXX, unroll=1, cut=['input_buffer4grow'], threads={'vp_thr_put': ['a', 'c'], 'vp_thr_done': ['b']}),
  'mt_pd': dict(wrapper='w_ring_mt.cpp', mode='lcs', cxxflags=CXX, unroll=1, cut=['input_buffer4grow'], threads={'vp_thr_put': ['a'], 'vp_thr_done': ['b']}),
}
STARTS = (0, 1, 2, 3, 4)
def tb(n, modes, starts=STARTS, **kw):
    return [dict(dict(MODE=m, N=n, STARTK=s), **kw) for m in modes for s in starts]
GROW5 = ['4,3,2,1,0', '1,4,2,3,0', '2,4,1,3,0']
DEEP = ['8,4,7,6,5,3,2,1,0', '4,8,0,7,1,6,5,3,2', '8,7,6,5,4,3,2,1,0', '3,6,8,0,1,2,7,4,5', '1,2,3,4,5,6,7,8,0']
LWRAP = '18446744073709551615UL'
def mt2(ls, rounds=None):
    out = []
    for l in ls:
        for fresh, da, pre in [(0, 1, 0), (0, 2, 0b010), (0, 1, 0b100), (0, 3, 0b110), (0, 2, 0b1010), (1, 0, 0), (1, 0, 0b10), (2, 0, 0), (2, 0, 0b110)]:
            sc = dict(FRESH=fresh, DA=da, PREMASK=pre, LVAL=l)
            if rounds: sc['ROUNDS'] = rounds
            out.append(sc)
    return out
def mt3(ls, rounds=None):
    out = []
    for l in ls:
        for fresh, da, dc, pre in [(0, 1, 2, 0), (0, 1, 3, 0b100), (0, 2, 3, 0b010), (1, 0, 0, 0), (1, 0, 0, 0b10), (2, 0, 0, 0)]:
            sc = dict(FRESH=fresh, DA=da, DC=dc, PREMASK=pre, LVAL=l)
            if rounds: sc['ROUNDS'] = rounds
            out.append(sc)
    return out
def stage(nf, items, tok, combos=None):
    combos = combos or list(itertools.product((2, 1, 3), repeat=nf))
    return [dict([('NF', nf), ('ITEMS', items), ('TOK', tok)] + [('M%d' % i, m) for i, m in enumerate(c)]) for c in combos]
Q3 = [(2, 1, 1), (1, 2, 1), (1, 1, 1), (2, 3, 1), (1, 3, 1), (3, 2, 1), (2, 2, 1), (1, 2, 3), (3, 1, 2)]
HARNESSES = [
  dict(name='tokenbuf_seq', unit='ring', harness='h_tokenbuf.c', cbmc=['--unwind', '34', '--object-bits', '12'],
       scenarios_quick=tb(3, (0, 1, 2)) + tb(4, (0,)) + [dict(MODE=0, N=5, STARTK=s, PERM=p) for s in (1, 3) for p in GROW5] +
                       [dict(MODE=0, N=9, STARTK=s, PERM=p) for s in (1, 3) for p in DEEP[:2]],
       scenarios_thorough=tb(4, (0, 1, 2)) + tb(5, (0,)) + tb(6, (1, 2), (1, 3)) + [dict(MODE=0, N=9, STARTK=s, PERM=p) for s in (1, 3) for p in DEEP],
       timeout=800, mem_gb=10, thorough_override=dict(timeout=3500),
       desc='real input_buffer (try_put_token / try_to_spawn_task_for_next_token / grow / ctor) of one serial filter, N items: the solver chooses '
            'the arrival order (all N! orders) and every completion time; serial_in_order with upstream tokens (MODE 0), first ordered filter '
            '(MODE 1), serial_out_of_order (MODE 2); token counters started at 0 / wrapping 2^64 / 2^32 / 5 / 2^63. One item in the filter at a '
            'time, token order, exactly once with own payload+token, nothing left parked, old rings freed once',
       bounds={'items': 'quick N=3,4 (all orders x all timings); thorough N=5 (945 schedules per query), N=6 for MODE 1/2, N=9 on 5 concrete '
                        'arrival orders that grow the ring 4->8->16 and 4->16', 'start tokens': '5 concrete values', 'loops': 'unwind 34'}),
  dict(name='ring_step', unit='ring', harness='h_ringstep.c', cbmc=['--unwind', '34', '--object-bits', '12'],
       scenarios_quick=[dict(KIND=k, OP=op, SZ=4) for k in (0, 1, 2) for op in (0, 1, 2)] + [dict(KIND=k, OP=1, SZ=8) for k in (0, 1, 2)],
       scenarios_thorough=[dict(KIND=k, OP=op, SZ=sz) for k in (0, 1, 2) for op in (0, 1) for sz in (4, 8)] + [dict(KIND=k, OP=2, SZ=4) for k in (0, 1, 2)],
       timeout=1200, mem_gb=10, thorough_override=dict(timeout=3600),     # largest timeout => scheduled first (longest single queries)
       desc='ONE operation of the real token ring from an ARBITRARY ring state satisfying the representation invariant (any 64-bit low_token, '
            'any set of parked items, symbolic payloads): try_put_token at any distance < 4*array_size (incl. grow x2 / x4: every parked item '
            're-homed by its token, unchanged, nothing else valid), try_to_spawn_task_for_next_token (exactly the next token released, others '
            'untouched), ctor establishes the invariant. KIND 0 upstream tokens / 1 first ordered filter / 2 serial_out_of_order',
       bounds={'array_size': 'quick 4 (put, done) and 8 (done); thorough 4 and 8 for both', 'low_token/high_token': 'any 64-bit value',
               'put distance': '< 4*array_size (ring doubles or quadruples, <= 32 slots)', 'induction': 'histories of any length follow by induction on the '
               'invariant (paper argument); sizes > 8 not stepped'}),
  dict(name='tokenbuf_mt2', unit='mt_pd', harness='h_ring_mt.c', defines={'ROUNDS': 3, 'NT': 2}, cbmc=['--unwind', '34', '--object-bits', '12'],
       scenarios=mt2((LWRAP,)), scenarios_thorough=mt2((LWRAP, '5UL', '4294967294UL'), rounds=4), timeout=1000, thorough_override=dict(timeout=3600),
       desc='real token ring under concurrency (Lazy-CSeq, context switch before every memory op): thread A try_put_token (arriving item) || '
            'thread B try_to_spawn_task_for_next_token (item leaving the filter); pre-parked items per scenario; upstream tokens / ring-assigned '
            'tokens / serial_out_of_order. Token order, one item inside at a time, exactly once, no item lost between park and release '
            '(remaining completions replayed sequentially), array_mutex blocked-state oracle',
       bounds={'threads': 2, 'free_rounds': '3 quick / 4 thorough', 'forced_rounds': 2, 'spin_unroll': 1, 'low_token': 'quick 2^64-1 (wraps); thorough also 5, 2^32-2',
               'grow': 'cut (every token fits into the initial ring); grow is covered by tokenbuf_seq / ring_step'}),
  dict(name='tokenbuf_mt3', unit='mt_ppd', harness='h_ring_mt.c', defines={'ROUNDS': 2, 'NT': 3}, cbmc=['--unwind', '34', '--object-bits', '12'],
       scenarios=mt3((LWRAP,)), scenarios_thorough=mt3((LWRAP, '5UL'), rounds=3), timeout=1100, thorough_override=dict(timeout=3600),
       desc='as tokenbuf_mt2 with two arriving items (threads A, C) racing with one completion (B): distinct tokens assigned under the lock, '
            'only the item whose turn it is enters the filter',
       bounds={'threads': 3, 'free_rounds': '2 quick / 3 thorough', 'forced_rounds': 2, 'spin_unroll': 1, 'low_token': '2^64-1; thorough also 5', 'grow': 'cut'}),
  dict(name='stage', unit='stage', harness='h_stage.c', cbmc=['--unwind', '40', '--object-bits', '12'],
       scenarios_quick=stage(3, 2, 2, Q3) + stage(2, 3, 2) + stage(1, 3, 2) + stage(3, 3, 1, [(1, 1, 1), (2, 3, 1), (1, 2, 3)]),
       scenarios_thorough=stage(3, 3, 2) + [sc for sc in stage(2, 4, 3) if (sc['M0'], sc['M1']) != (2, 2)] + stage(2, 3, 3, [(2, 2)]) + stage(2, 3, 1) + stage(1, 4, 3) + stage(4, 2, 2, [(2, 1, 2, 1), (1, 1, 3, 1), (1, 2, 1, 3), (3, 1, 1, 2), (2, 3, 2, 1)]),
       timeout=900, mem_gb=12, thorough_override=dict(timeout=3600, mem_gb=20),
       desc='real pipeline/add_filter/stage_task::execute_filter/try_spawn_stage_task/spawn_stage_task/~stage_task + token rings, run as a task bag: '
            'the solver picks which spawned (or bypassed) task executes next, every order of one configuration in one query. live items <= '
            'max_number_of_live_tokens and idle input_tokens + live <= limit at every task boundary; every item through every filter exactly once '
            'in filter order; all serial_in_order filters see one common order; never two runnable tasks at one serial filter; wait_context '
            'reaches zero exactly once, only with empty bag, after end of input and after every item left the last filter; no task leaked/freed twice',
       bounds={'filters': 'quick 1-2 (all mode combinations) and 3 (9 of 27 combinations); thorough 1-3 all combinations, 4 filters (5 combinations)', 'items': 'quick 2 (3 filters) / 3 (1-2 filters); thorough 3-4 (parallel+parallel with limit 3: 3 items, the 4-item tree exceeds cbmc object limits)',
               'max_number_of_live_tokens': 'quick 1-2; thorough 1-3', 'granularity': 'tasks are atomic (overlap of task bodies is covered for the ring by tokenbuf_mt*)',
               'filter_may_emit_null / thread-local end_of_input': 'not driven'}),
]
# 'mut' tier: small scenario subsets used for mutation testing only (./check C07 --tier mut --only <name>); see NOTES.md
for h in HARNESSES: h['tiers'] = ['quick', 'thorough']
HARNESSES += [
  dict(HARNESSES[4], name='stage_mut', tiers=['mut'], scenarios_quick=None, scenarios_thorough=None, timeout=900,
       scenarios=stage(2, 3, 2, [(1, 1), (2, 1)]) + stage(3, 2, 2, [(1, 2, 1)]) + stage(2, 3, 1, [(1, 1)])),
  dict(HARNESSES[1], name='ring_step_mut', tiers=['mut'], scenarios_quick=None, scenarios_thorough=None, timeout=900,
       scenarios=[dict(KIND=1, OP=0, SZ=4), dict(KIND=0, OP=1, SZ=4), dict(KIND=2, OP=1, SZ=4)]),
  dict(HARNESSES[0], name='tokenbuf_seq_mut', tiers=['mut'], scenarios_quick=None, scenarios_thorough=None, timeout=900,
       scenarios=tb(3, (0, 1, 2), (1, 3)) + [dict(MODE=0, N=5, STARTK=s, PERM=p) for s in (1, 3) for p in GROW5[1:]] + [dict(MODE=0, N=9, STARTK=3, PERM=DEEP[1])]),
]
MANIFEST = dict(
  level_text='Bounded symbolic execution / bounded model checking of the real src/tbb/parallel_pipeline.cpp. (1) Token ring of a serial filter '
             '(input_buffer): for N<=5 items every arrival order and every completion timing is decided by the solver (plus concrete deep orders with '
             '9 items that grow the ring twice), and one inductive step of try_put_token (incl. grow) / try_to_spawn_task_for_next_token from an '
             'arbitrary ring state with any 64-bit low_token: items enter a serial filter one at a time, in token order, exactly once, nothing parked '
             'is lost or damaged by growth. (2) The same ring under real concurrency (2-3 threads, every interleaving of single memory operations '
             'within a bounded number of scheduling rounds, spin_mutex included). (3) Pipeline level: stage_task::execute_filter token accounting run '
             'as a task bag over all task orders for 1-4 filters of every mode combination: live items never exceed max_number_of_live_tokens, every '
             'item passes every filter exactly once, all serial_in_order filters see one common order, no serial filter is runnable twice at once, '
             'and the wait is released exactly once, only after end of input and after every item left the last filter.',
  level_note='Bounds per harness in evidence (items <= 9 per ring, ring sizes 4/8 as pre-state, <= 4 filters, <= 4 items, limit <= 3, threads <= 3, rounds 2-4). '
             'Tasks are atomic at pipeline level (overlap of stage bodies is covered only for the token ring); scheduler entry points are harness stubs; '
             'input_buffer::grow is cut in the thread-mode units. filter_may_emit_null inputs, cancellation and thread-bound filters are outside. '
             'Sequential consistency. Trusted: clang-14 IR, tools/ir2c.py (ring unit validated per run by the selftest differential), cbmc.',
)
OUTSIDE = ['more than 9 items through one ring (sequences) / rings larger than 8 slots as pre-state of a step (32 after growth)',
           'true overlap of two stage_task::execute_filter bodies other than on the token ring (input_tokens/end_of_input are single atomic words; their protocol is checked at task granularity only)',
           'concurrent grow (input_buffer::grow is cut in the thread-mode units; it always runs under array_mutex)',
           'filters that may emit null objects (filter_may_emit_null, thread-local end_of_input), thread-bound filters, cancellation/exceptions (finalize paths)',
           'the scheduler itself (r1::spawn / execute_and_wait are the harness), more than 3 threads, more than 4 filters / 4 items / 3 tokens at pipeline level',
           'non-SC memory orders (relaxed end_of_input, release/acquire input_tokens)']
STUBS = ['r1::spawn: task becomes runnable (bag); r1::allocate/deallocate (small objects): fresh typed storage, frees recorded; r1::notify_waiters: recorded; r1::allocate_memory: one input_buffer per filter',
         'user filters: observers returning the item (input filter: ITEMS items then nullptr)', 'sched_yield/pause: no-op', 'input_buffer::grow cut in thread-mode units only (ctor call: 4 cleared slots)',
         'r1::cache_aligned_allocate/deallocate: typed static buffer of exactly the requested size, never NULL; frees recorded and checked']
ASSUMPTIONS = ['token counters may hold any 64-bit value (wrap-around states are treated as reachable)', 'ring representation invariant of ring_step (stated in h_ringstep.c) is inductive: established by the ctor step, preserved by both operation steps']

// C07 wrapper (thread mode): the real token ring accessed by concurrent stage tasks.
// Thread bodies = what stage_task::execute_filter does around a serial filter: an arriving item calls try_put_token and runs
// the filter itself iff it was not parked; the item leaving the filter calls try_to_spawn_task_for_next_token.
#include "src/tbb/parallel_pipeline.cpp"
using namespace tbb::detail::r1;
using namespace tbb::detail;
extern "C" void vp_run(int how, unsigned long token, void* obj, int token_ready);   // observer: item enters the serial filter (how: 0 by its own task, 1 spawned by the finishing item)
struct vp_spawner {
  void spawn_stage_task(const task_info& w, d1::execution_data&) { vp_run(1, w.my_token, w.my_object, w.my_token_ready); }
};
extern "C" {
void vp_ib_init(input_buffer* b, int ordered, unsigned long low) { new (b) input_buffer(ordered != 0); b->low_token = low; b->high_token = low; }
// sequential pre-state building (main thread, before the threads start)
int vp_ib_put(input_buffer* b, unsigned long token, int ready, void* obj) {
  task_info ti; ti.reset(); ti.my_object = obj; ti.my_token = token; ti.my_token_ready = ready != 0;
  return b->try_put_token(ti) ? 1 : 0;
}
void vp_thr_put(input_buffer* b, unsigned long token, int ready, void* obj) {
  task_info ti; ti.reset(); ti.my_object = obj; ti.my_token = token; ti.my_token_ready = ready != 0;
  if (!b->try_put_token(ti)) vp_run(0, ti.my_token, ti.my_object, ti.my_token_ready);
}
void vp_thr_done(input_buffer* b) { vp_spawner s; d1::execution_data* ed = nullptr; b->try_to_spawn_task_for_next_token(s, *ed); }
void vp_thr_done_seq(input_buffer* b) { vp_spawner s; d1::execution_data* ed = nullptr; b->try_to_spawn_task_for_next_token(s, *ed); }
void vp_ib_raw(input_buffer* b, void* arr, unsigned long size) { b->array = (task_info*)arr; b->array_size = size; }
unsigned long vp_ib_low(input_buffer* b) { return b->low_token; }
unsigned long vp_ib_high(input_buffer* b) { return b->high_token; }
unsigned long vp_ib_size(input_buffer* b) { return b->array_size; }
void* vp_ib_array(input_buffer* b) { return b->array; }
unsigned long vp_ib_lockword(input_buffer* b) { return b->array_mutex.m_flag.load(std::memory_order_relaxed); }
int vp_slot_valid(input_buffer* b, unsigned long i) { return b->array[i].is_valid; }
}

/* C07 stage: token accounting and routing of the real stage_task::execute_filter / pipeline / input_buffer, run as a task bag.
 * The harness is the scheduler and the user: r1::spawn puts a task into the bag; the solver picks which bag task executes next
 * (any order = any interleaving at task granularity; a task returned by execute() for bypass goes back into the bag as well);
 * filter bodies are observers. The driver is a decision tree (no joins), so the pipeline state is concrete on every path and all
 * schedules of one configuration are decided in one query.
 *   NF filters with modes M0..M3 (2 parallel, 1 serial_in_order, 3 serial_out_of_order = d1::filter_mode values),
 *   ITEMS items emitted by the input filter before it signals end of input (returns nullptr), TOK = max_number_of_live_tokens.
 * Oracle (checked at every filter invocation / task boundary / end):
 *   - live items (input filter returned it .. last filter returned) never exceed TOK, and idle input_tokens + live <= TOK at task boundaries
 *   - every item passes filter k exactly once and only after filter k-1; the last filter sees every emitted item
 *   - all serial_in_order filters see the items in one common order (that of the first serial_in_order filter)
 *   - a serial filter is never runnable twice at once: at most one spawned/bypassed task is positioned at any serial filter
 *     (for a serial input filter: at most one input-stage task exists; it is not called again after it signalled end of input)
 *   - the wait_context drops to zero (r1::notify_waiters) exactly once, and only when the bag is empty, end of input was
 *     signalled and every emitted item has left the last filter; nothing stays parked in a ring; every task is freed exactly once */
#include "w.h"
#include "vp.h"
#ifndef NF
#define NF 2
#endif
#ifndef M1
#define M1 2
#endif
#ifndef M2
#define M2 2
#endif
#ifndef M3
#define M3 2
#endif
#ifndef MAXSTEPS
#define MAXSTEPS (ITEMS * NF + 2 * ITEMS + 6)
#endif
#define MAXT 24
#define MAXB 8
typedef struct S_class_tbb__detail__r1__pipeline pipe_t;
typedef struct S_class_tbb__detail__r1__stage_task task_t;
typedef struct S_class_tbb__detail__r1__input_buffer ib_t;
typedef struct S_struct_tbb__detail__r1__task_info ti_t;
typedef struct S_struct_vp_filter filt_t;
static pipe_t P; static struct S_class_tbb__detail__d1__task_group_context CTX;
static filt_t F[4]; static const u32 modes[4] = { M0, M1, M2, M3 };
static task_t T[MAXT]; static int t_alloc, t_freed[MAXT];
static ib_t IBP[4]; static int ib_alloc;
static ti_t R4[4][4]; static int r4_alloc;
static u8* bag[MAXB]; static int nbag;
static u8 items[ITEMS + 1];
static int emitted, input_ended, live, notified, steps, leaves;
static int visited[4][ITEMS + 1], seq[4][ITEMS + 1], nseq[4];
#define SERIAL(m) ((m) & 1)
#define ORDERED(m) ((m) == 1)

/* ---- scheduler-side stubs (documented contract of the r1:: entry points used by parallel_pipeline.cpp) ---- */
static u8* task_alloc(u64 n) {
  VP_ASSERT(n == sizeof(task_t), "small object size");
  VP_ASSERT(t_alloc < MAXT, "harness bound: task pool exhausted (not a oneTBB defect)"); __CPROVER_assume(t_alloc < MAXT);
  return (u8*)&T[t_alloc++];
}
u8* _ZN3tbb6detail2r18allocateERPNS0_2d117small_object_poolEmRKNS2_14execution_dataE(struct S_class_tbb__detail__d1__small_object_pool** pool, u64 n, struct S_struct_tbb__detail__d1__execution_data* ed) { *pool = (struct S_class_tbb__detail__d1__small_object_pool*)&CTX; return task_alloc(n); }
u8* _ZN3tbb6detail2r18allocateERPNS0_2d117small_object_poolEm(struct S_class_tbb__detail__d1__small_object_pool** pool, u64 n) { *pool = (struct S_class_tbb__detail__d1__small_object_pool*)&CTX; return task_alloc(n); }
void _ZN3tbb6detail2r110deallocateERNS0_2d117small_object_poolEPvmRKNS2_14execution_dataE(struct S_class_tbb__detail__d1__small_object_pool* pool, u8* p, u64 n, struct S_struct_tbb__detail__d1__execution_data* ed) {
  u64 k = (u64)((task_t*)p - T);
  VP_ASSERT(k < (u64)t_alloc && p == (u8*)&T[k] && n == sizeof(task_t), "deallocate of something that is not a live stage_task");
  VP_ASSERT(!t_freed[k], "stage_task freed twice");
  for (int i = 0; i < MAXB; i++) if (i < nbag) VP_ASSERT(bag[i] != p, "stage_task freed while it is still spawned");
  t_freed[k] = 1;
}
void _ZN3tbb6detail2r15spawnERNS0_2d14taskERNS2_18task_group_contextE(struct S_class_tbb__detail__d1__task* t, struct S_class_tbb__detail__d1__task_group_context* c) {
  VP_ASSERT(c == &CTX, "spawn into a foreign context");
  VP_ASSERT(nbag < MAXB, "harness bound: bag full (not a oneTBB defect)"); __CPROVER_assume(nbag < MAXB);
  bag[nbag++] = (u8*)t;
}
void _ZN3tbb6detail2r114notify_waitersEm(u64 addr) { VP_ASSERT(addr == vp_pipe_waitctx_addr(&P), "notify for a foreign wait_context"); notified++; }
u8* _ZN3tbb6detail2r115allocate_memoryEm(u64 n) { VP_ASSERT(n == sizeof(ib_t) && ib_alloc < 4, "allocate_memory: one input_buffer per filter"); return (u8*)&IBP[ib_alloc++]; }
u8* _ZN3tbb6detail2r122cache_aligned_allocateEm(u64 n) {
  VP_ASSERT(n == sizeof(R4[0]) && r4_alloc < 4, "harness bound: a token ring grew (needs >= 4 outstanding tokens; TOK is smaller) - not a oneTBB defect");
  __CPROVER_assume(n == sizeof(R4[0]) && r4_alloc < 4);
  return (u8*)R4[r4_alloc++];
}
void _ZN3tbb6detail2r124cache_aligned_deallocateEPv(u8* p) { VP_ASSERT(0, "ring freed while the pipeline runs"); }

/* ---- user filters ---- */
u8* vp_filter_body(u32 idx, u8* item) {
  VP_ASSERT(idx < NF, "filter index");
  if (idx == 0) {
    VP_ASSERT(item == 0, "input filter must be called with nullptr");
    if (SERIAL(modes[0])) VP_ASSERT(!input_ended, "serial input filter called again after it signalled end of input");
    if (emitted == ITEMS) { input_ended = 1; return 0; }
    int id = emitted++;
    live++;
    VP_ASSERT(live <= TOK, "more than max_number_of_live_tokens items in flight");
    visited[0][id] = 1; seq[0][nseq[0]++] = id;
    if (NF == 1) live--;
    return NF == 1 ? &items[ITEMS] : &items[id];          /* single-filter pipeline: any non-null value = "continue" */
  }
  u64 id = (u64)(item - items);
  VP_ASSERT(item != 0 && id < ITEMS && id < (u64)emitted, "filter called with something the previous filter did not produce");
  VP_ASSERT(visited[idx - 1][id] == 1, "item reached a filter without having passed the previous one");
  VP_ASSERT(visited[idx][id] == 0, "item passed through the same filter twice");
  visited[idx][id] = 1;
  int k = nseq[idx]++; seq[idx][k] = (int)id;
  if (ORDERED(modes[idx])) {
    for (int e = 0; e < NF; e++) if (e < (int)idx && ORDERED(modes[e])) { VP_ASSERT(seq[e][k] == (int)id, "serial_in_order filters saw the items in different orders"); break; }
  }
  if (idx == NF - 1) { live--; return 0; }
  return item;
}
void vp_filter_finalize(u32 idx, u8* item) { VP_ASSERT(0, "finalize(item) called although the pipeline was not cancelled"); }

static void check_boundary(void) {
  /* input_tokens = "number of idle tokens waiting for input stage": idle + live may never exceed the limit (else a longer input
     would put more than TOK items in flight). Not an equality: a parallel input stage takes its token before calling the filter
     and keeps it when the filter signals end of input. */
  u64 idle = vp_pipe_tokens(&P);
  VP_ASSERT(idle <= (u64)TOK && idle + (u64)live <= (u64)TOK, "idle input tokens + live items exceed max_number_of_live_tokens");
  int at[4] = {0, 0, 0, 0};
  for (int i = 0; i < MAXB; i++) if (i < nbag) {
    u32 f = vp_task_filter(bag[i]);
    VP_ASSERT(f < NF, "spawned task has no filter to run");
    at[f]++;
    VP_ASSERT((f == 0) == (vp_task_at_start(bag[i]) != 0), "input-stage flag inconsistent with the task's filter");
  }
  for (int f = 0; f < NF; f++) if (SERIAL(modes[f])) VP_ASSERT(at[f] <= 1, "two runnable tasks positioned at the same serial filter (filter could run twice at once)");
}
static void finish(void) {
  leaves++;
  VP_ASSERT(notified == 1, "wait_context not released exactly once when the last task finished (call would hang / return early)");
  VP_ASSERT(vp_pipe_refs(&P) == 0, "wait_context reference count not zero at the end");
  VP_ASSERT(input_ended && vp_pipe_eoi(&P), "pipeline went idle before the input filter signalled end of input");
  VP_ASSERT(emitted == ITEMS && live == 0, "items still in flight when the pipeline went idle");
  for (int f = 0; f < NF; f++) for (int i = 0; i < ITEMS; i++) VP_ASSERT(visited[f][i] == 1, "an item did not pass through every filter");
  for (int f = 0; f < NF; f++) VP_ASSERT(vp_filter_ring_clean(&F[f]), "item left parked in a token ring / ring mutex held");
  for (int k = 0; k < MAXT; k++) if (k < t_alloc) VP_ASSERT(t_freed[k], "stage_task leaked");
}
static void go(void) {
  if (nbag == 0) { finish(); return; }
  VP_ASSERT(notified == 0, "wait_context released while tasks are still spawned (parallel_pipeline would return early)");
  VP_ASSERT(steps < MAXSTEPS, "harness bound: more task executions than MAXSTEPS (not a oneTBB defect)"); __CPROVER_assume(steps < MAXSTEPS);
  steps++;
  for (int i = 0; i < MAXB; i++) {
    if (i >= nbag) break;
    if (i == nbag - 1 || vp_nd_bool()) {
      u8* t = bag[i];
      bag[i] = bag[nbag - 1]; nbag--;
      u8* next = vp_task_execute(t);
      if (next) { VP_ASSERT(nbag < MAXB, "harness bound: bag full"); __CPROVER_assume(nbag < MAXB); bag[nbag++] = next; }
      check_boundary();
      go();
      return;
    }
  }
}
int main(void) {
  vp_pipe_init(&P, &CTX, TOK);
  for (int f = 0; f < NF; f++) vp_pipe_add(&P, &F[f], modes[f], f);
  bag[nbag++] = vp_pipe_first_task(&P);       /* parallel_pipeline(): first stage_task, then execute_and_wait() = the bag loop */
  check_boundary();
  go();
  VP_ASSERT(leaves == 1, "driver: exactly one schedule per run");
  VP_REACHED();
  return 0;
}

/* C07 tokenbuf_seq: the real input_buffer (token ring) of one serial filter, driven sequentially.
 * Exact model of this object: every access of the real code is under array_mutex.
 *   N       items pass through the filter
 *   MODE 0  serial_in_order filter that is NOT the first ordered one: items carry tokens low0..low0+N-1 (assigned upstream)
 *           and arrive in ANY order
 *   MODE 1  first serial_in_order filter after a parallel stage: items arrive without token, the ring assigns it (arrival order)
 *   MODE 2  serial_out_of_order filter: items carry a (symbolic) token of an earlier ordered filter which must survive parking
 *   PERM    (optional, MODE 0) concrete arrival order, for deep scenarios (N=9: ring grows 4->8->16 / 4->16)
 *   FIRST   (optional, MODE 0) first arriving item concrete: splits the N=6 tree into 6 queries
 *   STARTK  start value low0 of the token counters (see LOW0 below): 0, wrap of 2^64 inside the run, 2^32 boundary,
 *           5 (ring slots not aligned with token 0), 2^63 boundary (signed/unsigned comparison)
 * The solver owns the schedule: at every point it chooses between "some not-yet-arrived item arrives" (which one: MODE 0) and
 * "the item inside the filter leaves it" (try_to_spawn_task_for_next_token). The driver is a decision *tree* (recursion, no
 * join before the end), so that symbolic execution keeps the ring state concrete on every path; all paths are in one query.
 * Oracle: one item inside the filter at a time; MODE 0/1 strict token order; each item exactly once, with its own payload and
 * token; nothing left parked at the end. */
#include "w.h"
#include "vp.h"
typedef struct S_class_tbb__detail__r1__input_buffer ib_t;
ib_t B;
#include "ring_alloc.h"

#if STARTK == 0
#define LOW0 ((u64)0)
#elif STARTK == 1
#define LOW0 ((u64)0 - (u64)(N / 2))
#elif STARTK == 2
#define LOW0 ((u64)0x100000000ull - (u64)(N / 2))
#elif STARTK == 3
#define LOW0 ((u64)5)
#else
#define LOW0 ((u64)0x8000000000000000ull - (u64)(N / 2))
#endif
static int running, nrun, seen[N], arrived[N], leaves;
static u64 next_expected;
static u8 objs[N];
static u64 tok_of[N]; static u32 rdy_of[N];   /* token / ready flag each item must carry when it is released */

static void run_item(u64 token, u8* obj, u32 ready) {
  VP_ASSERT(running == 0, "serial filter entered while another item is still inside it");
  running = 1; nrun++;
  u64 idx = (u64)(obj - objs);
  VP_ASSERT(idx < N, "released item carries a payload that was never put");
  VP_ASSERT(!seen[idx], "item released twice");
  seen[idx] = 1;
  VP_ASSERT(token == tok_of[idx] && (ready != 0) == (rdy_of[idx] != 0), "released item does not carry its own token");
#if MODE != 2
  VP_ASSERT(token == next_expected, "serial_in_order filter ran an item out of token order");
  next_expected++;
#endif
}
void vp_released(u64 token, u8* obj, u32 ready) { run_item(token, obj, ready); }
void vp_caller_info(u64 token, u8* obj, u32 ready, u32 valid) { VP_ASSERT(valid, "is_valid not set on the item the caller runs"); run_item(token, obj, ready); }

static void arrive(int k, int nth) {
  arrived[k] = 1;
#if MODE == 0
  tok_of[k] = LOW0 + (u64)k; rdy_of[k] = 1;
  vp_ib_put2(&B, tok_of[k], 1, &objs[k]);          /* not parked => vp_caller_info() reports what the caller now runs */
#elif MODE == 1
  u64 t = 0; u32 rd = 0;
  tok_of[k] = LOW0 + (u64)nth; rdy_of[k] = 1;
  u32 parked = vp_ib_put_fresh(&B, &objs[k], &t, &rd);
  VP_ASSERT(t == tok_of[k] && rd == 1, "first ordered filter did not assign tokens in arrival order");
  if (!parked) run_item(t, &objs[k], rd);
#else
  tok_of[k] = vp_nd(); rdy_of[k] = vp_nd_bool();
  vp_ib_put2(&B, tok_of[k], rdy_of[k], &objs[k]);
#endif
}
static void finish(void) {
  leaves++;
  VP_ASSERT(nrun == N, "items lost: not every item was released to the filter");
  for (int i = 0; i < N; i++) VP_ASSERT(seen[i], "item lost in the token ring");
  VP_ASSERT(vp_ib_low(&B) == LOW0 + N && vp_ib_high(&B) == (MODE == 0 ? LOW0 : LOW0 + N), "token counters inconsistent at the end");
  u64 sz = vp_ib_size(&B);
  VP_ASSERT(sz >= 4 && sz <= 16 && (sz & (sz - 1)) == 0, "ring size");
  for (u64 s = 0; s < 16; s++) if (s < sz) VP_ASSERT(!vp_slot_valid(&B, s), "parked item left behind in the ring");
  VP_ASSERT(vp_ib_lockword(&B) == 0, "array_mutex still held");
  ring_check_current(vp_ib_array(&B), sz);
}
/* i arrivals so far. `running`, `arrived[]` are concrete on every path, so the only symbolic branches are the vp_nd_bool() ones */
static void go(int i) {
  if (running && (i == N || vp_nd_bool())) { running = 0; vp_ib_done(&B); go(i); return; }
  if (i == N) { finish(); return; }
#if MODE == 0 && defined(PERM)     /* concrete arrival order (scenario); completion times stay with the solver */
  static const int perm[N] = { PERM };
  arrive(perm[i], i); go(i + 1);
#elif MODE == 0
  int left = N - i;
  for (int k = 0; k < N; k++) {
    if (arrived[k]) continue;
#ifdef FIRST                       /* scenario split of a big tree: the first arrival is concrete */
    if (i == 0 && k != FIRST) continue;
    if (i == 0) { arrive(k, i); go(i + 1); return; }
#endif
    if (left == 1 || vp_nd_bool()) { arrive(k, i); go(i + 1); return; }
    left--;
  }
#else
  arrive(i, i); go(i + 1);
#endif
}
int main(void) {
  vp_ib_init(&B, MODE != 2, LOW0);
  next_expected = LOW0;
  go(0);
  VP_ASSERT(leaves == 1, "driver: exactly one schedule per run");
  VP_REACHED();
  return 0;
}

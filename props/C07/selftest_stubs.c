/* link-time stubs for the translator selftest (real C++ object and generated C use the same mangled names) */
#include <stdint.h>
#include <stdlib.h>
void vp_emit(uint64_t);
void* _ZN3tbb6detail2r122cache_aligned_allocateEm(uint64_t n) { return aligned_alloc(128, (n + 127) & ~127ull); }
void _ZN3tbb6detail2r124cache_aligned_deallocateEPv(void* p) { free(p); }
void vp_released(uint64_t token, void* obj, uint32_t ready) { vp_emit(1000000 + token * 2 + ready); }
uint32_t vpx_sched_yield(void) { return 0; }
void vp_caller_info(uint64_t t, void* o, uint32_t r, uint32_t v) { vp_emit(2000000 + t * 4 + r * 2 + v); }

// C13 sequential wrapper: one call of the real concurrent_priority_queue<int>::handle_operations on a batch of real
// cpq_operation objects, from a queue state built white-box (-fno-access-control). Nothing of oneTBB is re-implemented.
#include "oneapi/tbb/concurrent_priority_queue.h"
#include <new>
using namespace tbb;
typedef concurrent_priority_queue<int> cpq_t;
typedef cpq_t::cpq_operation op_t;
extern "C" void vp_emit(unsigned long v);

extern "C" {
unsigned long vp_q_sizeof() { return sizeof(cpq_t); }
unsigned long vp_op_sizeof() { return sizeof(op_t); }
void vp_q_init(cpq_t* q, unsigned long cap) { new (q) cpq_t(cap); }
// pre-state: element i of the data vector (appended with the vector's own push_back), then mark / my_size
void vp_q_append(cpq_t* q, int v) { q->data.push_back(v); }
void vp_q_set_mark(cpq_t* q, unsigned long m) { q->mark = m; q->my_size.store(q->data.size(), std::memory_order_relaxed); }
// batch: real operation objects (real constructor), linked through `next` exactly as aggregator::execute links them
void vp_op_init(op_t* op, int* elem, int kind /*1 PUSH_OP, 2 POP_OP, 3 PUSH_RVALUE_OP*/, op_t* next) {
  new (op) op_t(*elem, (cpq_t::operation_type)kind);
  op->next.store(next, std::memory_order_relaxed);
}
unsigned long vp_op_status(op_t* op) { return op->status.load(std::memory_order_relaxed); }
void vp_q_handle(cpq_t* q, op_t* list) { q->handle_operations(list); }
// the two heap kernels on their own (from any state satisfying their preconditions)
void vp_q_heapify(cpq_t* q) { q->heapify(); }
void vp_q_reheap(cpq_t* q) { q->reheap(); }
// public sequential API (used by the selftest and by the API-level scenario)
void vp_q_push(cpq_t* q, int v) { q->push(v); }
int vp_q_pop(cpq_t* q, int* v) { return q->try_pop(*v); }
// readers
unsigned long vp_q_mark(cpq_t* q) { return q->mark; }
unsigned long vp_q_mysize(cpq_t* q) { return q->my_size.load(std::memory_order_relaxed); }
unsigned long vp_q_dsize(cpq_t* q) { return q->data.size(); }
unsigned long vp_q_cap(cpq_t* q) { return q->data.capacity(); }
int vp_q_at(cpq_t* q, unsigned long i) { return q->data[i]; }

// translator validation: the same operation sequence through real C++ and through the generated C
void vp_selftest() {
  static unsigned char buf[sizeof(cpq_t)] __attribute__((aligned(128)));
  cpq_t* q = (cpq_t*)buf;
  vp_q_init(q, 2);                      // small capacity: reallocation happens
  unsigned x = 12345;
  for (int round = 0; round < 40; round++) {
    x = x * 1103515245u + 12345u;
    int v = (int)((x >> 16) % 7) - 3;
    if ((x >> 8) % 3 != 0) { q->push(v); vp_emit(1000 + (unsigned)(v + 3)); }
    else { int r = -99; bool ok = q->try_pop(r); vp_emit(ok ? 2000 + (unsigned)(r + 3) : 2999); }
    vp_emit(q->mark * 100 + q->data.size());
    for (unsigned long i = 0; i < q->data.size(); i++) vp_emit((unsigned)(q->data[i] + 3));
  }
  // one explicit batch: heap {5,3,4}, tail none; batch = pop, push 9, pop, push 1  (list order)
  cpq_t* p = new (buf) cpq_t(8);
  p->data.push_back(5); p->data.push_back(3); p->data.push_back(4); vp_q_set_mark(p, 3);
  int e0 = -1, e1 = 9, e2 = -1, e3 = 1;
  static unsigned char ob[4][sizeof(op_t)] __attribute__((aligned(8)));
  op_t* o3 = (op_t*)ob[3]; op_t* o2 = (op_t*)ob[2]; op_t* o1 = (op_t*)ob[1]; op_t* o0 = (op_t*)ob[0];
  vp_op_init(o3, &e3, 1, nullptr); vp_op_init(o2, &e2, 2, o3); vp_op_init(o1, &e1, 3, o2); vp_op_init(o0, &e0, 2, o1);
  p->handle_operations(o0);
  vp_emit((unsigned)e0); vp_emit((unsigned)e2); vp_emit(o0->status.load()); vp_emit(o1->status.load()); vp_emit(o2->status.load()); vp_emit(o3->status.load());
  vp_emit(p->mark * 100 + p->data.size());
  for (unsigned long i = 0; i < p->data.size(); i++) vp_emit((unsigned)p->data[i]);
}
}

/* C13 sequential lemmas on the real heap code of concurrent_priority_queue<int> (one step from an arbitrary valid state).
 * PART 1: handle_operations on a batch (list order B0 -> B1 -> B2; kinds concrete per scenario: 0 none, 1 PUSH_OP, 2 POP_OP,
 *         3 PUSH_RVALUE_OP; pushed priorities symbolic, full int range) from ANY state with NH heapified elements
 *         (heap invariant assumed, mark == size == my_size == NH: the state every batch starts from).
 *         Post: every status set; results explained by SOME sequential order of the batch (all operations of one batch
 *         are pairwise concurrent, so any order is a legal linearization); contents conserved; heap invariant,
 *         mark == size == my_size re-established.
 * PART 2: heapify() from any state: n <= NMAX elements, [0,mark) a heap, arbitrary tail.
 * PART 3: reheap() from any non-empty state (top already moved out; the last element is sifted down from the root).
 * -DEXC (unit compiled with exceptions, element type Elem whose COPY may throw): PART 1 with a fault position FAULT (concrete per query, 0 = none):
 *         the FAULT-th element copy of the batch throws. Post: no exception leaves handle_operations; exactly the push whose
 *         copy threw is FAILED and left no element behind; every other operation of the batch is unaffected (same oracles,
 *         with the failed push treated as absent). PART 4: the public push() end to end: a throwing copy reaches this caller
 *         as an exception and leaves the queue unchanged; a later push succeeds. PART 5 (-DCOPYONLY unit): copy-only element type.
 * Harness-side loops are macro-unrolled (REP8) so that --unwind only has to cover the loops of the real code. */
#include "w.h"
#include "vp.h"
#define CAP 8
#ifndef NMAX
#define NMAX 5
#endif
#define REP8(F) F(0) F(1) F(2) F(3) F(4) F(5) F(6) F(7)
#define REP8B(F) F(0) F(1) F(2) F(3) F(4) F(5) F(6) F(7)   /* for use inside a REP8 body */
#define REP4(F) F(0) F(1) F(2) F(3)
#define REP3(F) F(0) F(1) F(2)
typedef struct S_class_tbb__detail__d1__concurrent_priority_queue queue_t;
#ifdef EXC
typedef struct S_class_tbb__detail__d1__concurrent_priority_queue_Elem___cpq_operation op_t;
#define ELEMP(p) ((struct S_struct_Elem*)(p))
#else
typedef struct S_class_tbb__detail__d1__concurrent_priority_queue_int___cpq_operation op_t;
#define ELEMP(p) (p)
#endif

/* external boundaries */
static u32 pool[2][CAP] __attribute__((aligned(128)));
static int npool;
u8* _ZN3tbb6detail2r122cache_aligned_allocateEm(u64 n) {
  VP_ASSERT(npool < 2 && n <= sizeof(pool[0]), "harness bound: allocation pool exhausted");
  return (u8*)pool[npool++];
}
void _ZN3tbb6detail2r124cache_aligned_deallocateEPv(u8* p) { }
u64 _ZN3tbb6detail2r115cache_line_sizeEv(void) { return 128; }
#ifdef EXC
static u8 tok_user, tok_tbb;                 /* type tokens of the user's exception / of the exception thrown by r1::throw_exception */
static int ncopies, fault_at, n_tbb_throw;   /* fault_at: which copy throws (0 = none) */
void vp_may_throw_copy(u32 v) { ncopies++; if (ncopies == fault_at) vp_throw_user(&tok_user); }
/* r1::throw_exception(bad_alloc): contract = throws */
void _ZN3tbb6detail2r115throw_exceptionENS0_2d012exception_idE(u32 id) { n_tbb_throw++; vp_throw_user(&tok_tbb); }
#else
void _ZN3tbb6detail2r115throw_exceptionENS0_2d012exception_idE(u32 id) { VP_ASSERT(0, "throw_exception reached although nothing threw"); }
#endif
void _ZSt20__throw_length_errorPKc(u8* s) { VP_ASSERT(0, "std::length_error from the vector"); }

queue_t qobj;
#define Q (&qobj)
static int nd_int(void) { return (int)(u32)vp_nd(); }
static int fin[CAP]; static u64 nfin;          /* snapshot of the data vector */
static void snapshot(void) {
  nfin = vp_q_dsize(Q);
#define SN(i) if (i < nfin) fin[i] = (int)vp_q_at(Q, i);
  REP8(SN)
}
static int heap_ok(u64 m) {   /* snapshot[0,m) is a max-heap */
  int ok = 1;
#define HK(i) if (i >= 1 && i < m && fin[(i - 1) >> 1] < fin[i]) ok = 0;
  REP8(HK)
  return ok;
}
static int fin_count(int x) { int c = 0;
#define FC(i) if (i < nfin && fin[i] == x) c++;
  REP8(FC)
  return c; }

#if PART == 1
#define NB 3
static const int kind0[NB] = { B0, B1, B2 };   /* as submitted */
static int kind[NB] = { B0, B1, B2 };          /* as judged: a push whose copy threw counts as absent */
static op_t op0, op1, op2;           /* separate objects (not an array: see NOTES, cbmc field-sensitivity issue) */
static op_t* const ops[NB] = { &op0, &op1, &op2 };
static u32 elem[NB];
static int init[4], pushed[NB], got[NB], ok[NB];
#define ISPUSH(p) (kind[p] == 1 || kind[p] == 3)

/* number of copies of x in (initial + pushes in P - successful pops in P) */
static int cnt(unsigned P, int x) {
  int c = 0;
#define CI(i) if (i < NH && init[i] == x) c++;
  REP4(CI)
#define CP(p) if (P & (1u << p)) { if (ISPUSH(p) && pushed[p] == x) c++; if (kind[p] == 2 && ok[p] && got[p] == x) c--; }
  REP3(CP)
  return c;
}
static int total(unsigned P) {
  int c = NH;
#define TP(p) if (P & (1u << p)) { if (ISPUSH(p)) c++; if (kind[p] == 2 && ok[p]) c--; }
  REP3(TP)
  return c;
}
static int nothing_above(unsigned P, int v) {   /* no element greater than v in the contents after P */
  int r = 1;
#define NI(i) if (i < NH && init[i] > v && cnt(P, init[i]) > 0) r = 0;
  REP4(NI)
#define NP(p) if (ISPUSH(p) && pushed[p] > v && cnt(P, pushed[p]) > 0) r = 0;
  REP3(NP)
  return r;
}
static int can_be_last(unsigned P, unsigned o) {
  if (kind[o] != 2) return 1;          /* pushes and absent slots fit anywhere */
  if (!ok[o]) return total(P) == 0;
  return cnt(P, got[o]) > 0 && nothing_above(P, got[o]);
}
static int explained(void) {
  /* rS = the operations in bit set S can be put in an order that the sequential priority queue reproduces */
  int r1 = can_be_last(0, 0), r2 = can_be_last(0, 1), r4 = can_be_last(0, 2);
  int r3 = (r1 && can_be_last(1, 1)) || (r2 && can_be_last(2, 0));
  int r5 = (r1 && can_be_last(1, 2)) || (r4 && can_be_last(4, 0));
  int r6 = (r2 && can_be_last(2, 2)) || (r4 && can_be_last(4, 1));
  return (r3 && can_be_last(3, 2)) || (r5 && can_be_last(5, 1)) || (r6 && can_be_last(6, 0));
}
#endif

int main(void) {
  VP_ASSERT(vp_q_sizeof() == sizeof(qobj), "queue layout: generated struct and C++ disagree");
  vp_q_init(Q, CAP);
  VP_ASSERT(vp_q_cap(Q) >= CAP, "reserve did not provide the requested capacity");
#if PART == 1
  VP_ASSERT(vp_op_sizeof() == sizeof(op_t), "operation layout: generated struct and C++ disagree");
#define INI(i) if (i < NH) { init[i] = nd_int(); vp_q_append(Q, (u32)init[i]); }
  REP4(INI)
  vp_q_set_mark(Q, NH);
  snapshot();
  __CPROVER_assume(heap_ok(NH));
  /* the batch, linked B0 -> B1 -> B2 (kind 0 = absent; absent entries are at the end) */
  op_t* next = 0;
#define MK(p) if (kind[p] != 0) { if (kind[p] == 2) elem[p] = 0xdeadbeefu; else { pushed[p] = nd_int(); elem[p] = (u32)pushed[p]; } \
                                  vp_op_init(ops[p], ELEMP(&elem[p]), kind[p], next); next = ops[p]; }
  MK(2) MK(1) MK(0)
#ifdef EXC
  fault_at = FAULT;   /* concrete per query (0 = no fault), so that the witness proves the throwing path itself reaches the end */
#endif
  vp_q_handle(Q, next);
  int npush = 0, npop = 0;
#ifdef EXC
  VP_ASSERT(vp_exc == 0, "an exception left handle_operations (it would surface in the handler thread, not in the caller of the failing operation)");
  VP_ASSERT(ncopies == (B0 == 1) + (B1 == 1) + (B2 == 1), "harness: copy count differs from the number of PUSH_OP operations");
  { int seen = 0;   /* copies happen in list order: the FAULT-th PUSH_OP is the one that threw */
#define FK(p) if (kind0[p] == 1) { seen++; if (seen == fault_at) { \
      VP_ASSERT(vp_op_status(ops[p]) == 2, "push whose element copy threw is not reported FAILED to its caller"); kind[p] = 0; } }
    REP3(FK) }
#endif
#define ST(p) if (kind[p] != 0) { u64 st = vp_op_status(ops[p]); \
    VP_ASSERT(st == 1 || st == 2, "operation left without a status (its thread would spin forever)"); \
    if (kind[p] == 2) { ok[p] = (st == 1); got[p] = (int)elem[p]; if (ok[p]) npop++; else VP_ASSERT(elem[p] == 0xdeadbeefu, "failed pop wrote its result"); } \
    else { VP_ASSERT(st == 1, "push reported FAILED although nothing threw"); npush++; } }
  REP3(ST)
  snapshot();
  u64 n = nfin;
  VP_ASSERT(n == (u64)(NH + npush - npop), "size after the batch differs from pushed - popped");
  VP_ASSERT(vp_q_mark(Q) == n, "mark != size after the batch (tail not heapified)");
  VP_ASSERT(vp_q_mysize(Q) == n, "my_size out of sync with the data vector");
  VP_ASSERT(heap_ok(n), "heap invariant broken after the batch");
  VP_ASSERT(explained(), "batch results not explained by any sequential order (non-maximal pop, unjustified empty, value never pushed)");
  /* conservation: every candidate value occurs in the final contents as often as in initial + pushed - popped */
#define CVI(i) if (i < NH) VP_ASSERT(fin_count(init[i]) == cnt(7, init[i]), "contents not conserved (element lost or duplicated)");
  REP4(CVI)
#define CVP(p) if (ISPUSH(p)) VP_ASSERT(fin_count(pushed[p]) == cnt(7, pushed[p]), "contents not conserved (element lost or duplicated)");
  REP3(CVP)
#elif PART == 4 && defined(EXC)
  /* public push() end to end, sequentially: 1st push with a copy that may throw, 2nd push without fault */
  fault_at = FAULT;
  int a = nd_int(), b = nd_int();
  u32 threw = vp_q_push_catch(Q, (u32)a);
  VP_ASSERT(vp_exc == 0, "exception pending after the catching caller");
  VP_ASSERT(threw == (u32)(fault_at == 1), "push(): the exception must reach exactly the caller whose element copy threw");
  VP_ASSERT(n_tbb_throw == (fault_at == 1), "push() raises through r1::throw_exception exactly when its operation came back FAILED");
  snapshot();
  VP_ASSERT(nfin == (u64)(fault_at == 1 ? 0 : 1) && vp_q_mark(Q) == nfin && vp_q_mysize(Q) == nfin, "failed push left the queue changed / successful push not stored");
  u32 threw2 = vp_q_push_catch(Q, (u32)b);
  VP_ASSERT(!threw2 && vp_exc == 0, "push after a failed push must succeed (handler released, aggregator usable)");
  snapshot();
  VP_ASSERT(nfin == (u64)(fault_at == 1 ? 1 : 2) && vp_q_mark(Q) == nfin && vp_q_mysize(Q) == nfin && heap_ok(nfin), "queue state wrong after the second push");
#elif PART == 5 && defined(EXC)
  /* copy-only element type: every std::move in the queue is a copy CONSTRUCTION or a (non-throwing) copy assignment.
     One element is pushed without fault; during the second public push() the FAULT-th copy construction throws
     (1 = vector::push_back inside the try block, 2 = `to_place` in heapify(), which runs outside it). */
  fault_at = 0;
  int a = nd_int(), b = nd_int();
  u32 t1 = vp_q_push_catch(Q, (u32)a);
  VP_ASSERT(!t1 && vp_exc == 0 && vp_q_dsize(Q) == 1, "first push (no fault) failed");
  ncopies = 0; fault_at = FAULT;
  u32 threw = vp_q_push_catch(Q, (u32)b);
  VP_ASSERT(vp_exc == 0, "exception pending after the catching caller");
  VP_ASSERT(ncopies >= FAULT, "harness: fault position not reached (vacuous)");
  snapshot();
  VP_ASSERT(vp_q_busy(Q) == 0 && vp_q_pending(Q) == 0, "aggregator left busy after an exception: every later operation on the queue spins forever");
  VP_ASSERT(!threw || nfin == 1, "push() threw although its element was inserted");
  VP_ASSERT(threw || nfin == 2, "push() returned normally but its element is missing");
  VP_ASSERT(vp_q_mark(Q) == nfin && vp_q_mysize(Q) == nfin && heap_ok(nfin), "queue state inconsistent after the throwing push (mark / my_size / heap)");
#elif PART == 2 || PART == 3
  static int v0[CAP];
#ifdef NN   /* element count and mark concrete per query (loop control of the kernels becomes concrete), values symbolic */
  u64 n = NN, m = MM;
#else
  u64 n = vp_nd_range(PART == 3 ? 1 : 0, NMAX), m = vp_nd_range(0, NMAX);
  __CPROVER_assume(m <= n);
#endif
#define AP(i) if (i < n) { v0[i] = nd_int(); vp_q_append(Q, (u32)v0[i]); }
  REP8(AP)
  vp_q_set_mark(Q, m);
  snapshot();
  __CPROVER_assume(heap_ok(m));
#if PART == 2
  vp_q_heapify(Q);
  snapshot();
  VP_ASSERT(nfin == n, "heapify changed the number of elements");
  VP_ASSERT(vp_q_mark(Q) == n, "heapify left unheapified elements (mark != size)");
  VP_ASSERT(heap_ok(n), "heapify: result is not a heap");
#define H0(k) if (k < n && v0[k] == x) a++;
#define HC(i) if (i < n) { int a = 0, x = v0[i]; REP8B(H0) VP_ASSERT(a == fin_count(x), "heapify lost or duplicated an element"); }
  REP8(HC)
#else
  /* precondition: the queue is not empty; data[0] has been moved out (its value is dead). The call site additionally has
     NOT (mark < size && data[0] < data.back()), which reheap itself does not need: not assumed here. */
  vp_q_reheap(Q);
  snapshot();
  u64 n1 = n - 1, m1 = m < n1 ? m : n1;
  VP_ASSERT(nfin == n1, "reheap must remove exactly one element");
  VP_ASSERT(vp_q_mark(Q) == m1, "reheap: mark wrong (must stay, or shrink with the vector)");
  VP_ASSERT(heap_ok(m1), "reheap: heap part is not a heap");
  /* contents = old contents minus the old top */
#define R0(k) if (k >= 1 && k < n && v0[k] == x) a++;
#define RC(i) if (i >= 1 && i < n) { int a = 0, x = v0[i]; REP8B(R0) VP_ASSERT(a == fin_count(x), "reheap lost or duplicated an element"); }
  REP8(RC)
  /* the unheapified tail keeps its elements in place except the last one, which went into the heap (slot 0 is the dead top) */
#define RT(i) if (i >= 1 && i >= m && i < n1) VP_ASSERT(fin[i] == v0[i], "reheap disturbed the unheapified tail");
  REP8(RT)
#endif
#endif
  VP_REACHED();
  return 0;
}

// C13 wrapper for the combining protocol alone: the real tbb::detail::d1::aggregator (detail/_aggregator.h: execute,
// start_handle_operations, pending_operations CAS list, handler_busy flag, status spin-wait) driven by a minimal CLIENT.
// The client handler does what the aggregator's documented contract asks of a handler ("will be passed the list of
// operations and is expected to handle each operation appropriately, setting the status of each operation to non-zero")
// and reports to the harness through observers. It is a user of the aggregator, not a model of it.
#include "oneapi/tbb/detail/_aggregator.h"
#include <new>
using namespace tbb::detail::d1;

extern "C" void vp_batch_begin();            // observers (harness): a handler invocation starts / ends
extern "C" void vp_batch_end();
extern "C" void vp_handle(int id);           // the handler processes operation `id`
extern "C" void vp_returned(int id, int result);   // execute() returned to the caller of operation `id`

struct vop : aggregated_operation<vop> { int id; int result; };
struct client_handler {
  void operator()(vop* list) {
    vp_batch_begin();
    while (list) {
      vop* t = list;
      list = list->next.load(std::memory_order_relaxed);     // read next BEFORE releasing the operation (as every real client does)
      vp_handle(t->id);
      t->result = t->id + 100;
      t->status.store(1, std::memory_order_release);         // after this store `t` may be destroyed by its owner
    }
    vp_batch_end();
  }
};
typedef aggregator<client_handler, vop> agg_t;

static inline __attribute__((always_inline)) void one(agg_t* a, int id) {
  vop op; op.id = id; op.result = 0;
  a->execute(&op);
  vp_returned(id, op.result);
}
// thread bodies: NOPS operations in program order, ids tid*2, tid*2+1
extern "C" void vp_thr_agg1(agg_t* a, int tid) { one(a, 2 * tid); }
extern "C" void vp_thr_agg2(agg_t* a, int tid) { one(a, 2 * tid); one(a, 2 * tid + 1); }

extern "C" {
unsigned long vp_agg_sizeof() { return sizeof(agg_t); }
void vp_agg_init(agg_t* a) { new (a) agg_t(); a->initialize_handler(client_handler()); }
unsigned long vp_agg_pending(agg_t* a) { return (unsigned long)a->pending_operations.load(std::memory_order_relaxed); }
unsigned long vp_agg_busy(agg_t* a) { return a->handler_busy.load(std::memory_order_relaxed); }
}

/* C13: concurrent_priority_queue<int> is a linearizable priority queue; no operation is lost in the aggregator.
 * NT model threads (2|3) run the real push / try_pop (aggregator::execute, start_handle_operations, handle_operations,
 * reheap, heapify, std::vector push_back/pop_back) on one queue that holds N0 elements pushed sequentially before.
 * Scenario (concrete): Kt = operation of thread t (0 push, 1 try_pop) [NOPS==2: Kt / Lt = first / second operation], N0.
 * Symbolic: every pushed priority (domain 0..2, duplicates allowed), the schedule.
 * -DSKEL / -DCONC / -DWANT_ORDER / -DWANT_POP: hand-over scenarios (result written before status published), see main().
 * Oracles: (1) blocked-state oracle: no thread spins forever on its op status / handler_busy (lost operation);
 *          (2) linearizability of the recorded invocation/response history against a sequential max-priority-queue;
 *          (3) final state: multiset = initial + pushed - popped, heap invariant, mark == size == my_size, aggregator idle. */
#include "w.h"
#include "vp.h"
#ifndef NOPS
#define NOPS 1
#endif
#ifndef DOM
#define DOM 3
#endif
#define NH (NT * NOPS)             /* history slots */
#define CAP 8

/* ---- external boundaries */
/* r1::cache_aligned_allocate/deallocate: contract = fresh, suitably aligned storage of the requested size. Served from typed
   static pools (int-typed so that the solver sees element accesses, not byte surgery); never reused after deallocate. */
#define NPOOL 1
#define POOLN CAP
static u32 pool[NPOOL][POOLN] __attribute__((aligned(128)));
static int npool;
u8* _ZN3tbb6detail2r122cache_aligned_allocateEm(u64 n) {
  VP_ASSERT(npool < NPOOL && n <= sizeof(pool[0]), "harness bound: allocation pool exhausted");
  return (u8*)pool[npool++];
}
void _ZN3tbb6detail2r124cache_aligned_deallocateEPv(u8* p) { }
/* r1::throw_exception: push() calls it when the handler reported FAILED; exceptions are compiled out, so nothing can fail */
void _ZN3tbb6detail2r115throw_exceptionENS0_2d012exception_idE(u32 id) { VP_ASSERT(0, "push reported FAILED (throw_exception) although nothing threw"); }
u64 _ZN3tbb6detail2r115cache_line_sizeEv(void) { return 128; }
void _ZSt20__throw_length_errorPKc(u8* s) { VP_ASSERT(0, "std::length_error from the vector"); }

struct S_class_tbb__detail__d1__concurrent_priority_queue qobj;   /* the queue object (constructed by the real constructor) */
#define Q (&qobj)

/* ---- history */
static int h_kind[NH], h_val[NH], h_ok[NH], h_inv[NH], h_res[NH], h_done[NH];
static int clk;
void vp_inv(u32 tid, u32 slot, u32 kind, u32 val) { h_kind[slot] = (int)kind; if (kind == 0) h_val[slot] = (int)val; h_inv[slot] = ++clk; h_res[slot] = 1 << 20; }
void vp_res(u32 tid, u32 slot, u32 ok, u32 val) {
  h_ok[slot] = (int)ok; if (h_kind[slot] == 1) h_val[slot] = (int)val; h_res[slot] = ++clk; h_done[slot] = 1;
  /* checked at once (not only when every thread has returned): the caller's output variable was preset to -1, which is never in
     the queue; `val` is what the caller read from it immediately after try_pop returned */
  if (h_kind[slot] == 1 && ok) VP_ASSERT((int)val >= 0 && (int)val < DOM, "try_pop returned true with its output not written yet / a value that was never pushed");
}

static int init_cnt[DOM];

/* exists a linearization: reach[S] = the operations in S can be ordered consistently with real time and the sequential
   specification. The multiset after S does not depend on the order (results are fixed by the history). */
static int linearizable(void) {
  static int reach[1 << NH];
  reach[0] = 1;
  for (unsigned S = 1; S < (1u << NH); S++) {
    int r = 0;
    for (unsigned o = 0; o < NH; o++) {
      if (!(S & (1u << o))) continue;
      unsigned P = S & ~(1u << o);
      if (!reach[P]) continue;
      /* real-time order: everything that responded before o was invoked is already in P */
      int ord = 1;
      for (unsigned p = 0; p < NH; p++) if (!(S & (1u << p)) && h_res[p] < h_inv[o]) ord = 0;
      if (!ord) continue;
      /* contents after P */
      int cnt[DOM]; int tot = 0, neg = 0;
      for (int v = 0; v < DOM; v++) cnt[v] = init_cnt[v];
      for (unsigned p = 0; p < NH; p++) if (P & (1u << p)) {
        if (h_kind[p] == 0) cnt[h_val[p]]++;
        else if (h_kind[p] == 1 && h_ok[p]) cnt[h_val[p]]--;
      }
      for (int v = 0; v < DOM; v++) { tot += cnt[v]; if (cnt[v] < 0) neg = 1; }
      if (neg) continue;
      int ok;
      if (h_kind[o] == 0 || h_kind[o] == 2) ok = 1;
      else if (!h_ok[o]) ok = (tot == 0);
      else {
        int v = h_val[o]; ok = (cnt[v] > 0);
        for (int w = 0; w < DOM; w++) if (w > v && cnt[w] > 0) ok = 0;
      }
      if (ok) r = 1;
    }
    reach[S] = r;
  }
  return reach[(1u << NH) - 1];
}

#if NOPS == 1
#define THR(s) vp_thr_one_##s
#else
#define THR(s) vp_thr_two_##s
#endif
static int nd_val(void) { return (int)vp_nd_range(0, DOM - 1); }
/* -DCONC: priorities concrete per query (IV0, IV1: initial elements; PV0..PV2: value pushed by thread a..c) */
#ifdef CONC
#ifndef IV1
#define IV1 0
#endif
#ifndef PV0
#define PV0 0
#endif
#ifndef PV1
#define PV1 0
#endif
#ifndef PV2
#define PV2 0
#endif
static const int init_v[2] = { IV0, IV1 };
#define INITV(i) init_v[i]
#define PUSHV(t) (PV##t)
#else
#define INITV(i) nd_val()
#define PUSHV(t) nd_val()
#endif
static u64 pend_seen[3];           /* SKEL: pending_operations word after each thread's first slice (enqueue order evidence) */

int main(void) {
  VP_ASSERT(vp_q_sizeof() <= sizeof(qobj), "harness: queue object larger than its buffer");
  for (int i = 0; i < NH; i++) { h_kind[i] = 2; h_res[i] = 1 << 20; }   /* 2 = no operation in this slot */
  vp_q_init(Q, CAP);
  VP_ASSERT(vp_q_cap(Q) >= CAP, "reserve did not provide the requested capacity");
  for (int i = 0; i < N0; i++) { int v = INITV(i); init_cnt[v]++; vp_q_push(Q, v); }
  VP_ASSERT(vp_q_dsize(Q) == N0 && vp_q_mark(Q) == N0 && vp_q_mysize(Q) == N0, "pre-state: sequential pushes not all stored/heapified");
#if NOPS == 1
  THR(a_start)(Q, 0, K0, PUSHV(0)); THR(b_start)(Q, 1, K1, PUSHV(1));
#if NT == 3
  THR(c_start)(Q, 2, K2, PUSHV(2));
#endif
#else
  THR(a_start)(Q, 0, K0, nd_val(), L0, nd_val()); THR(b_start)(Q, 1, K1, nd_val(), L1, nd_val());
#if NT == 3
  THR(c_start)(Q, 2, K2, nd_val(), L2, nd_val());
#endif
#endif
#ifdef SKEL
  /* schedule skeleton "greedy waiters": in each of ROUNDS rounds thread a stops at a solver-chosen point, then every other thread
     runs as far as it can (to its return or to a spin wait); a last forced round for everybody. Quantifies over every preemption
     point of a (ROUNDS of them) with the others reacting at once: the shape of "the waiter is scheduled right after store X". */
  for (int r = 0; r < ROUNDS; r++) {
    vp_cur = 0; VP_RUN(THR(a)) if (r == 0) pend_seen[0] = vp_q_pending(Q);
    vp_cur = 1; VP_RUNMAX(THR(b)) if (r == 0) pend_seen[1] = vp_q_pending(Q);
#if NT == 3
    vp_cur = 2; VP_RUNMAX(THR(c)) if (r == 0) pend_seen[2] = vp_q_pending(Q);
#endif
#ifdef WANT_ORDER   /* scenario: all operations were enqueued in the order a, b(, c) before a (the oldest = the handler) took the list:
                       one batch, handled by a, processed newest first; b (and c) are waiters */
    if (r == 0) {
      __CPROVER_assume(pend_seen[0] != 0 && pend_seen[1] != 0 && pend_seen[1] != pend_seen[0]);
#if NT == 3
      __CPROVER_assume(pend_seen[2] != 0 && pend_seen[2] != pend_seen[1]);
#endif
      __CPROVER_assume(vp_q_busy(Q) == 0);          /* a has not started handling yet */
    }
#endif
  }
#else
  for (int r = 0; r < ROUNDS; r++) {
    VP_RUN(THR(a)) VP_RUN(THR(b))
#if NT == 3
    VP_RUN(THR(c))
#endif
  }
#endif
#ifdef NOQUIESCE   /* safety-only variant: ROUNDS free slices per thread [+ one forced slice each with -DFORCED1], all threads must have returned */
#ifdef FORCED1
  vp_cur = 0; VP_RUNMAX(THR(a)) vp_cur = 1; VP_RUNMAX(THR(b))
#if NT == 3
  vp_cur = 2; VP_RUNMAX(THR(c))
#endif
#endif
#if NT == 3
  __CPROVER_assume(THR(a_fin) && THR(b_fin) && THR(c_fin));
#else
  __CPROVER_assume(THR(a_fin) && THR(b_fin));
#endif
#else
#if NT == 3
  VP_QUIESCE3(THR(a), THR(b), THR(c))
#else
  VP_QUIESCE2(THR(a), THR(b))
#endif
  VP_ASSERT(!vp_deadlock, "lost operation: a thread spins forever on its operation status / the handler flag");
  __CPROVER_assume(!vp_unfinished);
#endif
  for (int i = 0; i < NH; i++) VP_ASSERT(h_done[i] || h_kind[i] == 2, "harness: finished thread without a recorded response");
  /* (1b) every successful pop returned a priority of the domain (anything else was never pushed) */
  int vals_ok = 1;
  for (int i = 0; i < NH; i++) if (h_kind[i] == 1 && h_ok[i] && (h_val[i] < 0 || h_val[i] >= DOM)) vals_ok = 0;
  VP_ASSERT(vals_ok, "pop returned a value that was never pushed");
  if (vals_ok) {
  /* (2) linearizability */
  VP_ASSERT(linearizable(), "history not linearizable as a priority queue (lost/duplicated element, non-maximal pop, or unjustified empty)");
  /* (3) final state */
  {
    int cnt[DOM]; int tot = 0;
    for (int v = 0; v < DOM; v++) cnt[v] = init_cnt[v];
    for (int i = 0; i < NH; i++) { if (h_kind[i] == 0) cnt[h_val[i]]++; else if (h_kind[i] == 1 && h_ok[i]) cnt[h_val[i]]--; }
    for (int v = 0; v < DOM; v++) { VP_ASSERT(cnt[v] >= 0, "more elements of a priority popped than pushed"); tot += cnt[v]; }
    u64 n = vp_q_dsize(Q);
    VP_ASSERT(n == (u64)tot, "final size differs from pushed - popped (lost or duplicated element)");
    VP_ASSERT(vp_q_mysize(Q) == n, "my_size out of sync with the data vector");
    VP_ASSERT(vp_q_mark(Q) == n, "mark != size after the last batch (tail not heapified)");
    for (u64 i = 0; i < CAP; i++) if (i < n) {
      int x = vp_q_at(Q, i);
      VP_ASSERT(x >= 0 && x < DOM, "final contents: foreign value");
      cnt[x]--;
      if (i > 0) VP_ASSERT(vp_q_at(Q, (i - 1) >> 1) >= x, "final contents violate the heap invariant");
    }
    for (int v = 0; v < DOM; v++) VP_ASSERT(cnt[v] == 0, "final contents are not initial + pushed - popped");
    VP_ASSERT(vp_q_pending(Q) == 0 && vp_q_busy(Q) == 0, "aggregator not idle after all operations returned");
  }
  }
#ifdef WANT_POP   /* witness condition of the scenario: thread WANT_POP's pop returned WANT_VAL (see spec: which code path that implies) */
  __CPROVER_assume(h_ok[WANT_POP] && h_val[WANT_POP] == WANT_VAL);
#endif
  VP_REACHED();
  return 0;
}

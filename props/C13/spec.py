PROPERTY = 'C13'
import itertools
def thr(fn, n): return {fn: ['a', 'b', 'c'][:n]}
PQ = '_ZN3tbb6detail2d125concurrent_priority_queueIiSt4lessIiENS1_23cache_aligned_allocatorIiEEE'
# thread-mode units. ptratomics: atomic<T*> accesses keep their pointer type (cheaper, and avoids a cbmc mis-read, see NOTES);
# fallthrough: cut back edges continue along the loop exit with the slice disabled (fewer state merges).
# std::vector reallocation (_M_realloc_insert) is cut out of the threads: the queue is constructed with enough capacity.
LCS = dict(mode='lcs', ptratomics=True, fallthrough=True)
UNITS = {
  # full real code: push / try_pop -> aggregator -> handle_operations (reheap, heapify, vector push_back/pop_back inlined)
  'one2':   dict(LCS, wrapper='w_cpq.cpp', unroll=1, threads=thr('vp_thr_one', 2), cut=['_M_realloc_insert']),
  'one2k2': dict(LCS, wrapper='w_cpq.cpp', unroll=2, threads=thr('vp_thr_one', 2), cut=['_M_realloc_insert']),
  'one3':   dict(LCS, wrapper='w_cpq.cpp', unroll=1, threads=thr('vp_thr_one', 3), cut=['_M_realloc_insert']),
  # the combining protocol alone (real aggregator, minimal client handler)
  'agg2':   dict(LCS, wrapper='w_agg.cpp', unroll=2, threads=thr('vp_thr_agg2', 2)),
  'agg3':   dict(LCS, wrapper='w_agg.cpp', unroll=2, threads=thr('vp_thr_agg1', 3)),
  'agg3x2': dict(LCS, wrapper='w_agg.cpp', unroll=2, threads=thr('vp_thr_agg2', 3)),
  # sequential: one batch / one heap kernel from an arbitrary valid state
  'exc':    dict(wrapper='w_exc.cpp', mode='seq', exceptions=True, ptratomics=True, prune=True),
  'excco':  dict(wrapper='w_exc.cpp', mode='seq', exceptions=True, ptratomics=True, prune=True, cxxflags=['-DCOPYONLY']),
  'batch':  dict(wrapper='w_batch.cpp', mode='seq', selftest=True, ptratomics=True),
}
def batches(kinds, maxlen):
    out = []
    for n in range(1, maxlen + 1):
        for c in itertools.product(kinds, repeat=n):
            c = list(c) + [0] * (3 - n)
            out.append({'B0': c[0], 'B1': c[1], 'B2': c[2]})
    return out
def with_nh(scs, nhs): return [dict(s, NH=nh) for s in scs for nh in nhs]
SEQ_CBMC = ['--unwind', '6', '--object-bits', '10']
NATF = ['-fno-sanitize=null,pointer-overflow']   # replay build: stale static temps make &p->f of a null p on disabled paths (never accessed)
LCS_CBMC = ['--unwind', '10', '--object-bits', '10']
HARNESSES = [
  dict(name='batch_step', unit='batch', harness='h_batch.c', defines={'PART': 1}, cbmc=SEQ_CBMC, timeout=600,
       scenarios_quick=with_nh(batches([1, 2], 3), [3]) + with_nh(batches([1, 2], 2), [0, 1]),
       scenarios_thorough=with_nh(batches([1, 2], 3), [0, 1, 2, 3, 4]) + with_nh([b for b in batches([1, 2, 3], 3) if 3 in b.values()], [2]),
       desc='handle_operations on one batch of <=3 real cpq_operation objects (kinds concrete per query, priorities symbolic over all int) from any heapified state of NH elements: statuses set, results explained by some sequential order, contents conserved, heap invariant and mark==size==my_size re-established',
       bounds={'batch': '<=3 operations, every push/pop pattern', 'heap elements before the batch': 'quick 0,1,3 / thorough 0..4', 'priorities': 'all int values'}),
  dict(name='batch_throw', unit='exc', harness='h_batch.c', defines={'EXC': None}, cbmc=SEQ_CBMC, timeout=600,
       scenarios_quick=[dict(PART=1, NH=2, B0=1, B1=2, B2=1, FAULT=f) for f in (0, 1, 2)] + [dict(PART=1, NH=0, B0=2, B1=1, B2=0, FAULT=1), dict(PART=1, NH=1, B0=1, B1=0, B2=0, FAULT=1)] +
                       [dict(PART=4, FAULT=f) for f in (0, 1)],
       scenarios_thorough=[dict(PART=1, NH=nh, FAULT=f, **b) for nh in (0, 2, 3) for b in batches([1, 2, 3], 3) if 1 in b.values()
                           for f in range(1, list(b.values()).count(1) + 1)] + [dict(PART=4, FAULT=f) for f in (0, 1)],
       desc='element type whose copy may throw (unit compiled with exceptions, exception lowering of the translator): the FAULT-th element copy of a batch throws: nothing escapes handle_operations, exactly that push is FAILED and leaves no element, the other operations of the batch keep all batch_step guarantees; PART 4: public push() end to end: the exception reaches exactly that caller (via r1::throw_exception), queue unchanged, next push succeeds',
       bounds={'batch': '<=3 operations', 'fault position': 'every copy of the batch (concrete per query)', 'throwing operation': 'element COPY in push(const T&); moves are noexcept'}),
  dict(name='copyonly_throw', unit='excco', harness='h_batch.c', defines={'EXC': None, 'PART': 5}, cbmc=SEQ_CBMC, timeout=600,
       scenarios=[{'FAULT': 1}],
       desc='copy-only element type (copy construction may throw, no move members): second public push() with the FAULT-th copy construction throwing: 1 = vector::push_back (inside the try block of handle_operations), 2 = the `to_place` copy in heapify() (outside it). Oracle: the exception reaches the caller only if its element was not inserted, and the aggregator is left idle (handler_busy == 0)',
       bounds={'elements': '1 before the push', 'fault position': '1..2 (all copy constructions of that push)'}),
  dict(name='copyonly_throw_heapify', unit='excco', harness='h_batch.c', defines={'EXC': None, 'PART': 5}, cbmc=SEQ_CBMC, timeout=600,
       scenarios=[{'FAULT': 2}],
       desc='copy-only element type (copy construction may throw, no move members): second public push() with the FAULT-th copy construction throwing: 1 = vector::push_back (inside the try block of handle_operations), 2 = the `to_place` copy in heapify() (outside it). Oracle: the exception reaches the caller only if its element was not inserted, and the aggregator is left idle (handler_busy == 0)',
       bounds={'elements': '1 before the push', 'fault position': '1..2 (all copy constructions of that push)'}),
  dict(name='heap_kernels', unit='batch', harness='h_batch.c', cbmc=['--unwind', '9', '--object-bits', '10'], timeout=900,
       scenarios_quick=[{'PART': 2, 'NN': n, 'MM': n - 1} for n in range(1, 8)] + [{'PART': 2, 'NN': 4, 'MM': 0}, {'PART': 2, 'NN': 5, 'MM': 2}] +
                       [{'PART': 3, 'NN': n, 'MM': m} for n in (1, 2, 4, 7) for m in sorted(set([0, n // 2, n]))],
       scenarios_thorough=[{'PART': 2, 'NN': n, 'MM': m} for n in range(1, 8) for m in range(0, n) if n <= 6 or m >= 4] +
                          [{'PART': 3, 'NN': n, 'MM': m} for n in range(1, 8) for m in range(0, n + 1)],
       desc='heapify() / reheap() from any state with NN elements (all int values), mark MM (both concrete per query), [0,mark) a heap, arbitrary tail: result is a heap, mark correct, contents conserved, tail untouched. MM = NN-1 is the inductive step of heapify (one sift-up)',
       bounds={'elements': '<=7', 'mark': 'quick: selected (incl. every one-element sift-up up to 7 elements); thorough: every 0..n', 'priorities': 'all int values'}),
  dict(name='agg_2t', unit='agg2', harness='h_agg.c', defines={'NT': 2, 'NOPS': 2, 'ROUNDS': 2}, scenarios=[{}], timeout=900, cbmc=LCS_CBMC, native_cflags=NATF,
       thorough_override={'defines': {'NT': 2, 'NOPS': 2, 'ROUNDS': 3}, 'timeout': 2400},
       desc='real aggregator::execute/start_handle_operations, 2 threads x 2 operations, client handler: handler invocations exclusive, every operation handled exactly once before its execute() returns, result visible, no lost operation (blocked-state oracle), aggregator idle at the end',
       bounds={'threads': 2, 'ops_per_thread': 2, 'free_rounds': '2 quick / 3 thorough', 'forced_rounds': 2, 'loop_unroll': 2}),
  dict(name='agg_3t', unit='agg3', harness='h_agg.c', defines={'NT': 3, 'NOPS': 1, 'ROUNDS': 2}, scenarios=[{}], timeout=900, cbmc=LCS_CBMC, native_cflags=NATF,
       thorough_override={'defines': {'NT': 3, 'NOPS': 1, 'ROUNDS': 3}, 'timeout': 2400},
       desc='same, 3 threads x 1 operation (a waiting next handler plus a waiter behind it)',
       bounds={'threads': 3, 'ops_per_thread': 1, 'free_rounds': '2 quick / 3 thorough', 'forced_rounds': 2, 'loop_unroll': 2}),
  dict(name='agg_3t2', unit='agg3x2', harness='h_agg.c', defines={'NT': 3, 'NOPS': 2, 'ROUNDS': 2}, scenarios=[{}], timeout=3000, cbmc=LCS_CBMC, native_cflags=NATF, tiers=['thorough'],
       desc='same, 3 threads x 2 operations', bounds={'threads': 3, 'ops_per_thread': 2, 'free_rounds': 2, 'forced_rounds': 2, 'loop_unroll': 2}),
  dict(name='lin_2t', unit='one2', harness='h_cpq.c', defines={'NT': 2, 'ROUNDS': 1}, timeout=900, cbmc=LCS_CBMC, native_cflags=NATF,
       scenarios=[{'K0': 0, 'K1': 1, 'N0': 1}, {'K0': 1, 'K1': 0, 'N0': 2}, {'K0': 1, 'K1': 1, 'N0': 1}, {'K0': 0, 'K1': 0, 'N0': 0}],
       desc='full real code, 2 threads x 1 operation (K: 0 push(p), 1 try_pop) on a queue holding N0 elements; priorities symbolic in {0,1,2}; oracles: no lost operation (blocked-state), history linearizable as a priority queue, final contents = initial + pushed - popped, heap invariant, mark==size==my_size, aggregator idle',
       bounds={'threads': 2, 'ops_per_thread': 1, 'free_rounds': 1, 'forced_rounds': 2, 'loop_unroll': 1, 'priorities': '3 values', 'initial elements': '0..2'}),
  # hand-over of a pop result to a WAITING popper (result written, then status published). Schedule skeleton "greedy waiters":
  # thread a (the handler: its operation is enqueued first) is preempted at ROUNDS solver-chosen points, after each of which every
  # other thread runs as far as it can; enqueue order a,b(,c) assumed (one batch, handled by a, newest first). Priorities concrete.
  # The witness additionally requires the pop to return WANT_VAL, which under that batch order pins the code path (see desc).
  dict(name='handover_2t', unit='one2', harness='h_cpq.c', timeout=900, cbmc=LCS_CBMC, native_cflags=NATF,
       defines={'NT': 2, 'SKEL': None, 'NOQUIESCE': None, 'FORCED1': None, 'CONC': None, 'DOM': 4, 'WANT_ORDER': None, 'ROUNDS': 3, 'K0': 0, 'K1': 1, 'WANT_POP': 1},
       scenarios=[dict(N0=1, IV0=1, PV0=3, WANT_VAL=3), dict(N0=2, IV0=2, IV1=1, PV0=3, WANT_VAL=3), dict(N0=1, IV0=2, PV0=1, WANT_VAL=2)],
       desc='batch {pop by waiter b (newer), push by handler a}: the pop is postponed to the second pass; pushed > top: served from the back element (second-pass shortcut, WANT_VAL = pushed value); pushed < top: served from the top + reheap (WANT_VAL = old top). Oracles as lin_2t plus: try_pop must not return true before its output is written (output preset to -1, read by the caller right after the call, checked at once)',
       bounds={'threads': 2, 'schedule': 'handler preempted at 3 free points, waiter greedy, + 1 forced round', 'loop_unroll': 1, 'priorities': 'concrete: {1}+push 3, {2,1}+push 3, {2}+push 1'}),
  dict(name='handover_3t', unit='one3', harness='h_cpq.c', timeout=900, cbmc=LCS_CBMC, native_cflags=NATF,
       defines={'NT': 3, 'SKEL': None, 'NOQUIESCE': None, 'FORCED1': None, 'CONC': None, 'DOM': 4, 'WANT_ORDER': None, 'ROUNDS': 3, 'K1': 1, 'K2': 0, 'WANT_POP': 1, 'WANT_VAL': 3, 'PV2': 3},
       scenarios=[dict(K0=0, PV0=2, N0=1, IV0=1), dict(K0=0, PV0=1, N0=2, IV0=2, IV1=1), dict(K0=1, N0=1, IV0=1)],
       desc='batch {push 3 by c (newest), pop by waiter b, operation of handler a (oldest)}: the pop is met in the FIRST pass right after the higher push and is served from the just-pushed back element (first-pass shortcut) although the popper is not the handler; same oracles. (With two threads this path cannot have a waiting popper: the list is processed newest first and the handler owns the oldest operation.)',
       bounds={'threads': 3, 'schedule': 'handler preempted at 3 free points, both waiters greedy, + 1 forced round', 'loop_unroll': 1, 'priorities': 'concrete: {1} | {2,1}, push 3, handler pushes 2 | pops'}),
  dict(name='lin_2t_deep', unit='one2k2', harness='h_cpq.c', timeout=3600, cbmc=LCS_CBMC, native_cflags=NATF, tiers=['thorough'], mem_gb=16,
       scenarios=[dict(K0=a, K1=b, N0=n, ROUNDS=r, **q) for (a, b) in [(0, 1), (1, 0), (1, 1), (0, 0)] for n in (0, 1, 2) for (r, q) in [(2, {}), (2, {'NOQUIESCE': None, 'FORCED1': None})]],
       defines={'NT': 2},
       desc='as lin_2t with loops unrolled twice (a batch of two is handled without losing a round) and more schedules: 2 free + 2 forced rounds with the blocked-state oracle, and 2 free + 1 forced round with the safety oracles only',
       bounds={'threads': 2, 'ops_per_thread': 1, 'free_rounds': '2 (+2 forced, blocked-state oracle) | 2 (+1 forced, safety oracles only)', 'loop_unroll': 2, 'priorities': '3 values', 'initial elements': '0..2'}),
  dict(name='lin_3t', unit='one3', harness='h_cpq.c', defines={'NT': 3, 'ROUNDS': 1}, timeout=3000, cbmc=LCS_CBMC, native_cflags=NATF, tiers=['thorough'], mem_gb=16,
       scenarios=[{'K0': 0, 'K1': 1, 'K2': 1, 'N0': 1}, {'K0': 1, 'K1': 0, 'K2': 0, 'N0': 1}, {'K0': 0, 'K1': 0, 'K2': 1, 'N0': 0}, {'K0': 1, 'K1': 1, 'K2': 1, 'N0': 2}],
       desc='full real code, 3 threads x 1 operation', bounds={'threads': 3, 'ops_per_thread': 1, 'free_rounds': 1, 'forced_rounds': 2, 'loop_unroll': 1, 'priorities': '3 values'}),
]
MANIFEST = dict(
  level_text='Bounded model checking of the real concurrent_priority_queue<int> / aggregator code from three sides. (1) Threads: for 2-3 threads each running the complete real push(p)/try_pop (aggregator::execute, start_handle_operations, handle_operations, reheap, heapify, vector push_back/pop_back) every interleaving at single-IR-memory-operation granularity within the round bound is decided by the SAT solver for: no lost operation (two-round blocked-state oracle on the status / handler_busy spin loops), linearizability of the recorded invocation/response history against a sequential max-priority queue (all orders compatible with real time; priorities symbolic in a 3-value domain with duplicates), final contents = initial + pushed - popped, heap invariant, mark == size == my_size, aggregator idle. (2) Threads: the combining protocol alone (real aggregator with a minimal client handler), 2-3 threads with up to 2 operations each: handler invocations exclusive, every operation handled exactly once and before its execute() returns, result visible, no lost operation. (3) Sequential inductive step: one call of the real handle_operations on every push/pop batch pattern of <= 3 operations from ANY heapified state (priorities over all int): statuses set, results explained by some sequential order of the batch, contents conserved, heap invariant and mark == size == my_size re-established; heapify/reheap alone on <= 7 elements with any mark; with an element type whose copy throws (unit compiled with exceptions): the failing push alone is reported FAILED / raises in its caller, the rest of the batch is unaffected.',
  level_note='Bounds per harness in evidence (threads, operations per thread, free/forced rounds, loop unroll, element counts). Quick tier: full-code thread harness with 2 threads, 1 operation each, 1 free + 2 forced rounds at loop unroll 1; deeper schedules (unroll 2, 2 free rounds, 3 threads) in the thorough tier. Sequential consistency. Vector reallocation inside concurrent operations, >3 threads, throwing moves, user comparators are outside. Trusted: clang-14 IR, tools/ir2c.py (validated per run against the real C++ by the selftest differential for the sequential unit), cbmc 6.11.',
)
OUTSIDE = [
  'more than 3 threads; more than 1 operation per thread through the full queue code (2 per thread only in the protocol harness agg_*)',
  'schedules outside the stated round bounds / outside the greedy-waiter skeleton of handover_*; at loop unroll 1 (quick lin_2t) a context switch after the second iteration of a list loop is only reached in the forced rounds',
  'std::vector reallocation inside a concurrent operation (queue is constructed with capacity 8; _M_realloc_insert is cut out of the thread bodies and asserted unreachable; growth is exercised sequentially by the selftest differential only)',
  'element types other than int (and the int-wrapper Elem of batch_throw), user comparators, emplace',
  'throwing MOVE constructor/assignment (try_pop move-assigns the result outside any try block: a throwing move there is outside the documented contract and not checked); exceptions inside concurrent threads (batch_throw is sequential: one batch, or one public push)',
  'batches of more than 3 operations in the sequential lemma; heaps of more than 7 elements in the kernel lemmas',
  'non-SC memory models (the release/acquire pairs on status and handler_busy are taken at sequentially consistent strength)',
  'unsafe (non-concurrent) members: clear, swap, assign, copy/move construction',
]
STUBS = [
  'r1::cache_aligned_allocate/deallocate: fresh 128-byte aligned block from a typed static pool per call, never reused',
  'r1::cache_line_size: 128', 'r1::throw_exception, std::__throw_length_error: reaching them is a failure (nothing can throw in this build)',
  'sched_yield / pause: scheduling hints (no-op)',
  'agg_* only: client handler of the aggregator (w_agg.cpp) = the documented handler contract (walk the list, set every status non-zero), reports through observers',
]
ASSUMPTIONS = [
  'every batch starts from mark == data.size() == my_size with data[0,mark) a max-heap: established by the constructor, assumed as pre-state of batch_step and re-proved as its post-state (inductive invariant)',
  'reserved capacity is not exceeded (capacity 8 >= initial + pushed elements in every thread scenario)',
  'linearizability is judged on timestamps taken in the atomic observer steps directly before the call / after the return of each operation',
]

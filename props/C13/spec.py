PROPERTY = 'C13'
def thr(fn, n): return {fn: ['a', 'b', 'c'][:n]}
UNITS = {
  'one2': dict(wrapper='w_cpq.cpp', mode='lcs', unroll=1, threads=thr('vp_thr_one', 2), cut=['_M_realloc_insert'], ptratomics=True, noinline=['6reheapEv','7heapifyEv'], allow_atomic=['_ZN3tbb6detail2d125concurrent_priority_queueIiSt4lessIiENS1_23cache_aligned_allocatorIiEEE6reheapEv','_ZN3tbb6detail2d125concurrent_priority_queueIiSt4lessIiENS1_23cache_aligned_allocatorIiEEE7heapifyEv']),
  'one3': dict(wrapper='w_cpq.cpp', mode='lcs', unroll=3, threads=thr('vp_thr_one', 3), cut=['_M_realloc_insert'], fallthrough=True),
}
UNITS['batch'] = dict(wrapper='w_batch.cpp', mode='seq', selftest=True, ptratomics=True)
UNITS['agg2'] = dict(wrapper='w_agg.cpp', mode='lcs', unroll=2, threads=thr('vp_thr_agg2', 2), ptratomics=True, fallthrough=True)
UNITS['agg3'] = dict(wrapper='w_agg.cpp', mode='lcs', unroll=3, threads=thr('vp_thr_agg1', 3), ptratomics=True, fallthrough=True)
UNITS['agg3x2'] = dict(wrapper='w_agg.cpp', mode='lcs', unroll=2, threads=thr('vp_thr_agg2', 3), ptratomics=True, fallthrough=True)
HARNESSES = [
  dict(name='agg_2t', unit='agg2', harness='h_agg.c', defines={'NT': 2, 'NOPS': 2, 'ROUNDS': 3}, scenarios=[{}], timeout=600, cbmc=['--unwind', '8'], desc='', bounds={}),
  dict(name='agg_3t', unit='agg3', harness='h_agg.c', defines={'NT': 3, 'NOPS': 1, 'ROUNDS': 3}, scenarios=[{}], timeout=600, cbmc=['--unwind', '8'], desc='', bounds={}),
  dict(name='agg_3t2', unit='agg3x2', harness='h_agg.c', defines={'NT': 3, 'NOPS': 2, 'ROUNDS': 3}, scenarios=[{}], timeout=900, cbmc=['--unwind', '8'], desc='', bounds={}),
  dict(name='batch_step', unit='batch', harness='h_batch.c', defines={'PART': 1},
       scenarios=[{'NH': 2, 'B0': 2, 'B1': 1, 'B2': 2}], timeout=300, cbmc=['--unwind', '6', '--object-bits', '10'],
       desc='', bounds={}),
  dict(name='heap_kernels', unit='batch', harness='h_batch.c', defines={'NMAX': 6},
       scenarios=[{'PART': 2}, {'PART': 3}], timeout=300, cbmc=['--unwind', '6', '--object-bits', '10'],
       desc='', bounds={}),
  dict(name='lin_2t', unit='one2', harness='h_cpq.c', defines={'NT': 2, 'ROUNDS': 3},
       scenarios=[{'K0': 0, 'K1': 1, 'N0': 1}], timeout=600, cbmc=['--unwind', '20', '--object-bits', '12'],
       desc='2 threads', bounds={}),
]
OUTSIDE = []; STUBS = []; ASSUMPTIONS = []

/* C13, combining protocol: the real aggregator<handler, op> (execute / start_handle_operations) under NT threads doing NOPS
 * operations each, with a minimal client handler (see w_agg.cpp). All schedules within the round bound.
 * Oracles: handler invocations never overlap (handler_busy); every operation is handled exactly once, before its execute()
 * returns, and never touched after that; results written by the handler are visible to the caller; no operation is lost
 * (two-round blocked-state oracle: nobody spins forever on status / handler_busy); aggregator idle at the end. */
#include "w.h"
#include "vp.h"
#ifndef NOPS
#define NOPS 1
#endif
#define NID (2 * NT)
struct S_class_tbb__detail__d1__aggregator agg;
static int in_handler, handled[NID], returned[NID], nbatches, batch_len, max_batch;
void vp_batch_begin(void) { VP_ASSERT(in_handler == 0, "two handler invocations overlap (handler_busy does not exclude)"); in_handler = 1; nbatches++; batch_len = 0; }
void vp_batch_end(void) { VP_ASSERT(batch_len >= 1, "handler invoked on an empty batch"); in_handler = 0; }
void vp_handle(u32 id) {
  VP_ASSERT(id < NID, "harness: bad id");
  VP_ASSERT(in_handler, "operation handled outside a handler invocation");
  VP_ASSERT(handled[id] == 0, "operation handled twice");
  VP_ASSERT(!returned[id], "operation handled after its execute() returned (object may be dead)");
  handled[id] = 1; batch_len++; if (batch_len > max_batch) max_batch = batch_len;
}
void vp_returned(u32 id, u32 result) {
  VP_ASSERT(handled[id] == 1, "execute() returned before the operation was handled");
  VP_ASSERT(result == id + 100, "result written by the handler not visible to the caller after execute()");
  returned[id] = 1;
}
#if NOPS == 1
#define THR(s) vp_thr_agg1_##s
#else
#define THR(s) vp_thr_agg2_##s
#endif
int main(void) {
  VP_ASSERT(vp_agg_sizeof() == sizeof(agg), "aggregator layout: generated struct and C++ disagree");
  vp_agg_init(&agg);
  THR(a_start)(&agg, 0); THR(b_start)(&agg, 1);
#if NT == 3
  THR(c_start)(&agg, 2);
#endif
  for (int r = 0; r < ROUNDS; r++) {
    VP_RUN(THR(a)) VP_RUN(THR(b))
#if NT == 3
    VP_RUN(THR(c))
#endif
  }
#if NT == 3
  VP_QUIESCE3(THR(a), THR(b), THR(c))
#else
  VP_QUIESCE2(THR(a), THR(b))
#endif
  VP_ASSERT(!vp_deadlock, "lost operation: a thread spins forever on its operation status / the handler flag");
  __CPROVER_assume(!vp_unfinished);
  for (int t = 0; t < NT; t++) for (int k = 0; k < NOPS; k++) VP_ASSERT(returned[2 * t + k] && handled[2 * t + k] == 1, "operation not handled exactly once");
  VP_ASSERT(!in_handler, "handler still active after every thread returned");
  VP_ASSERT(vp_agg_pending(&agg) == 0 && vp_agg_busy(&agg) == 0, "aggregator not idle after all operations returned");
#ifdef WANT_BATCH   /* coverage probe (thorough): a schedule exists in which one handler invocation serves WANT_BATCH operations */
  __CPROVER_assume(max_batch >= WANT_BATCH);
#endif
  VP_REACHED();
  return 0;
}

// C13 wrapper, throwing-element variant (compiled WITH exceptions): concurrent_priority_queue<Elem> where copying an Elem may
// throw at a position chosen by the harness (vp_may_throw_copy). One batch through the real handle_operations, then the
// real epilogue of push() (status FAILED -> throw_exception) for every operation of the batch.
#include "oneapi/tbb/concurrent_priority_queue.h"
#include <new>
using namespace tbb;
extern "C" void vp_may_throw_copy(int v);      // harness: may throw (symbolic fault position)
#ifndef COPYONLY
struct Elem {                                  // copy may throw, moves are noexcept
  int v;
  Elem(int x = 0) noexcept : v(x) {}
  Elem(const Elem& o) : v(o.v) { vp_may_throw_copy(o.v); }
  Elem(Elem&& o) noexcept : v(o.v) {}
  Elem& operator=(const Elem& o) { vp_may_throw_copy(o.v); v = o.v; return *this; }
  Elem& operator=(Elem&& o) noexcept { v = o.v; return *this; }
  bool operator<(const Elem& o) const noexcept { return v < o.v; }
};
#else
struct Elem {                                  // copy-only type (no move members, like MyThrowingType of the repo test):
  int v;                                       // copy CONSTRUCTION may throw, assignment does not
  Elem(int x = 0) noexcept : v(x) {}
  Elem(const Elem& o) : v(o.v) { vp_may_throw_copy(o.v); }
  Elem& operator=(const Elem& o) noexcept { v = o.v; return *this; }
  bool operator<(const Elem& o) const noexcept { return v < o.v; }
};
#endif
typedef concurrent_priority_queue<Elem> cpq_t;
typedef cpq_t::cpq_operation op_t;
extern "C" {
unsigned long vp_q_sizeof() { return sizeof(cpq_t); }
unsigned long vp_op_sizeof() { return sizeof(op_t); }
void vp_q_init(cpq_t* q, unsigned long cap) { new (q) cpq_t(cap); }
void vp_q_append(cpq_t* q, int v) { q->data.emplace_back(v); }
void vp_q_set_mark(cpq_t* q, unsigned long m) { q->mark = m; q->my_size.store(q->data.size(), std::memory_order_relaxed); }
void vp_op_init(op_t* op, Elem* elem, int kind, op_t* next) { new (op) op_t(*elem, (cpq_t::operation_type)kind); op->next.store(next, std::memory_order_relaxed); }
unsigned long vp_op_status(op_t* op) { return op->status.load(std::memory_order_relaxed); }
void vp_q_handle(cpq_t* q, op_t* list) { q->handle_operations(list); }
// the whole public push (sequential): returns 1 if an exception reached the caller
int vp_q_push_catch(cpq_t* q, int v) { Elem e(v); try { q->push(e); } catch (...) { return 1; } return 0; }
int vp_q_pop(cpq_t* q, int* v) { Elem e(-1); bool ok = q->try_pop(e); *v = e.v; return ok; }
unsigned long vp_q_mark(cpq_t* q) { return q->mark; }
unsigned long vp_q_mysize(cpq_t* q) { return q->my_size.load(std::memory_order_relaxed); }
unsigned long vp_q_dsize(cpq_t* q) { return q->data.size(); }
unsigned long vp_q_cap(cpq_t* q) { return q->data.capacity(); }
int vp_q_at(cpq_t* q, unsigned long i) { return q->data[i].v; }
unsigned long vp_q_busy(cpq_t* q) { return q->my_aggregator.handler_busy.load(std::memory_order_relaxed); }
unsigned long vp_q_pending(cpq_t* q) { return (unsigned long)q->my_aggregator.pending_operations.load(std::memory_order_relaxed); }
}

// C13 reproducer: an element copy that throws inside heapify() (which runs OUTSIDE the try/catch of handle_operations)
// escapes from the combining handler with handler_busy still set: the element stays in the queue, its push() nevertheless
// throws, and every later operation on the queue spins forever in start_handle_operations.
// Element type: copy-constructible, no move constructor (like MyThrowingType in test/tbb/test_concurrent_priority_queue.cpp),
// copy constructor throws on its k-th call (the repo test makes EVERY copy throw, so the first copy - inside the try - fails
// and heapify is never reached).
// build: g++ -std=c++17 -O1 -I/repo/include repro_heapify_copy_throw.cpp -L/repo/_build/gnu_12.2_cxx11_64_relwithdebinfo -ltbb -lpthread
// run:   LD_LIBRARY_PATH=/repo/_build/gnu_12.2_cxx11_64_relwithdebinfo ./a.out     (exit 1 = defect reproduced)
#include <oneapi/tbb/concurrent_priority_queue.h>
#include <atomic>
#include <chrono>
#include <cstdio>
#include <cstdlib>
#include <thread>
struct T {
  int v;
  static int countdown;                       // k > 0: the k-th copy from now throws
  T(int x = 0) : v(x) {}
  T(const T& o) : v(o.v) { if (countdown > 0 && --countdown == 0) throw 42; }
  T& operator=(const T& o) { v = o.v; return *this; }
  bool operator<(const T& o) const { return v < o.v; }
};
int T::countdown = 0;
int main() {
  tbb::concurrent_priority_queue<T> q(8);     // capacity reserved: no reallocation involved
  T a(1), b(2);
  q.push(a);                                  // one heapified element
  T::countdown = 2;                           // copy #1 = vector::push_back (inside the try), copy #2 = `to_place` in heapify()
  bool threw = false;
  try { q.push(b); } catch (...) { threw = true; }
  std::printf("second push threw=%d, size()=%zu (element %s)\n", threw, q.size(), q.size() == 2 ? "was inserted nevertheless" : "not inserted");
  std::atomic<bool> done{false};
  std::thread t([&] { T r; bool ok = q.try_pop(r); std::printf("try_pop returned %d (%d)\n", ok, r.v); done = true; });
  for (int i = 0; i < 30 && !done; i++) std::this_thread::sleep_for(std::chrono::milliseconds(100));
  if (!done) { std::printf("DEFECT: try_pop after the exception never returns (handler_busy left set by the unwinding handler)\n"); std::fflush(stdout); std::_Exit(1); }
  t.join();
  std::printf("queue still functional\n");
  return 0;
}

// C13 wrapper: thread bodies and white-box accessors over the real tbb::concurrent_priority_queue<int>
// (include/oneapi/tbb/concurrent_priority_queue.h over detail/_aggregator.h). No oneTBB logic is re-implemented here.
#include "oneapi/tbb/concurrent_priority_queue.h"
#include <new>
using namespace tbb;
typedef concurrent_priority_queue<int> cpq_t;

// observers (defined in the harness): invocation / response of one operation; executed as one atomic visible step
extern "C" void vp_inv(int tid, int slot, int kind, int val);
extern "C" void vp_res(int tid, int slot, int ok, int val);

// one operation: kind 0 = push(val), 1 = try_pop, anything else = nothing
static inline __attribute__((always_inline)) void do_op(cpq_t* q, int tid, int slot, int kind, int val) {
  if (kind == 0) { vp_inv(tid, slot, 0, val); q->push(val); vp_res(tid, slot, 1, val); }
  else if (kind == 1) { int v = -1; vp_inv(tid, slot, 1, 0); bool ok = q->try_pop(v); vp_res(tid, slot, ok, v); }
}
// thread body with one operation
extern "C" void vp_thr_one(cpq_t* q, int tid, int kind, int val) { do_op(q, tid, tid, kind, val); }
// thread body with two operations in program order (history slots 2*tid, 2*tid+1)
extern "C" void vp_thr_two(cpq_t* q, int tid, int k0, int v0, int k1, int v1) {
  do_op(q, tid, 2 * tid, k0, v0);
  do_op(q, tid, 2 * tid + 1, k1, v1);
}

extern "C" {
unsigned long vp_q_sizeof() { return sizeof(cpq_t); }
// pre-state: real constructor with an initial capacity (the documented way to avoid reallocation) ...
void vp_q_init(cpq_t* q, unsigned long cap) { new (q) cpq_t(cap); }
// ... and real sequential operations
void vp_q_push(cpq_t* q, int v) { q->push(v); }
int vp_q_pop(cpq_t* q, int* v) { return q->try_pop(*v); }
// white-box readers for the final-state oracle
unsigned long vp_q_mark(cpq_t* q) { return q->mark; }
unsigned long vp_q_mysize(cpq_t* q) { return q->my_size.load(std::memory_order_relaxed); }
unsigned long vp_q_dsize(cpq_t* q) { return q->data.size(); }
unsigned long vp_q_cap(cpq_t* q) { return q->data.capacity(); }
int vp_q_at(cpq_t* q, unsigned long i) { return q->data[i]; }
unsigned long vp_q_pending(cpq_t* q) { return (unsigned long)q->my_aggregator.pending_operations.load(std::memory_order_relaxed); }
unsigned long vp_q_busy(cpq_t* q) { return q->my_aggregator.handler_busy.load(std::memory_order_relaxed); }
}

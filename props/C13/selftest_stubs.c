/* external boundaries of the selftest builds (real C++ object and generated C): r1:: allocation entry points */
#include <stdlib.h>
#include <stdint.h>
void* _ZN3tbb6detail2r122cache_aligned_allocateEm(uint64_t n) { return aligned_alloc(128, (n + 127) & ~127ull); }
void _ZN3tbb6detail2r124cache_aligned_deallocateEPv(void* p) { free(p); }
uint64_t _ZN3tbb6detail2r115cache_line_sizeEv(void) { return 128; }
void _ZN3tbb6detail2r115throw_exceptionENS0_2d012exception_idE(uint32_t id) { abort(); }

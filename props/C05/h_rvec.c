/* C05 / rvec: the REAL range_vector<Range,8>::split_to_fill / pop_back / pop_front / front / back from an ARBITRARY valid ring
 * state: any head in 0..7, any size 1..8 (tail = head-size+1 mod 8, i.e. including every wrap-around position), arbitrary
 * depths 0..255, the stored ranges adjacent (slot tail = right-most piece ... slot head = left-most piece), every piece
 * non-empty, full 64-bit bounds and grainsize, any max_depth 0..255.
 * OP 0 split_to_fill: tail and the size-1 front pieces untouched; the old back piece is tiled right-to-left by the new pieces, all
 *   non-empty, only divisible ranges split, depths d+1,d+2,..,d+k,d+k without 8-bit wrap, head advanced by k mod 8, size<=8, loop
 *   stopped for a legal reason (full, depth reached, back not divisible).
 * OP 1 pop_back / OP 2 pop_front: the right slot is dropped, indices stay in range, front()/back() see the expected pieces. */
#include "w.h"
#include "vp.h"
static int nsplit;
void vp_on_split(u64 kind, u64 left, u64 right, u64 divisible) { nsplit++; VP_ASSERT(divisible, "range_vector split a range that is not divisible"); }
int main(void) {
  u64 b[8], e[8], d[8], nb[8], ne[8], nd_[8], hts[3], o[8];
#ifdef HEAD   /* ring position concrete per query (a symbolic index into the pool multiplies the formula), everything else symbolic */
  unsigned h = HEAD, s = SIZE;
#else
  unsigned h = (unsigned)vp_nd_range(0, 7), s = (unsigned)vp_nd_range(1, 8);
#endif
  unsigned t = (h + 8 - (s - 1)) % 8;
  u64 g = vp_nd(); __CPROVER_assume(g >= 1);
  unsigned md = (unsigned)vp_nd_range(0, 255);
  for (int i = 0; i < 8; i++) { b[i] = vp_nd(); e[i] = vp_nd(); d[i] = vp_nd_range(0, 255); }
  /* valid: live slots non-empty and adjacent: slot (t+j) is to the right of slot (t+j+1) */
  for (int j = 0; j < 8; j++) if (j < (int)s) {
    unsigned p = (t + j) % 8;
    __CPROVER_assume(b[p] < e[p]);
    if (j + 1 < (int)s) __CPROVER_assume(e[(p + 1) % 8] == b[p]);
  }
  vp_rv_make(h, t, s, b, e, d, g);
  vp_rv_ends(o);
  VP_ASSERT(o[0] == b[t] && o[1] == e[t] && o[2] == d[t], "front()/front_depth() do not return the slot at tail");
  VP_ASSERT(o[3] == b[h] && o[4] == e[h] && o[5] == d[h], "back()/back_depth() do not return the slot at head");
  VP_ASSERT(o[6] == s && !o[7], "size()/empty() wrong");
#if OP == 0
  vp_rv_split_to_fill(md);
  vp_rv_get(hts, nb, ne, nd_);
  u64 k = hts[2] - s;                       /* number of splits */
  VP_ASSERT(hts[2] >= s && hts[2] <= 8, "size out of range after split_to_fill");
  VP_ASSERT(hts[1] == t, "tail moved by split_to_fill");
  VP_ASSERT(hts[0] < 8 && hts[0] == (h + k) % 8, "head not advanced by the number of splits modulo capacity");
  VP_ASSERT((u64)nsplit == k, "number of range splits differs from the growth of the pool");
  for (int j = 0; j < 8; j++) if (j + 1 < (int)s) {       /* untouched front part */
    unsigned p = (t + j) % 8;
    VP_ASSERT(nb[p] == b[p] && ne[p] == e[p] && nd_[p] == d[p], "a piece that is not the back was modified");
  }
  /* the old back [b[h],e[h]) is tiled right-to-left by slots h, h+1, .., h+k */
  u64 right = e[h];
  for (int i = 0; i < 8; i++) if ((u64)i <= k) {
    unsigned p = (h + i) % 8;
    VP_ASSERT(ne[p] == right, "new pieces not adjacent (gap or overlap)");
    VP_ASSERT(nb[p] < ne[p], "split_to_fill produced an empty piece");
    VP_ASSERT(nd_[p] == d[h] + ((u64)i < k ? (u64)i + 1 : k), "depth bookkeeping wrong (or 8-bit depth wrapped)");
    right = nb[p];
  }
  VP_ASSERT(right == b[h], "new pieces do not cover the old back piece");
  VP_ASSERT(hts[2] == 8 || !vp_rv_is_divisible(md), "split_to_fill stopped although the pool has room and the back piece is divisible below max_depth");
  if (k > 0) VP_ASSERT(d[h] + k <= md, "split beyond max_depth");
#elif OP == 1
  vp_rv_pop_back();
  vp_rv_get(hts, nb, ne, nd_);
  VP_ASSERT(hts[2] == s - 1 && hts[1] == t && hts[0] < 8 && hts[0] == (h + 7) % 8, "pop_back: ring indices wrong");
  if (s > 1) { vp_rv_ends(o); VP_ASSERT(o[3] == b[(h + 7) % 8] && o[4] == e[(h + 7) % 8] && o[5] == d[(h + 7) % 8] && o[0] == b[t] && o[1] == e[t], "pop_back: wrong piece exposed"); }
#else
  vp_rv_pop_front();
  vp_rv_get(hts, nb, ne, nd_);
  VP_ASSERT(hts[2] == s - 1 && hts[0] == h && hts[1] < 8 && hts[1] == (t + 1) % 8, "pop_front: ring indices wrong");
  if (s > 1) { vp_rv_ends(o); VP_ASSERT(o[0] == b[(t + 1) % 8] && o[1] == e[(t + 1) % 8] && o[2] == d[(t + 1) % 8] && o[3] == b[h] && o[4] == e[h], "pop_front: wrong piece exposed"); }
#endif
  VP_REACHED();
}

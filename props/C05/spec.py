PROPERTY = 'C05'
UNITS = {
  'range': dict(wrapper='w_range.cpp', mode='seq', selftest=True),
  'rvec': dict(wrapper='w_rvec.cpp', mode='seq', selftest=True, cxxflags=['-fno-rtti']),
  'loop0': dict(wrapper='w_loop.cpp', mode='seq', cxxflags=['-DVP_PART=0', '-fno-rtti']),
  'loop1': dict(wrapper='w_loop.cpp', mode='seq', cxxflags=['-DVP_PART=1', '-fno-rtti']),
  'loop2': dict(wrapper='w_loop.cpp', mode='seq', cxxflags=['-DVP_PART=2', '-fno-rtti']),
  'loop3': dict(wrapper='w_loop.cpp', mode='seq', cxxflags=['-DVP_PART=3', '-fno-rtti']),
}
HARNESSES = [
  dict(name='range1d', unit='range', harness='h_range1d.c', defines={'NMAX': '4294967296ul'},
       scenarios=[{'TYPE': t, 'KIND': k} for t in (0, 1) for k in (0, 1)], timeout=600,
       desc='blocked_range<size_t|int> split / proportional split: parts non-empty, adjacent, cover, grain kept; even split halves >= ceil(g/2)',
       bounds={'begin,end,grainsize': 'all 64-bit (int: all 32-bit with end-begin representable)', 'proportion': 'left=n-n/2,right=n/2 for every 2<=n<=2^32', 'loops': 'none'}),
  dict(name='rangend', unit='range', harness='h_rangend.c', defines={'NMAX': '4294967296ul', 'LIMIT': 64}, cbmc=['--unwind', '4'],
       scenarios_quick=[{'SHAPE': 2, 'KIND': 0}, {'SHAPE': 3, 'KIND': 0}, {'SHAPE': 4, 'KIND': 0}, {'SHAPE': 2, 'KIND': 0, 'TYPE': 1},
                        {'SHAPE': 2, 'KIND': 1, 'NMAX': 3}, {'SHAPE': 4, 'KIND': 1, 'NMAX': 3}],
       scenarios_thorough=[{'SHAPE': 2, 'KIND': 0}, {'SHAPE': 3, 'KIND': 0}, {'SHAPE': 4, 'KIND': 0}, {'SHAPE': 2, 'KIND': 0, 'TYPE': 1},
                           {'SHAPE': 2, 'KIND': 1, 'NMAX': 256}, {'SHAPE': 3, 'KIND': 1, 'NMAX': 16}, {'SHAPE': 4, 'KIND': 1}],
       timeout=600, thorough_override={'timeout': 2400},
       desc='blocked_range2d/3d/blocked_nd_range<3> split: exactly one dimension is cut, it was divisible, its parts are non-empty and adjacent, other dimensions untouched',
       bounds={'dims': 'every 64-bit begin<end and every grainsize>=1 per dimension (no restriction)', 'even split': 'full width for 2d, 3d, nd<3> (+2d<int>)',
               'proportional split': 'proportion (n-n/2, n/2) with 2<=n<=NMAX given per scenario (quick: 2d, nd n<=3; thorough: 2d n<=256, 3d n<=16, nd n<=2^32); the 1-d proportional lemma itself is range1d (n<=2^32)',
               'loops': 'dimension loops (<=3)'}),
  dict(name='strided', unit='range', harness='h_strided.c', defines={'CH': 3}, cbmc=['--unwind', '5'],
       scenarios=[{'TYPE': 0}, {'TYPE': 1}, {'TYPE': 2}], timeout=600,
       desc='parallel_for(first,last,step,f): iteration count and index arithmetic of parallel_for_impl + parallel_for_body_wrapper',
       bounds={'first,last,step': 'all values of size_t / int / long with step>0 (signed: last-first representable)', 'chunk': 'any [cb,ce) of the iteration space with <=3 elements'}),
  dict(name='taskstep_simple', unit='loop0', harness='h_loop.c', defines={'PART': 0, 'ROOT': 0}, scenarios=[{'K': 1, 'P': 2}], timeout=900, cbmc=['--unwind', '8', '--object-bits', '12'],
       desc='x', bounds={}),
  dict(name='taskstep_auto', unit='loop1', harness='h_loop.c', defines={'PART': 1, 'ROOT': 0}, scenarios=[{'K': 1, 'P': 2}], timeout=900, cbmc=['--unwind', '8', '--object-bits', '12'],
       desc='x', bounds={}),
  dict(name='taskstep_static', unit='loop2', harness='h_loop.c', defines={'PART': 2, 'ROOT': 0}, scenarios=[{'K': 1, 'P': 2}], timeout=900, cbmc=['--unwind', '8', '--object-bits', '12'],
       desc='x', bounds={}),
  dict(name='taskstep_affinity', unit='loop3', harness='h_loop.c', defines={'PART': 3, 'ROOT': 0}, scenarios=[{'K': 1, 'P': 2}], timeout=900, cbmc=['--unwind', '8', '--object-bits', '12'],
       desc='x', bounds={}),
  dict(name='rvec', unit='rvec', harness='h_rvec.c', scenarios=[{'OP': 0, 'HEAD': h, 'SIZE': z} for h in (7,) for z in (1, 5)] + [{'OP': 1}, {'OP': 2}], timeout=900, cbmc=['--unwind', '10'],
       desc='range_vector<Range,8> split_to_fill/pop_back/pop_front from an arbitrary valid ring state', bounds={}),
]
OUTSIDE = []
STUBS = []
ASSUMPTIONS = []

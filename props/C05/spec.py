PROPERTY = 'C05'
PARTS = ['simple', 'auto', 'static', 'affinity']
UNITS = {
  'range': dict(wrapper='w_range.cpp', mode='seq', selftest=True),
  'range_w10': dict(wrapper='w_range.cpp', mode='seq', cxxflags=['-DVP_W=10']),
  'rvec': dict(wrapper='w_rvec.cpp', mode='seq', selftest=True, cxxflags=['-fno-rtti']),
}
for _i, _n in enumerate(PARTS):
    UNITS['loop_' + _n] = dict(wrapper='w_loop.cpp', mode='seq', cxxflags=['-DVP_PART=%d' % _i, '-fno-rtti'])

def _uw(part, K, P):
    """per-loop unwinding bounds of the inlined start_for::execute (unwinding assertions are on: a bound that is too small makes
    the query inconclusive, never a pass). Loop ids: simple/static: .0 execute's offer_work loop, .1 fold_tree;
    auto/affinity: .0 offer_work loop, .1 split_to_fill, .2 work_balance, .3 ~range_vector, .4 fold_tree."""
    maxc = (2 << K) + 2
    if part in (0, 2):
        us = 'vp_task_execute.0:%d,vp_task_execute.1:5' % (K + 2)
    else:
        us = 'vp_task_execute.0:%d,vp_task_execute.1:%d,vp_task_execute.2:%d,vp_task_execute.3:2,vp_task_execute.4:5' % (K + 2, K + 2, (1 << K) + K + 2)
        us += ',vp_task_make.0:%d,vp_run.0:%d' % (16 * P + 2, 16 * P + 2)
    return ['--unwind', str(maxc + 2), '--unwindset', us, '--object-bits', '12']

def _step(part, kind, K, P, scen, tiers, timeout=1200):
    n = PARTS[part]
    return dict(name='taskstep_%s_%sK%d' % (n, kind, K) + ('_P%d' % P if P != 2 else ''), unit='loop_' + n, harness='h_loop.c',
                defines={'PART': part, 'K': K, 'P': P}, scenarios=scen, tiers=tiers, timeout=timeout, mem_gb=8, cbmc=_uw(part, K, P),
                desc=('task step lemma, %s_partitioner: ONE real start_for::execute from an arbitrary task/partition state satisfying the invariant (ROOT=0) '
                      'or the root task built by the real parallel_for() (ROOT=2): body chunks + spawned ranges tile the task range, non-empty, disjoint; '
                      'only divisible ranges are split; spawned partition states satisfy the invariant; proportions are (n-n/2,n/2)' % n),
                bounds={'range': ('begin,end,grainsize symbolic 64-bit' if kind == 'wide' else 'begin and grainsize concrete per scenario (BFIX,GFIX), size symbolic') +
                                 ', 1 <= size <= grainsize*2^%d' % K, 'max_concurrency': P,
                        'partition state': 'any state satisfying INV (divisor, head, delay, max_depth 0..255 symbolic)', 'stolen/affinity/peer-stolen flags': 'symbolic',
                        'tasks executed': 1})

W, D = 'wide', 'deep'
Q, T = ['quick', 'thorough'], ['thorough']
HARNESSES = [
  dict(name='range1d', unit='range', harness='h_range1d.c', defines={'NMAX': '4294967296ul'},
       scenarios=[{'TYPE': t, 'KIND': k} for t in (0, 1) for k in (0, 1)], timeout=900,
       desc='blocked_range<size_t|int> split / proportional split: parts non-empty, adjacent, cover, grain kept; even split halves >= ceil(g/2)',
       bounds={'begin,end,grainsize': 'all 64-bit (int: all 32-bit with end-begin representable)', 'proportion': 'left=n-n/2,right=n/2 for every 2<=n<=2^32', 'loops': 'none'}),
  dict(name='range1d_wide', unit='range', harness='h_range1d_wide.c', defines={'NMAX': '4294967296ul'},
       scenarios=[{'TYPE': 1, 'KIND': 0}], timeout=900,
       desc='blocked_range<int> even split incl. ranges holding more elements than the signed type can count (end-begin wraps): begin < m < end, halves tile [begin,end)',
       bounds={'begin,end': 'every begin<end of int (no representability assumption); long and the proportional split of wide signed ranges FAIL on the real code (see repro_wide_signed_range.cpp) and are not registered', 'grainsize': 'all 64-bit >= 1, real is_divisible() assumed', 'loops': 'none'}),
  dict(name='rangend', unit='range', harness='h_rangend.c', defines={'NMAX': '4294967296ul', 'LIMIT': 64}, cbmc=['--unwind', '4'],
       scenarios_quick=[{'SHAPE': 2, 'KIND': 0}, {'SHAPE': 3, 'KIND': 0}, {'SHAPE': 4, 'KIND': 0}, {'SHAPE': 2, 'KIND': 0, 'TYPE': 1},
                        {'SHAPE': 2, 'KIND': 1, 'NMAX': 3}, {'SHAPE': 4, 'KIND': 1, 'NMAX': 3}],
       scenarios_thorough=[{'SHAPE': 2, 'KIND': 0}, {'SHAPE': 3, 'KIND': 0}, {'SHAPE': 4, 'KIND': 0}, {'SHAPE': 2, 'KIND': 0, 'TYPE': 1},
                           {'SHAPE': 2, 'KIND': 1, 'NMAX': 256}, {'SHAPE': 3, 'KIND': 1, 'NMAX': 16}, {'SHAPE': 4, 'KIND': 1}],
       timeout=900, thorough_override={'timeout': 3600},
       desc='blocked_range2d/3d/blocked_nd_range<3> split: exactly one dimension is cut, it was divisible, its parts are non-empty and adjacent, other dimensions untouched',
       bounds={'dims': 'every 64-bit begin<end and every grainsize>=1 per dimension (no restriction)', 'even split': 'full width for 2d, 3d, nd<3> (+2d<int>)',
               'proportional split': 'proportion (n-n/2, n/2) with 2<=n<=NMAX given per scenario (quick: 2d, nd n<=3; thorough: 2d n<=256, 3d n<=16, nd n<=2^32); the 1-d proportional lemma itself is range1d (n<=2^32)',
               'loops': 'dimension loops (<=3)'}),
  dict(name='strided', unit='range', harness='h_strided.c', defines={'CH': 3}, cbmc=['--unwind', '6'],
       scenarios=[{'TYPE': 3, 'MODE': 1, 'CTX': 0}, {'TYPE': 3, 'MODE': 1, 'CTX': 1},
                  {'TYPE': 0, 'MODE': 0, 'NIT': 2, 'CTX': 0}, {'TYPE': 1, 'MODE': 0, 'NIT': 2, 'CTX': 1},
                  {'TYPE': 0, 'MODE': 1, 'CTX': 0, 'STEPFIX': '1'}, {'TYPE': 0, 'MODE': 1, 'CTX': 0, 'STEPFIX': '2'},
                  {'TYPE': 0, 'MODE': 1, 'CTX': 0, 'STEPFIX': '0x100000001ul'}, {'TYPE': 0, 'MODE': 1, 'CTX': 1, 'STEPFIX': '0x8000000000000005ul'},
                  {'TYPE': 1, 'MODE': 1, 'CTX': 0, 'STEPFIX': '1'}, {'TYPE': 1, 'MODE': 1, 'CTX': 1, 'STEPFIX': '0x40000001'},
                  {'TYPE': 2, 'MODE': 1, 'CTX': 0, 'STEPFIX': '1'}],
       timeout=1200,
       desc='parallel_for(first,last,step,f): iteration count and index arithmetic of the real parallel_for_impl (both overload families) + parallel_for_body_wrapper',
       bounds={'TYPE 3': 'user-defined 8-bit wrap-around Index class: every first,last,step (exhaustive in the width, symbolic divisor)',
               'TYPE 0/1/2 (size_t/int/long) MODE 0': 'first,last,step all symbolic at full width, at most NIT=2 grid points in [first,last)',
               'TYPE 0/1/2 MODE 1': 'first,last symbolic at full width, step concrete per scenario (1, 2, 2^32+1, 2^63+5, 2^30+1), any iteration count',
               'chunk': 'any [cb,ce) of the iteration space with <=3 elements',
               'not decided': 'symbolic 64-bit step with unbounded quotient (no verdict in 10 min even for a 4-bit step; also concrete step 3: ~200 s CPU without verdict)'}),
  dict(name='strided_w10', unit='range_w10', harness='h_strided.c', defines={'CH': 3}, cbmc=['--unwind', '6'], tiers=T,
       scenarios=[{'TYPE': 3, 'MODE': 1, 'CTX': 0}], timeout=3600,
       desc='as strided TYPE 3 with a 10-bit wrap-around Index class (12 bit: no verdict in 730 s CPU, 16 bit: none in 1 h)', bounds={'first,last,step': 'all 10-bit values, step>0'}),
  dict(name='rvec', unit='rvec', harness='h_rvec.c', cbmc=['--unwind', '10'], timeout=1200,
       scenarios_quick=[{'OP': 0, 'HEAD': h, 'SIZE': z} for h in (0, 4, 7) for z in (1, 4, 8)] + [{'OP': 1}, {'OP': 2}],
       scenarios_thorough=[{'OP': 0, 'HEAD': h, 'SIZE': z} for h in range(8) for z in range(1, 9)] + [{'OP': 1}, {'OP': 2}],
       desc='range_vector<Range,8> split_to_fill / pop_back / pop_front / front / back from an arbitrary valid ring state',
       bounds={'ring position': 'split_to_fill: head,size concrete per query (quick 9 of the 64 combinations incl. wrap-around, thorough all 64); pop_*: symbolic',
               'ranges, grainsize': 'symbolic 64-bit, pieces adjacent and non-empty', 'depths, max_depth': 'symbolic 0..255'}),
  _step(0, W, 1, 2, [{'ROOT': 0}, {'ROOT': 2}], Q),
  _step(0, D, 3, 2, [{'ROOT': 0, 'GFIX': 1, 'BFIX': 0}, {'ROOT': 0, 'GFIX': 3, 'BFIX': 5}], Q),
  _step(2, W, 1, 2, [{'ROOT': 0}, {'ROOT': 2}], Q),
  _step(2, D, 3, 3, [{'ROOT': 0, 'GFIX': 1, 'BFIX': 0}, {'ROOT': 2, 'GFIX': 2, 'BFIX': 7}], Q),
  dict(_step(1, W, 1, 2, [{'ROOT': 0}, {'ROOT': 2}], Q), scenarios_quick=[{'ROOT': 0}]),
  _step(1, D, 2, 2, [{'ROOT': 0, 'GFIX': 1, 'BFIX': 0}], Q, timeout=1800),
  _step(3, D, 1, 2, [{'ROOT': 0, 'GFIX': 1, 'BFIX': 0}, {'ROOT': 2, 'GFIX': 1, 'BFIX': 0}], Q, timeout=1800),
  _step(3, D, 2, 2, [{'ROOT': 0, 'GFIX': 1, 'BFIX': 0}], T, timeout=3600),
  # thorough: deeper trees, other concurrencies
  _step(0, W, 2, 2, [{'ROOT': 0}], T, timeout=3600),
  _step(0, D, 4, 2, [{'ROOT': 0, 'GFIX': 1, 'BFIX': 0}, {'ROOT': 2, 'GFIX': 2, 'BFIX': 3}], T, timeout=3600),
  _step(2, W, 2, 3, [{'ROOT': 0}], T, timeout=3600),
  _step(2, D, 3, 4, [{'ROOT': 0, 'GFIX': 1, 'BFIX': 0}, {'ROOT': 2, 'GFIX': 1, 'BFIX': 0}], T, timeout=3600),
  _step(2, D, 3, 1, [{'ROOT': 2, 'GFIX': 1, 'BFIX': 0}], T, timeout=3600),
  _step(1, D, 2, 3, [{'ROOT': 2, 'GFIX': 1, 'BFIX': 0}, {'ROOT': 0, 'GFIX': 2, 'BFIX': 9}], T, timeout=3600),
  _step(3, D, 2, 3, [{'ROOT': 0, 'GFIX': 1, 'BFIX': 0}, {'ROOT': 2, 'GFIX': 1, 'BFIX': 0}], T, timeout=3600),
  _step(3, D, 2, 1, [{'ROOT': 2, 'GFIX': 1, 'BFIX': 0}], T, timeout=3600),
  # whole loop (E-BAG), thorough only: the real parallel_for() run to completion over the task bag
  dict(name='loop_simple', unit='loop_simple', harness='h_loop.c', defines={'PART': 0, 'ROOT': 1, 'K': 2, 'P': 2, 'NMAX': 4, 'GFIX': 1, 'BFIX': 0, 'MAXT': 5}, tiers=T,
       scenarios=[{'ORDER': o} for o in ('0x1f', '0x0', '0x15', '0x0a')], timeout=3600, mem_gb=8, cbmc=_uw(0, 2, 2),
       desc='whole loop, simple_partitioner: real parallel_for() over [0,n), n<=4 symbolic, grain 1; bag order concrete per query (newest/oldest pattern), executing slots symbolic: '
            'every element exactly once, chunks legal, all tasks/tree nodes released, wait released exactly once after the last task',
       bounds={'elements': '0..4', 'grainsize': 1, 'task order': '4 newest/oldest patterns', 'max_concurrency': 2}),
  dict(name='loop_static', unit='loop_static', harness='h_loop.c', defines={'PART': 2, 'ROOT': 1, 'K': 2, 'P': 2, 'NMAX': 4, 'GFIX': 1, 'BFIX': 0, 'MAXT': 5}, tiers=T,
       scenarios=[{'ORDER': o} for o in ('0x1f', '0x0')], timeout=3600, mem_gb=8, cbmc=_uw(2, 2, 2),
       desc='whole loop, static_partitioner: as loop_simple', bounds={'elements': '0..4', 'grainsize': 1, 'task order': '2 patterns', 'max_concurrency': 2}),
]
MANIFEST = dict(
  level_text='Bounded symbolic execution (clang-14 IR of the real headers -> C -> cbmc/SAT) of the code behind parallel_for: full-width lemmas for '
             'blocked_range / blocked_range2d / 3d / nd_range splitting, the strided parallel_for index arithmetic, range_vector ring operations from an arbitrary ring state, '
             'and a task step lemma for each of the four partitioners (one real start_for::execute from an arbitrary partition state satisfying an inductive invariant, '
             'symbolic steal/affinity flags): the body chunks and the spawned subranges tile the task range exactly, non-empty and disjoint, only divisible ranges are split. '
             'Exactly-once for whole loops of any size follows by induction over the task tree (paper argument on top of the solver-decided step and base case).',
  level_note='Bounds per harness in evidence: task step covers ranges up to grainsize*2^K (K=1..2 at full symbolic width, K=1..4 with concrete begin/grain; auto/affinity up to K=2), max_concurrency 1..4 concrete; '
             'strided arithmetic is decided for an 8-bit (thorough: 10-bit) index type exhaustively and for size_t/int/long on two sub-families (<=2 iterations at full width; concrete steps); '
             'whole-loop runs (thorough) only for simple/static partitioner with <=4 elements. parallel_for_each and parallel_invoke are not covered. '
             'Tasks are atomic in the bag model (overlap of two task bodies is outside). Trusted: clang-14 IR, tools/ir2c.py (selftest differential on float/double code), cbmc.',
)
OUTSIDE = [
  'signed blocked_range holding more elements than the signed type can count: only the even split of blocked_range<int> is covered (range1d_wide); blocked_range<long> even split (signed division by 2u) and the proportional split of such int ranges (size() sign-extends) misbehave on the real code: repro_wide_signed_range.cpp; whether such ranges are legal is a documentation question (end-begin overflows the Value type)',
  'parallel_for_each (feeder, forward/random-access blocks) and parallel_invoke: separate templates, not encoded',
  'affinity_partitioner task step with fully symbolic 64-bit begin/end/grainsize (4.8 M variables, no verdict in 30 min): affinity is explored with concrete begin/grain only; the range arithmetic is the blocked_range code decided by range1d and by the wide task steps of the other three partitioners',
  'whole-loop executions for auto_partitioner / affinity_partitioner (no verdict within 375 s CPU / 10 GB for 4 elements) and for more than 4 elements: covered only through the task step lemma + induction',
  'task step for ranges larger than grainsize*2^K (K per harness) in ONE task; range_vector ring wrap-around inside work_balance is covered separately by rvec from arbitrary ring states',
  'true overlap of two task bodies (tasks are atomic in the bag model); m_child_stolen / ref-count races belong to C01',
  'parallel_for(first,last,step): symbolic 64-bit step with more than 2 iterations (solver gives no verdict); signed Index with last-first not representable (documented precondition)',
  'the final, unused `k += step` of parallel_for_body_wrapper can overflow a signed Index (UB by the letter, value unused); not flagged by the translator (wrapping semantics)',
  'cancellation / exceptions during the loop (property C03)',
  'blocked_rangeNd proportional split of 2d/3d for proportions n > 256 / 16 (thorough bounds); the 1-d arithmetic for n <= 2^32 is range1d',
]
STUBS = [
  'r1::allocate/deallocate: fresh heap object / free (double free and use-after-free are solver-checked)',
  'r1::spawn(task[,slot]): task is put into the bag; static partitioner: slot id must be < max_concurrency',
  'r1::execute_and_wait: runs the bag (ROOT=1) or only the root task (ROOT=2)',
  'r1::execution_slot: symbolic slot < max_concurrency, fixed during one task execution; r1::max_concurrency: concrete P per query',
  'r1::is_group_execution_cancelled: false (the property is about loops that complete normally)',
  'r1::notify_waiters: counted; r1::initialize/destroy(task_group_context): no-ops; r1::cache_aligned_allocate: heap object',
  'parallel_for(range, body, partitioner) inside parallel_for_impl (strided harness only): recorder that applies the real body wrapper to one harness-chosen chunk',
]
ASSUMPTIONS = [
  'Value/Index requirements of the documentation: end-begin (last-first) is representable in a signed value type; grainsize >= 1; step > 0',
  'partition invariant INV (proved inductive by the taskstep harnesses: established by the root constructors, ROOT=2, preserved for every spawned task): '
  'static: 1<=divisor<=P, head<P, max_affinity=P; affinity: max_affinity=16P, head<16P, divisor<=16P and (divisor<=16 or divisor%16==0); auto: any state',
  'non-root tasks have a tree_node parent with reference count 1 or 2 (what offer_work creates)',
  'induction over the task tree: every spawned task is executed exactly once (property C01) - paper argument, not a solver query',
]

// C05 wrapper 3: the REAL range_vector<Range,8> (include/oneapi/tbb/partitioner.h) from an arbitrary ring state.
#include "oneapi/tbb/partitioner.h"
#include "oneapi/tbb/blocked_range.h"
using namespace tbb;
using namespace tbb::detail;
typedef unsigned long u64;
extern "C" void vp_on_split(u64 kind, u64 left, u64 right, u64 divisible);
extern "C" void vp_emit(unsigned long v);
struct vrange {
  blocked_range<u64> r;
  vrange(u64 b, u64 e, u64 g) : r(b, e, g) {}
  vrange(const vrange&) = default;
  bool empty() const { return r.empty(); }
  bool is_divisible() const { return r.is_divisible(); }
  static u64 note(vrange& o, u64 kind, u64 l, u64 rr) { vp_on_split(kind, l, rr, o.r.is_divisible()); return 0; }
  vrange(vrange& o, split s) : r((note(o, 0, 0, 0), o.r), s) {}
};
typedef d1::range_vector<vrange, 8> rv_t;
// typed static storage (a byte array accessed through a struct pointer costs cbmc a byte-level encoding of every access)
static union rv_store { rv_t v; rv_store() {} ~rv_store() {} } rv_u;
#define RV (&rv_u.v)
#define rv_mem ((void*)&rv_u.v)
extern "C" {
unsigned vp_rv_capacity() { return 8; }
// build: real constructor, then overwrite the ring state: slot i holds [b[i],e[i]) with depth d[i]
void vp_rv_make(unsigned head, unsigned tail, unsigned size, const u64* b, const u64* e, const u64* d, u64 g) {
  new (rv_mem) rv_t(vrange(0, 1, g));
  RV->my_head = (d1::depth_t)head; RV->my_tail = (d1::depth_t)tail; RV->my_size = (d1::depth_t)size;
  for (unsigned i = 0; i < 8; i++) { RV->my_depth[i] = (d1::depth_t)d[i]; new (RV->my_pool.begin() + i) vrange(b[i], e[i], g); }
}
void vp_rv_get(u64* hts, u64* b, u64* e, u64* d) {
  hts[0] = RV->my_head; hts[1] = RV->my_tail; hts[2] = RV->my_size;
  for (unsigned i = 0; i < 8; i++) { d[i] = RV->my_depth[i]; b[i] = RV->my_pool.begin()[i].r.begin(); e[i] = RV->my_pool.begin()[i].r.end(); }
}
void vp_rv_split_to_fill(unsigned max_depth) { RV->split_to_fill((d1::depth_t)max_depth); }
void vp_rv_pop_back() { RV->pop_back(); }
void vp_rv_pop_front() { RV->pop_front(); }
void vp_rv_ends(u64* o) {   // front/back as the real accessors see them
  o[0] = RV->front().r.begin(); o[1] = RV->front().r.end(); o[2] = RV->front_depth();
  o[3] = RV->back().r.begin(); o[4] = RV->back().r.end(); o[5] = RV->back_depth();
  o[6] = RV->size(); o[7] = RV->empty();
}
int vp_rv_is_divisible(unsigned max_depth) { return RV->is_divisible((d1::depth_t)max_depth); }
void vp_selftest() {
  u64 b[8], e[8], d[8], hts[3], o[8];
  for (unsigned h = 0; h < 8; h++) for (unsigned s = 1; s <= 8; s += 3) {
    unsigned t = (h + 8 - (s - 1)) % 8;
    for (unsigned i = 0; i < 8; i++) { b[i] = e[i] = 0; d[i] = 0; }
    u64 x = 1000;   // front (tail) is the right-most piece
    for (unsigned j = 0; j < s; j++) { unsigned pos = (t + j) % 8; e[pos] = x; x -= (j + 1 == s ? 37 : 5); b[pos] = x; d[pos] = j; }
    vp_rv_make(h, t, s, b, e, d, 2);
    vp_rv_split_to_fill(h + 3);
    vp_rv_get(hts, b, e, d);
    for (int i = 0; i < 3; i++) vp_emit(hts[i]);
    for (int i = 0; i < 8; i++) { vp_emit(b[i]); vp_emit(e[i]); vp_emit(d[i]); }
    vp_rv_ends(o); for (int i = 0; i < 8; i++) vp_emit(o[i]);
    vp_rv_pop_back(); vp_rv_ends(o); for (int i = 0; i < 8; i++) vp_emit(o[i]);
    if (!RV->empty()) { vp_rv_pop_front(); if (!RV->empty()) { vp_rv_ends(o); for (int i = 0; i < 8; i++) vp_emit(o[i]); } }
  }
}
}

/* C05 / range1d: blocked_range<V>::blocked_range(r, split) and (r, proportional_split&) at full width.
 * For EVERY begin<end, grainsize>=1 such that the REAL is_divisible() says yes (and for the proportional split every
 * (left,right) that proportional_mode::get_split can produce: n>=2, right=n/2, left=n-right, n<=2^32):
 *   both parts non-empty, adjacent (left.end==right.begin), union == original, grainsize kept, sizes add up;
 *   KIND 0 (even split) additionally: both halves >= ceil(g/2)  (the simple_partitioner step lemma: a chunk is only
 *   ever split while size>g, so by induction over the split tree every leaf has size in [ceil(g/2), g]).
 * TYPE 0: Value=size_t, TYPE 1: Value=int (compared as signed; documented precondition end-begin representable). */
#include "w.h"
#include "vp.h"
typedef long long i64;
void vp_visit(u64 k) { (void)k; }
int main(void) {
  u64 o[10];
  u64 g = vp_nd(); __CPROVER_assume(g >= 1);
#if TYPE == 0
  u64 b = vp_nd(), e = vp_nd(); __CPROVER_assume(b < e);
  u64 size = e - b;
  i64 B = (i64)b, E = (i64)e;
  #define DIV() vp_div_u64(b, e, g)
  #define EMPTY() vp_empty_u64(b, e, g)
  #define SPLIT() vp_split_u64(b, e, g, o)
  #define PSPLIT(l, r) vp_psplit_u64(b, e, g, l, r, o)
  #define LT(x, y) ((u64)(x) < (u64)(y))
#else
  int b = (int)vp_nd(), e = (int)vp_nd(); __CPROVER_assume(b < e);
  __CPROVER_assume((i64)e - (i64)b <= 0x7fffffffl);   /* Value requirement: end-begin is the number of values, must not overflow */
  u64 size = (u64)((i64)e - (i64)b);
  i64 B = b, E = e;
  #define DIV() vp_div_i32(b, e, g)
  #define EMPTY() vp_empty_i32(b, e, g)
  #define SPLIT() vp_split_i32(b, e, g, o)
  #define PSPLIT(l, r) vp_psplit_i32(b, e, g, l, r, o)
  #define LT(x, y) ((i64)(x) < (i64)(y))
#endif
  VP_ASSERT(!EMPTY(), "non-empty interval reported empty");
  int div = DIV();
  VP_ASSERT(div == (size > g), "is_divisible() differs from its documented meaning grainsize < size()");
  __CPROVER_assume(div);
#if KIND == 0
  SPLIT();
#else
  u64 n = vp_nd(); __CPROVER_assume(n >= 2 && n <= NMAX);
  u64 right = n / 2, left = n - right;
  PSPLIT(left, right);
#endif
  VP_ASSERT((i64)o[0] == B, "split moved the begin of the left part");
  VP_ASSERT((i64)o[4] == E, "split moved the end of the right part");
  VP_ASSERT(o[1] == o[3], "parts not adjacent: left.end != right.begin (gap or overlap)");
  VP_ASSERT(LT(o[0], o[1]), "left part empty (or inverted)");
  VP_ASSERT(LT(o[3], o[4]), "right part empty (or inverted)");
  VP_ASSERT(!o[6] && !o[7], "a part reports empty()");
  VP_ASSERT((u64)o[2] == g && (u64)o[5] == g, "grainsize not preserved by the split");
  VP_ASSERT((u64)o[8] + (u64)o[9] == size && (u64)o[8] >= 1 && (u64)o[9] >= 1 && (u64)o[8] < size && (u64)o[9] < size, "sizes of the parts do not add up to the original size");
#if KIND == 0
  u64 half = g / 2 + (g & 1);
  VP_ASSERT((u64)o[8] >= half && (u64)o[9] >= half, "even split of a divisible range produced a part smaller than ceil(grainsize/2)");
#endif
  VP_REACHED();
}

// C05 wrapper 1: the Range classes (real headers) and the strided parallel_for index wrapper.
// Everything below only *calls* the real code; results are copied into a flat array for the harness.
#include "oneapi/tbb/blocked_range.h"
#include "oneapi/tbb/blocked_range2d.h"
#include "oneapi/tbb/blocked_range3d.h"
#include "oneapi/tbb/blocked_nd_range.h"
#include "oneapi/tbb/parallel_for.h"
using namespace tbb;
typedef unsigned long u64;
typedef long i64;
extern "C" void vp_emit(unsigned long v);
extern "C" void vp_visit(i64 k);   // harness observer: the user function of parallel_for(first,last,step,f)

// ---- 1-d -------------------------------------------------------------------------------------
// o[0..2] = left (begin,end,grain), o[3..5] = right, o[6]=left.empty o[7]=right.empty o[8]=left.size o[9]=right.size
template <class V> static void put1(const blocked_range<V>& l, const blocked_range<V>& r, i64* o) {
  o[0] = (i64)l.begin(); o[1] = (i64)l.end(); o[2] = (i64)l.grainsize();
  o[3] = (i64)r.begin(); o[4] = (i64)r.end(); o[5] = (i64)r.grainsize();
  o[6] = l.empty(); o[7] = r.empty(); o[8] = (i64)l.size(); o[9] = (i64)r.size();
}
template <class V> static void split1(V b, V e, u64 g, i64* o) {
  blocked_range<V> l(b, e, g);
  blocked_range<V> r(l, split());
  put1(l, r, o);
}
template <class V> static void psplit1(V b, V e, u64 g, u64 left, u64 right, i64* o) {
  blocked_range<V> l(b, e, g);
  proportional_split p(left, right);
  blocked_range<V> r(l, p);
  put1(l, r, o);
}
extern "C" {
int vp_div_u64(u64 b, u64 e, u64 g) { return blocked_range<u64>(b, e, g).is_divisible(); }
int vp_div_i32(int b, int e, u64 g) { return blocked_range<int>(b, e, g).is_divisible(); }
int vp_empty_u64(u64 b, u64 e, u64 g) { return blocked_range<u64>(b, e, g).empty(); }
int vp_empty_i32(int b, int e, u64 g) { return blocked_range<int>(b, e, g).empty(); }
void vp_split_u64(u64 b, u64 e, u64 g, i64* o) { split1<u64>(b, e, g, o); }
void vp_split_i32(int b, int e, u64 g, i64* o) { split1<int>(b, e, g, o); }
void vp_psplit_u64(u64 b, u64 e, u64 g, u64 l, u64 r, i64* o) { psplit1<u64>(b, e, g, l, r, o); }
void vp_psplit_i32(int b, int e, u64 g, u64 l, u64 r, i64* o) { psplit1<int>(b, e, g, l, r, o); }
int vp_div_i64(i64 b, i64 e, u64 g) { return blocked_range<i64>(b, e, g).is_divisible(); }
void vp_split_i64(i64 b, i64 e, u64 g, i64* o) { split1<i64>(b, e, g, o); }
void vp_psplit_i64(i64 b, i64 e, u64 g, u64 l, u64 r, i64* o) { psplit1<i64>(b, e, g, l, r, o); }
}

// ---- 2-d / 3-d / n-d ---------------------------------------------------------------------------
// dims are passed as d[3*k+0..2] = (begin,end,grain) of dimension k; outputs: o[0..3N) = left dims, o[3N..6N) = right dims
template <class V> static void putd(const blocked_range<V>& r, i64* o) { o[0] = (i64)r.begin(); o[1] = (i64)r.end(); o[2] = (i64)r.grainsize(); }
template <class V, class S> static void split2(const i64* d, S& s, i64* o) {
  blocked_range2d<V, V> l((V)d[0], (V)d[1], (u64)d[2], (V)d[3], (V)d[4], (u64)d[5]);
  blocked_range2d<V, V> r(l, s);
  putd(l.rows(), o); putd(l.cols(), o + 3); putd(r.rows(), o + 6); putd(r.cols(), o + 9);
}
template <class V, class S> static void split3(const i64* d, S& s, i64* o) {
  blocked_range3d<V, V, V> l((V)d[0], (V)d[1], (u64)d[2], (V)d[3], (V)d[4], (u64)d[5], (V)d[6], (V)d[7], (u64)d[8]);
  blocked_range3d<V, V, V> r(l, s);
  putd(l.pages(), o); putd(l.rows(), o + 3); putd(l.cols(), o + 6); putd(r.pages(), o + 9); putd(r.rows(), o + 12); putd(r.cols(), o + 15);
}
template <class V, class S> static void splitn3(const i64* d, S& s, i64* o) {
  typedef blocked_range<V> br;
  blocked_nd_range<V, 3> l(br((V)d[0], (V)d[1], (u64)d[2]), br((V)d[3], (V)d[4], (u64)d[5]), br((V)d[6], (V)d[7], (u64)d[8]));
  blocked_nd_range<V, 3> r(l, s);
  for (int k = 0; k < 3; k++) { putd(l.dim(k), o + 3 * k); putd(r.dim(k), o + 9 + 3 * k); }
}
extern "C" {
int vp_div2_u64(const i64* d) { return blocked_range2d<u64, u64>(d[0], d[1], d[2], d[3], d[4], d[5]).is_divisible(); }
int vp_div2_i32(const i64* d) { return blocked_range2d<int, int>((int)d[0], (int)d[1], d[2], (int)d[3], (int)d[4], d[5]).is_divisible(); }
int vp_empty2_u64(const i64* d) { return blocked_range2d<u64, u64>(d[0], d[1], d[2], d[3], d[4], d[5]).empty(); }
int vp_div3_u64(const i64* d) { return blocked_range3d<u64, u64, u64>(d[0], d[1], d[2], d[3], d[4], d[5], d[6], d[7], d[8]).is_divisible(); }
int vp_empty3_u64(const i64* d) { return blocked_range3d<u64, u64, u64>(d[0], d[1], d[2], d[3], d[4], d[5], d[6], d[7], d[8]).empty(); }
int vp_divn3_u64(const i64* d) {
  typedef blocked_range<u64> br;
  return blocked_nd_range<u64, 3>(br(d[0], d[1], d[2]), br(d[3], d[4], d[5]), br(d[6], d[7], d[8])).is_divisible();
}
int vp_emptyn3_u64(const i64* d) {
  typedef blocked_range<u64> br;
  return blocked_nd_range<u64, 3>(br(d[0], d[1], d[2]), br(d[3], d[4], d[5]), br(d[6], d[7], d[8])).empty();
}
void vp_split2_u64(const i64* d, i64* o) { split s; split2<u64>(d, s, o); }
void vp_split2_i32(const i64* d, i64* o) { split s; split2<int>(d, s, o); }
void vp_psplit2_u64(const i64* d, u64 l, u64 r, i64* o) { proportional_split s(l, r); split2<u64>(d, s, o); }
void vp_split3_u64(const i64* d, i64* o) { split s; split3<u64>(d, s, o); }
void vp_psplit3_u64(const i64* d, u64 l, u64 r, i64* o) { proportional_split s(l, r); split3<u64>(d, s, o); }
void vp_splitn3_u64(const i64* d, i64* o) { split s; splitn3<u64>(d, s, o); }
void vp_psplitn3_u64(const i64* d, u64 l, u64 r, i64* o) { proportional_split s(l, r); splitn3<u64>(d, s, o); }
}

// ---- parallel_for(first,last,step,f): index arithmetic ------------------------------------------------
// The REAL parallel_for_impl (both the plain and the task_group_context flavour) computes the iteration count `end`, builds
// blocked_range<Index>(0,end) and the REAL parallel_for_body_wrapper, then calls parallel_for(range, body, partitioner).
// That last call is the boundary: it is resolved (ADL on our partitioner stand-in type) to the recorder below, which reports
// the iteration space to the harness and applies the real body wrapper to ONE harness-chosen chunk [cb,ce) of it
// (that the loop hands out exactly such chunks is what the other lemmas / the loop harness establish).
extern "C" void vp_loop(u64 begin, u64 end, u64 grain, u64* cb, u64* ce);
namespace vpns {
struct rec_partitioner {};
template <class Index, class Body> void parallel_for(const tbb::blocked_range<Index>& r, const Body& body, rec_partitioner&) {
  u64 cb = 0, ce = 0; vp_loop((u64)(i64)r.begin(), (u64)(i64)r.end(), r.grainsize(), &cb, &ce);
  if (cb != ce) body(tbb::blocked_range<Index>((Index)cb, (Index)ce));
}
template <class Index, class Body> void parallel_for(const tbb::blocked_range<Index>& r, const Body& body, rec_partitioner& p, tbb::task_group_context&) {
  parallel_for(r, body, p);
}
}
struct visit_i64 { void operator()(i64 k) const { vp_visit(k); } };
struct visit_i32 { void operator()(int k) const { vp_visit(k); } };
struct visit_u64 { void operator()(u64 k) const { vp_visit((i64)k); } };
static unsigned char fake_ctx[sizeof(tbb::task_group_context)] __attribute__((aligned(128)));   // never touched: only passed through by reference
extern "C" {
void vp_strided_u64(u64 first, u64 last, u64 step, int with_ctx) {
  vpns::rec_partitioner p; visit_u64 f;
  if (with_ctx) detail::d1::parallel_for_impl<u64, visit_u64, vpns::rec_partitioner>(first, last, step, f, p, *(tbb::task_group_context*)fake_ctx);
  else detail::d1::parallel_for_impl<u64, visit_u64, vpns::rec_partitioner>(first, last, step, f, p);
}
void vp_strided_i32(int first, int last, int step, int with_ctx) {
  vpns::rec_partitioner p; visit_i32 f;
  if (with_ctx) detail::d1::parallel_for_impl<int, visit_i32, vpns::rec_partitioner>(first, last, step, f, p, *(tbb::task_group_context*)fake_ctx);
  else detail::d1::parallel_for_impl<int, visit_i32, vpns::rec_partitioner>(first, last, step, f, p);
}
void vp_strided_i64(i64 first, i64 last, i64 step, int with_ctx) {
  vpns::rec_partitioner p; visit_i64 f;
  if (with_ctx) detail::d1::parallel_for_impl<i64, visit_i64, vpns::rec_partitioner>(first, last, step, f, p, *(tbb::task_group_context*)fake_ctx);
  else detail::d1::parallel_for_impl<i64, visit_i64, vpns::rec_partitioner>(first, last, step, f, p);
}
}

// A W-bit unsigned index type without integer promotion (a legitimate user-defined Index for parallel_for): lets the solver
// decide the SAME template arithmetic of parallel_for_impl / parallel_for_body_wrapper exhaustively at a width where a
// symbolic divisor is tractable (VP_W=8 quick, 16 thorough).  All operations wrap modulo 2^W like a built-in unsigned type.
#ifndef VP_W
#define VP_W 8
#endif
struct widx {
  u64 v;
  static constexpr u64 M = (1ul << VP_W) - 1;
  widx() : v(0) {}
  widx(int x) : v((u64)(i64)x & M) {}
  explicit widx(u64 x) : v(x & M) {}
  explicit operator u64() const { return v; }
  friend bool operator<(const widx& a, const widx& b) { return a.v < b.v; }
  friend bool operator<=(const widx& a, int b) { return (i64)a.v <= (i64)b; }
  friend widx operator-(const widx& a, const widx& b) { return widx(a.v - b.v); }
  friend widx operator-(const widx& a, u64 b) { return widx(a.v - b); }
  friend widx operator+(const widx& a, const widx& b) { return widx(a.v + b.v); }
  friend widx operator*(const widx& a, const widx& b) { return widx(a.v * b.v); }
  friend widx operator/(const widx& a, const widx& b) { return widx(a.v / b.v); }
  widx& operator+=(const widx& b) { v = (v + b.v) & M; return *this; }
  widx& operator++() { v = (v + 1) & M; return *this; }
};
struct visit_w { void operator()(widx k) const { vp_visit((i64)k.v); } };
namespace vpns {
template <class Body> void parallel_for(const tbb::blocked_range<widx>& r, const Body& body, rec_partitioner&) {
  u64 cb = 0, ce = 0; vp_loop(r.begin().v, r.end().v, r.grainsize(), &cb, &ce);
  if (cb != ce) body(tbb::blocked_range<widx>(widx(cb), widx(ce)));
}
}
extern "C" {
unsigned vp_widx_bits() { return VP_W; }
void vp_strided_w(u64 first, u64 last, u64 step, int with_ctx) {
  vpns::rec_partitioner p; visit_w f;
  if (with_ctx) detail::d1::parallel_for_impl<widx, visit_w, vpns::rec_partitioner>(widx(first), widx(last), widx(step), f, p, *(tbb::task_group_context*)fake_ctx);
  else detail::d1::parallel_for_impl<widx, visit_w, vpns::rec_partitioner>(widx(first), widx(last), widx(step), f, p);
}
}

// ---- translator validation vectors (float/double code in particular) ------------------------------------
extern "C" void vp_selftest() {
  i64 o[24];
  u64 sizes[] = {2, 3, 4, 5, 7, 8, 9, 15, 16, 17, 100, 1000, 16777215ul, 16777216ul, 16777217ul, 16777219ul, 33554433ul, 4294967295ul, 4294967296ul,
                 4294967297ul, 1ul << 53, (1ul << 53) + 1, 0x7ffffffffffffffful, 0x8000000000000000ul, 0xfffffffffffffffful, 0xffffff7ffffffffful, 0xffffff8000000000ul};
  u64 props[][2] = {{1, 1}, {2, 1}, {2, 2}, {3, 2}, {3, 3}, {4, 3}, {7, 6}, {64, 63}, {1000, 999}, {1, 3}, {5, 1}};
  for (u64 s : sizes) {
    u64 begins[] = {0, 1, 0xfffffffffffffffful - s};
    for (u64 b : begins) {
      if (b + s < b) continue;
      split1<u64>(b, b + s, 1, o); for (int i = 0; i < 10; i++) vp_emit(o[i]);
      for (auto& p : props) { psplit1<u64>(b, b + s, 1, p[0], p[1], o); for (int i = 0; i < 10; i++) vp_emit(o[i]); }
    }
    if (s <= 0x7ffffffful) {
      int ib[] = {0, -5, (int)(0x7fffffff - s), (int)(-0x7fffffff - 1)};
      for (int b : ib) {
        if ((i64)b + (i64)s > 0x7fffffffl) continue;
        split1<int>(b, (int)(b + (i64)s), 1, o); for (int i = 0; i < 10; i++) vp_emit(o[i]);
        for (auto& p : props) { psplit1<int>(b, (int)(b + (i64)s), 1, p[0], p[1], o); for (int i = 0; i < 10; i++) vp_emit(o[i]); }
      }
    }
  }
  // dimension choice (double products)
  u64 ds[] = {1, 2, 3, 5, 1000, (1ul << 53) - 1, 1ul << 53, (1ul << 53) + 1, (1ul << 53) + 2, 1ul << 63, 0xfffffffffffffffful};
  for (u64 a : ds) for (u64 b : ds) for (u64 ga : {1ul, 2ul, 1ul << 53, (1ul << 53) + 1}) for (u64 gb : {1ul, 3ul, 1ul << 53}) {
    i64 d[9] = {0, (i64)a, (i64)ga, 7, (i64)(7 + b), (i64)gb, 1, 4, 2};
    if (7 + b < 7) continue;
    if (!vp_div2_u64(d)) { vp_emit(77); continue; }
    vp_split2_u64(d, o); for (int i = 0; i < 12; i++) vp_emit(o[i]);
    vp_psplit2_u64(d, 2, 1, o); for (int i = 0; i < 12; i++) vp_emit(o[i]);
    vp_split3_u64(d, o); for (int i = 0; i < 18; i++) vp_emit(o[i]);
    vp_splitn3_u64(d, o); for (int i = 0; i < 18; i++) vp_emit(o[i]);
  }
}

// C05 finding (found by the rangend harness, full-width query): blocked_range2d / 3d / nd_range pick the dimension to split
// by comparing  rows.size()*double(cols.grainsize()) < cols.size()*double(rows.grainsize())  in double arithmetic.
// For sizes/grains >= 2^53 the rounding can turn a strict inequality into equality, and then a dimension that is NOT
// divisible (size <= grainsize) is split.  With size 1 the left part is EMPTY and the right part is the whole range again:
//   - the "divisible" range never shrinks: simple_partitioner splits it forever (unbounded task creation, no body call ever
//     makes progress) -> parallel_for does not terminate;
//   - auto_partitioner hands empty subranges to the body.
// Build:  g++ -std=c++17 -O1 -I/repo/include repro_range2d_nondivisible_split.cpp -L/repo/_build/gnu_12.2_cxx11_64_relwithdebinfo -ltbb -o repro
// Run:    LD_LIBRARY_PATH=/repo/_build/gnu_12.2_cxx11_64_relwithdebinfo ./repro        (exit 1 = defect reproduced)
//         ... ./repro loop   additionally runs the real parallel_for with simple_partitioner under a 5 s watchdog / task cap.
#include <oneapi/tbb/blocked_range2d.h>
#include <oneapi/tbb/parallel_for.h>
#include <oneapi/tbb/global_control.h>
#include <atomic>
#include <cstdio>
#include <cstdlib>
#include <cstring>
#include <unistd.h>
typedef tbb::blocked_range2d<std::size_t, std::size_t> R2;
static std::atomic<unsigned long> calls{0}, empties{0};
int main(int argc, char** argv) {
  const std::size_t big = ~std::size_t(0) - 1022;            // 2^64-1023 columns
  R2 whole(0, 1, 1, 0, big, big - 1);                        // 1 row (grain 1: not divisible), cols divisible (size = grain+1)
  std::printf("is_divisible=%d rows.is_divisible=%d cols.is_divisible=%d\n", whole.is_divisible(), whole.rows().is_divisible(), whole.cols().is_divisible());
  R2 left(whole);
  R2 right(left, tbb::split());
  std::printf("left : rows [%zu,%zu) cols [%zu,%zu) empty=%d\n", left.rows().begin(), left.rows().end(), left.cols().begin(), left.cols().end(), left.empty());
  std::printf("right: rows [%zu,%zu) cols [%zu,%zu) empty=%d still divisible=%d\n", right.rows().begin(), right.rows().end(), right.cols().begin(), right.cols().end(), right.empty(), right.is_divisible());
  int bad = left.empty() || right.empty();
  if (bad) std::printf("DEFECT: splitting a non-empty divisible blocked_range2d produced an empty part (the non-divisible row dimension was cut)\n");
  if (argc > 1 && !std::strcmp(argv[1], "loop")) {
    tbb::global_control gc(tbb::global_control::max_allowed_parallelism, 2);
    alarm(5);   // SIGALRM kills the process if parallel_for does not return
    std::printf("running parallel_for(simple_partitioner) - expected to finish after 2 body calls; watchdog 5 s\n"); std::fflush(stdout);
    tbb::parallel_for(whole, [&](const R2& r) {
      unsigned long c = ++calls;
      if (r.empty()) ++empties;
      if (c == 1000000) { std::printf("DEFECT: body called %lu times (%lu with an empty subrange) and the loop is still splitting\n", c, empties.load()); std::fflush(stdout); _exit(1); }
    }, tbb::simple_partitioner());
    std::printf("parallel_for returned after %lu body calls\n", calls.load());
  }
  return bad;
}

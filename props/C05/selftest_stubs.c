/* harness-side observers referenced by the wrappers; no-ops for the translator selftest */
typedef unsigned long u64;
void vp_on_split(u64 kind, u64 left, u64 right, u64 divisible) {}
void vp_visit(u64 k) {}
void vp_loop(u64 begin, u64 end, u64 grain, u64* cb, u64* ce) { *cb = *ce = 0; }
void vp_body(u64 b, u64 e) {}

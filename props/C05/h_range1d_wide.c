/* C05 / range1d_wide: blocked_range<int|long> split ctor when the range holds MORE elements than the signed Value type can
 * count (end-begin wraps in Value arithmetic, e.g. blocked_range<int>(-1500000000, 1500000000)): such a range is legal and
 * divisible.  For EVERY begin<end (no representability assumption), grainsize>=1, with the REAL is_divisible() assumed:
 *   left = [begin,m), right = [m,end), begin < m < end as values, both non-empty, grain kept, sizes (computed here in
 *   64/128-bit) add up; if the true size exceeds the grainsize both halves are >= ceil(g/2).
 * TYPE 1: Value=int, TYPE 2: Value=long.  KIND 0: split, KIND 1: proportional_split(n-n/2, n/2), 2<=n<=NMAX. */
#include "w.h"
#include "vp.h"
typedef long long i64;
typedef __int128 i128;
void vp_visit(u64 k) { (void)k; }
int main(void) {
  u64 o[10];
  u64 g = vp_nd(); __CPROVER_assume(g >= 1);
#if TYPE == 1
  int b = (int)vp_nd(), e = (int)vp_nd();
  #define DIV() vp_div_i32(b, e, g)
  #define SPLIT() vp_split_i32(b, e, g, o)
  #define PSPLIT(l, r) vp_psplit_i32(b, e, g, l, r, o)
#else
  i64 b = (i64)vp_nd(), e = (i64)vp_nd();
  #define DIV() vp_div_i64(b, e, g)
  #define SPLIT() vp_split_i64(b, e, g, o)
  #define PSPLIT(l, r) vp_psplit_i64(b, e, g, l, r, o)
#endif
  __CPROVER_assume(b < e);
#ifdef ONLYWIDE   /* only ranges whose element count does not fit the signed type */
  __CPROVER_assume((i128)e - (i128)b > (TYPE == 1 ? (i128)0x7fffffff : (i128)0x7fffffffffffffffll));
#endif
  i128 B = b, E = e, size = E - B;
  __CPROVER_assume(DIV());
#if KIND == 0
  SPLIT();
#else
  u64 n = vp_nd(); __CPROVER_assume(n >= 2 && n <= NMAX);
  u64 right = n / 2, left = n - right;
  PSPLIT(left, right);
#endif
  i128 lb = (i64)o[0], le = (i64)o[1], rb = (i64)o[3], re = (i64)o[4];
  VP_ASSERT(lb == B, "split moved the begin of the left part");
  VP_ASSERT(re == E, "split moved the end of the right part");
  VP_ASSERT(le == rb, "parts not adjacent: left.end != right.begin (gap or overlap)");
  VP_ASSERT(B < le && le < E, "split point not strictly inside (begin,end): a part is empty or inverted");
  VP_ASSERT(!o[6] && !o[7], "a part reports empty()");
  VP_ASSERT(o[2] == g && o[5] == g, "grainsize not preserved by the split");
  VP_ASSERT((le - lb) + (re - rb) == size && le - lb >= 1 && re - rb >= 1, "sizes of the parts do not add up to the original size");
#if KIND == 0
  i128 half = (i128)(g / 2 + (g & 1));
  if (size > (i128)g) VP_ASSERT(le - lb >= half && re - rb >= half, "even split of a divisible range produced a part smaller than ceil(grainsize/2)");
#endif
  VP_REACHED();
}

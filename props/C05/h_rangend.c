/* C05 / rangend: dimension choice + split of blocked_range2d / blocked_range3d / blocked_nd_range<.,3> at full width.
 * For EVERY non-empty, divisible (per the REAL is_divisible()) multi-dimensional range and both split kinds:
 *   exactly one dimension is cut, that dimension was itself divisible (size>grain), its two parts are non-empty, adjacent
 *   and cover it; every other dimension is identical in both parts; grains kept.
 * SHAPE 2: blocked_range2d, 3: blocked_range3d, 4: blocked_nd_range<V,3>.  KIND 0: split, 1: proportional_split(n-n/2,n/2).
 * TYPE 0: Value=size_t, 1: Value=int (2d even split only).  LIMIT: sizes and grainsizes are < 2^LIMIT (64 = unrestricted);
 * GLIMIT / G0..G2: optional bound / concrete values for the grainsizes; NMIN..NMAX: range of n for the proportion. */
#include "w.h"
#include "vp.h"
typedef long long i64;
#ifndef TYPE
#define TYPE 0
#endif
#if TYPE == 1
#define LT(x, y) ((i64)(x) < (i64)(y))
#else
#define LT(x, y) ((u64)(x) < (u64)(y))
#endif
#ifndef NMIN
#define NMIN 2
#endif
void vp_visit(u64 k) { (void)k; }
#if SHAPE == 2
#define ND 2
#else
#define ND 3
#endif
int main(void) {
  u64 d[9], o[18];
  u64 sz[3], gr[3];
  for (int k = 0; k < 3; k++) {
#if TYPE == 1   /* Value=int: sign-extended in d[]; documented precondition: end-begin representable */
    i64 bi = (int)vp_nd(), ei = (int)vp_nd(); u64 g = vp_nd();
    __CPROVER_assume(bi < ei && ei - bi <= 0x7fffffffl && g >= 1);
    u64 b = (u64)bi, e = (u64)ei;
#else
    u64 b = vp_nd(), e = vp_nd(), g = vp_nd();
    __CPROVER_assume(b < e && g >= 1);
#endif
#if LIMIT < 64
    __CPROVER_assume(e - b < (1ul << LIMIT) && g < (1ul << LIMIT));
#endif
#ifdef GLIMIT
    __CPROVER_assume(g <= GLIMIT);
#endif
#ifdef G0
    { static const u64 cg[3] = { G0, G1, G2 }; __CPROVER_assume(g == cg[k]); }
#endif
    d[3 * k] = b; d[3 * k + 1] = e; d[3 * k + 2] = g; sz[k] = e - b; gr[k] = g;
  }
  int anydiv = 0;
  for (int k = 0; k < ND; k++) anydiv |= sz[k] > gr[k];
#if SHAPE == 2 && TYPE == 1
  int div = vp_div2_i32(d);
#elif SHAPE == 2
  VP_ASSERT(!vp_empty2_u64(d), "non-empty 2d range reported empty");
  int div = vp_div2_u64(d);
#elif SHAPE == 3
  VP_ASSERT(!vp_empty3_u64(d), "non-empty 3d range reported empty");
  int div = vp_div3_u64(d);
#else
  VP_ASSERT(!vp_emptyn3_u64(d), "non-empty nd range reported empty");
  int div = vp_divn3_u64(d);
#endif
  VP_ASSERT(div == anydiv, "is_divisible() differs from 'some dimension is divisible'");
  __CPROVER_assume(div);
#if KIND == 1
  u64 n = vp_nd(); __CPROVER_assume(n >= NMIN && n <= NMAX);
  u64 right = n / 2, left = n - right;
#endif
#if SHAPE == 2 && KIND == 0 && TYPE == 1
  vp_split2_i32(d, o);
#elif SHAPE == 2 && KIND == 0
  vp_split2_u64(d, o);
#elif SHAPE == 2
  vp_psplit2_u64(d, left, right, o);
#elif SHAPE == 3 && KIND == 0
  vp_split3_u64(d, o);
#elif SHAPE == 3
  vp_psplit3_u64(d, left, right, o);
#elif KIND == 0
  vp_splitn3_u64(d, o);
#else
  vp_psplitn3_u64(d, left, right, o);
#endif
  u64* L = o; u64* R = o + 3 * ND;
  int ncut = 0;
  for (int k = 0; k < ND; k++) {
    u64 b = d[3 * k], e = d[3 * k + 1], g = d[3 * k + 2];
    VP_ASSERT(L[3 * k + 2] == g && R[3 * k + 2] == g, "grainsize of a dimension changed by the split");
    VP_ASSERT(L[3 * k] == b && R[3 * k + 1] == e, "outer bounds of a dimension changed by the split");
    int same = L[3 * k + 1] == e && R[3 * k] == b;
    if (!same) {
      ncut++;
      VP_ASSERT(L[3 * k + 1] == R[3 * k], "cut dimension: parts not adjacent (gap or overlap)");
      VP_ASSERT(LT(b, L[3 * k + 1]) && LT(R[3 * k], e), "cut dimension: a part is empty");
      VP_ASSERT(sz[k] > g, "a dimension that is not divisible (size<=grainsize) was split");
    }
  }
  /* "same" in every dimension would mean one part is the whole range and the other a duplicate */
  VP_ASSERT(ncut == 1, "split did not cut exactly one dimension (duplicate or lost iterations)");
  VP_REACHED();
}

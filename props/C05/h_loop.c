/* C05 / taskstep + loop: the REAL start_for<Range,Body,Partitioner>::execute (partition_type_base::execute, work_balance,
 * range_vector, offer_work, finalize/fold_tree) of ONE partitioner per unit, with the r1:: scheduler entry points stubbed by
 * this file ("task bag" model, DESIGN 3.4): spawned tasks go into a bag; tasks run one at a time, atomically.
 *
 * ROOT=0 "task step lemma" (inductive step, any history): ONE task in an ARBITRARY state satisfying the representation
 *   invariant INV of its partition type, any non-empty range with size <= grainsize*2^K (that bounds the loops; begin, end,
 *   grainsize are otherwise full 64-bit), symbolic execution_data (stolen or not, affinity or not), parent ref count 1|2, and
 *   the "peer was stolen" flag of the current parent flipping at any spawn / body call.  Conservation oracle:
 *     the chunks given to the body and the ranges of the tasks spawned by this task are all non-empty, pairwise disjoint and
 *     together exactly the task's range; no range is split unless it is divisible; spawned tasks keep the grainsize and satisfy
 *     INV again; every proportional split handed to a range is (n-n/2, n/2), n>=2 (the family range1d decides); simple
 *     partitioner: every chunk is <= grainsize and every chunk / spawned range is >= ceil(grainsize/2) when the task's was.
 *   By induction over the task tree (each spawned task is executed exactly once: property C01) the loop applies the body
 *   exactly once to every element, for every range size, grain, concurrency and steal pattern.
 * ROOT=1 "whole loop": the real parallel_for() call; execute_and_wait below runs the bag to completion taking the newest or
 *   the oldest task (solver's choice) with a symbolic executing slot; small ranges; per-chunk conservation, all memory released,
 *   wait_context released exactly once, after the last task. */
#include "w.h"
#include "vp.h"
typedef struct S_class_tbb__detail__d1__task task_t;
typedef struct S_class_tbb__detail__d1__task_group_context ctx_t;
typedef struct S_struct_tbb__detail__d1__execution_data ed_t;
#ifndef K
#define K 2
#endif
#ifndef P
#define P 2          /* max_concurrency of the arena (concrete per query) */
#endif
#ifndef MAXC
#define MAXC ((2 << K) + 2)
#endif
#define FACTOR 16    /* affinity_partition_type::factor */
static u64 R_b[MAXC], R_e[MAXC]; static u8 R_kind[MAXC]; static int nR;   /* pieces: kind 0 body chunk, 1 spawned task */
static task_t* bag[MAXC]; static int nbag, nspawn;
static task_t* cur_task; static u16 cur_slot, cur_thread;
static int nalloc, nfree, nnotify;
static u64 G;        /* grainsize of the loop */
static int psplit_seen, last_kind; static u64 prev_div;   /* divisor of the running task before its latest split */

/* an oracle violation ends the path (the counterexample is complete at that point): keeps a defect that also makes a loop run
   on (e.g. the same piece offered again and again) from being masked by the unwinding bound */
#define VP_CHECK(c, msg) do { VP_ASSERT(c, msg); __CPROVER_assume(c); } while (0)
static u64 TB, TE;    /* range of the task being executed (ROOT=0/2) or of the loop (ROOT=1) */
static void piece(u64 b, u64 e, int kind) {
  VP_CHECK(b < e, "empty piece (empty chunk given to the body / task with an empty range spawned)");
  VP_CHECK(TB <= b && e <= TE, "piece outside the task's range (body applied outside the iteration space)");
#if ROOT != 1
  for (int j = 0; j < MAXC; j++) if (j < nR) VP_CHECK(e <= R_b[j] || R_e[j] <= b, "two pieces overlap (an element would be processed twice)");
#endif
  VP_CHECK(nR < MAXC, "more pieces than the harness bound (bound too small, not a defect)");
  R_b[nR] = b; R_e[nR] = e; R_kind[nR] = (u8)kind; nR++;
}
static void maybe_steal_flag(void) {   /* a thief that took the sibling may mark the common parent at any time */
#if PART == 1 || PART == 3
  if (cur_task && vp_nd_bool()) vp_set_peer_stolen(cur_task, 1);
#endif
}
void vp_body(u64 b, u64 e) {
  piece(b, e, 0);
  maybe_steal_flag();
}
void vp_on_split(u64 kind, u64 left, u64 right, u64 divisible) {
  VP_CHECK(divisible, "a range that is not divisible was split");
  last_kind = (int)kind;
  if (kind == 1) {
    psplit_seen = 1;
    VP_CHECK(right >= 1 && left >= right && left - right <= 1, "partitioner produced a proportion outside (n-n/2, n/2), n>=2: right part may be empty / unbalanced");
  }
}
/* ---- r1:: boundary ---- */
static u8 dummy_pool[8];
u8* _ZN3tbb6detail2r18allocateERPNS0_2d117small_object_poolEm(struct S_class_tbb__detail__d1__small_object_pool** pool, u64 n) {
  u8* p = malloc(n); __CPROVER_assume(p != 0); *pool = (struct S_class_tbb__detail__d1__small_object_pool*)dummy_pool; nalloc++; return p;
}
u8* _ZN3tbb6detail2r18allocateERPNS0_2d117small_object_poolEmRKNS2_14execution_dataE(struct S_class_tbb__detail__d1__small_object_pool** pool, u64 n, ed_t* ed) {
  return _ZN3tbb6detail2r18allocateERPNS0_2d117small_object_poolEm(pool, n);
}
void _ZN3tbb6detail2r110deallocateERNS0_2d117small_object_poolEPvmRKNS2_14execution_dataE(struct S_class_tbb__detail__d1__small_object_pool* pool, u8* p, u64 n, ed_t* ed) {
  VP_ASSERT((u8*)pool == dummy_pool, "deallocate with a pool that did not come from allocate");
  nfree++; free(p);
}
void _ZN3tbb6detail2r110initializeERNS0_2d118task_group_contextE(ctx_t* c) {}
void _ZN3tbb6detail2r17destroyERNS0_2d118task_group_contextE(ctx_t* c) {}
void _ZN3tbb6detail2r114notify_waitersEm(u64 a) { nnotify++; }
u16 _ZN3tbb6detail2r114execution_slotEPKNS0_2d114execution_dataE(ed_t* ed) { return ed ? cur_slot : cur_thread; }
#if PART >= 1
u32 _ZN3tbb6detail2r115max_concurrencyEPKNS0_2d115task_arena_baseE(struct S_class_tbb__detail__d1__task_arena_base* a) { return P; }
#endif
#if PART == 1 || PART == 3
u8 _ZN3tbb6detail2r128is_group_execution_cancelledERNS0_2d118task_group_contextE(ctx_t* c) { return 0; }   /* "the loop completes normally" */
#endif
#if PART == 3
u8* _ZN3tbb6detail2r122cache_aligned_allocateEm(u64 n) { u8* p = malloc(n); __CPROVER_assume(p != 0); return p; }
void _ZN3tbb6detail2r124cache_aligned_deallocateEPv(u8* p) { free(p); }
#endif
static void on_spawn(task_t* t, int has_id, u16 id) {
  u64 r[3]; vp_task_range(t, r);
  VP_CHECK(r[2] == G, "spawned task's range has a different grainsize");
  piece(r[0], r[1], 1);
  VP_CHECK(nbag < MAXC, "more spawned tasks than the harness bound (bound too small, not a defect)");
  bag[nbag++] = t;
  nspawn++;
#if PART == 2
  VP_CHECK(has_id && id < P, "static partitioner: task not mailed to a slot inside the arena (my_head >= my_max_affinity)");
#endif
#if PART >= 2
  if (cur_task) {   /* proportional split of the partition: the two portions are the previous divisor, none is lost or invented */
    u64 qp[5], qc[5]; vp_task_part(cur_task, qp); vp_task_part(t, qc);
    if (last_kind == 1) VP_CHECK(qp[0] + qc[0] == prev_div && qc[0] >= 1 && qp[0] >= 1, "proportional split: portions do not sum to the previous divisor / a portion is 0 (divisor underflow)");
    prev_div = qp[0];
  }
#endif
  maybe_steal_flag();
}
void _ZN3tbb6detail2r15spawnERNS0_2d14taskERNS2_18task_group_contextE(task_t* t, ctx_t* c) { on_spawn(t, 0, 0); }
#if PART >= 2
void _ZN3tbb6detail2r15spawnERNS0_2d14taskERNS2_18task_group_contextEt(task_t* t, ctx_t* c, u16 id) { on_spawn(t, 1, id); }
#endif

/* representation invariant of the partition state, o = {divisor, head, max_affinity, delay, max_depth} */
static int inv_part(const u64* o) {
#if PART == 0
  return 1;
#elif PART == 1
  return o[3] <= 2 && o[4] <= 255;                                                    /* any divisor, delay, depth */
#elif PART == 2
  return o[2] == P && o[0] >= 1 && o[0] <= o[2] && o[1] < o[2];                         /* 1 <= divisor <= P, head < P */
#else
  return o[2] == (u64)P * FACTOR && o[0] <= o[2] && o[1] < o[2] && (o[0] <= FACTOR || (o[0] & (FACTOR - 1)) == 0) && o[3] <= 2 && o[4] <= 255;
#endif
}
static void run_one(task_t* t, ctx_t* c) {
  ed_t ed;
  cur_slot = (u16)vp_nd(); __CPROVER_assume(cur_slot < P);
  u16 orig = (u16)vp_nd(); __CPROVER_assume(orig < P);                                  /* original slot: == cur_slot or not (stolen) */
  u16 aff = (u16)vp_nd(); __CPROVER_assume(aff < P || aff == 0xffff);                   /* affinity slot or no_slot */
  vp_ed_set(&ed, c, orig, aff);
  cur_task = t;
  { u64 q0[5]; vp_task_part(t, q0); prev_div = q0[0]; }
  vp_task_execute(t, &ed);
  cur_task = 0;
}
static void check_partition_of(u64 b, u64 e) {
  /* pieces are non-empty subranges of [b,e), pairwise disjoint, sizes add up to e-b  =>  they tile [b,e) exactly */
  u64 sum = 0;
  for (int i = 0; i < MAXC; i++) if (i < nR) {
    VP_ASSERT(R_b[i] < R_e[i], "empty piece");
    VP_ASSERT(b <= R_b[i] && R_e[i] <= e, "piece outside the task's range (body applied outside the iteration space)");
#if ROOT == 1   /* (ROOT 0/2: already checked piece by piece) */
    for (int j = 0; j < i; j++) VP_ASSERT(R_e[i] <= R_b[j] || R_e[j] <= R_b[i], "two pieces overlap (an element would be processed twice)");
#endif
    sum += R_e[i] - R_b[i];
  }
  VP_ASSERT(sum == e - b, "pieces do not cover the range (an element would be skipped)");
}
#if ROOT == 2
/* base case of the induction: the REAL parallel_for() builds the root task; check that it owns the whole range and that its
   partition state satisfies INV, then run this one task (children stay in the bag) */
static u64 LB, LE; static int root_seen;
void _ZN3tbb6detail2r116execute_and_waitERNS0_2d14taskERNS2_18task_group_contextERNS2_12wait_contextES6_(task_t* t, ctx_t* c, struct S_class_tbb__detail__d1__wait_context* w, ctx_t* wc) {
  u64 r[3], q[5]; vp_task_range(t, r); vp_task_part(t, q);
  root_seen++;
  VP_ASSERT(r[0] == LB && r[1] == LE && r[2] == G, "root task does not own the whole iteration space");
  VP_ASSERT(inv_part(q), "root task's partition state violates the invariant assumed by the task step lemma");
  VP_ASSERT(c == wc, "task context and wait context differ");
  run_one(t, c);
}
#elif ROOT == 1
static u64 LB, LE;
void _ZN3tbb6detail2r116execute_and_waitERNS0_2d14taskERNS2_18task_group_contextERNS2_12wait_contextES6_(task_t* t, ctx_t* c, struct S_class_tbb__detail__d1__wait_context* w, ctx_t* wc) {
  bag[0] = t; nbag = 1;
  for (int step = 0; step < MAXT; step++) if (nbag > 0) {
    VP_ASSERT(nnotify == 0, "wait released while tasks are still pending");
#ifdef ORDER
    int k = ((ORDER >> step) & 1) ? nbag - 1 : 0;   /* owner-like (newest) or thief-like (oldest): concrete per query */
#else
    int k = vp_nd_bool() ? nbag - 1 : 0;            /* owner-like (newest) or thief-like (oldest) */
#endif
    task_t* x = bag[k];
    for (int i = 0; i < MAXC - 1; i++) if (i >= k && i < nbag - 1) bag[i] = bag[i + 1];
    nbag--;
    run_one(x, c);
  }
  VP_ASSERT(nbag == 0, "bag not empty after MAXT task executions (bound too small, not a defect)");
}
#else
void _ZN3tbb6detail2r116execute_and_waitERNS0_2d14taskERNS2_18task_group_contextERNS2_12wait_contextES6_(task_t* t, ctx_t* c, struct S_class_tbb__detail__d1__wait_context* w, ctx_t* wc) { VP_ASSERT(0, "unused"); }
#endif

int main(void) {
  VP_ASSERT(vp_part() == PART, "unit/scenario mismatch");
  cur_thread = (u16)vp_nd(); __CPROVER_assume(cur_thread < P);
  u64 b = vp_nd(), e = vp_nd(), g = vp_nd();
  __CPROVER_assume(g >= 1);
  G = g;
#if ROOT == 2
  __CPROVER_assume(b <= e && (b == e || ((e - b - 1) >> K) < g));   /* empty, or 1 <= size <= grainsize * 2^K */
#ifdef GFIX
  __CPROVER_assume(g == GFIX && b == BFIX);
#endif
  LB = b; LE = e; TB = b; TE = e;
  vp_run(b, e, g);
  if (b == e) {
    VP_ASSERT(nR == 0 && nalloc == 0 && root_seen == 0, "empty range: body called / task created");
  } else {
    VP_ASSERT(root_seen == 1, "non-empty range: not exactly one root task handed to execute_and_wait");
    check_partition_of(b, e);
    for (int i = 0; i < MAXC; i++) if (i < nbag) {
      u64 q[5]; vp_task_part(bag[i], q);
      VP_ASSERT(inv_part(q), "spawned task's partition state violates the invariant (divisor underflow / head out of range / divisor not a multiple of factor)");
    }
    VP_ASSERT(nnotify == (nspawn == 0), "wait released although children are pending / not released by the last task");
  }
#elif ROOT == 1
  /* whole loop; the range may be empty */
  __CPROVER_assume(b <= e && e - b <= NMAX);
#ifdef GFIX
  __CPROVER_assume(g == GFIX);
#endif
#ifdef BFIX
  __CPROVER_assume(b == BFIX);
#endif
  LB = b; LE = e; TB = b; TE = e;
  vp_run(b, e, g);
  if (b == e) {
    VP_ASSERT(nR == 0 && nalloc == 0, "empty range: body called / task created");
  } else {
    /* keep only body chunks: every spawned task has been executed */
    int n = 0;
    for (int i = 0; i < MAXC; i++) if (i < nR && R_kind[i] == 0) { R_b[n] = R_b[i]; R_e[n] = R_e[i]; n++; }
    nR = n;
    check_partition_of(b, e);
    VP_ASSERT(nnotify == 1, "wait_context not released exactly once");
    VP_ASSERT(nalloc == nfree, "a task or tree node was not released");
#if PART == 0
    for (int i = 0; i < MAXC; i++) if (i < nR) {
      VP_ASSERT(R_e[i] - R_b[i] <= g || e - b <= g, "simple_partitioner: chunk larger than the grainsize");
      VP_ASSERT(R_e[i] - R_b[i] >= g / 2 + (g & 1) || e - b < g / 2 + (g & 1), "simple_partitioner: chunk smaller than ceil(grainsize/2)");
    }
#endif
  }
#else
  __CPROVER_assume(b < e && ((e - b - 1) >> K) < g);       /* 1 <= size <= grainsize * 2^K */
#ifdef GFIX            /* "deep" scenarios: concrete begin and grainsize, symbolic size (the control logic is what is explored) */
  __CPROVER_assume(g == GFIX && b == BFIX);
#endif
  vp_ctx_init();
  int rc = vp_nd_bool() ? 2 : 1, st = vp_nd_bool();
  task_t* t = (task_t*)vp_task_make(b, e, g, rc, st);
  u64 o[5];
  o[0] = vp_nd(); o[1] = vp_nd(); o[2] = vp_nd(); o[3] = vp_nd(); o[4] = vp_nd();
  __CPROVER_assume(inv_part(o));
  vp_task_set_part(t, o);
  TB = b; TE = e;
  run_one(t, (ctx_t*)vp_ctx());
  check_partition_of(b, e);
  for (int i = 0; i < MAXC; i++) if (i < nbag) {
    u64 q[5]; vp_task_part(bag[i], q);
    VP_ASSERT(inv_part(q), "spawned task's partition state violates the invariant (divisor underflow / head out of range / divisor not a multiple of factor)");
  }
#if PART == 0
  u64 half = g / 2 + (g & 1);
  for (int i = 0; i < MAXC; i++) if (i < nR) {
    if (R_kind[i] == 0) VP_ASSERT(R_e[i] - R_b[i] <= g, "simple_partitioner: chunk larger than the grainsize");
    VP_ASSERT(R_e[i] - R_b[i] >= half || e - b < half, "simple_partitioner: piece smaller than ceil(grainsize/2)");
  }
#endif
  /* the executed task and nothing else of the pre-existing objects was released; with parent ref count 1 and no spawn the parent node too */
  VP_ASSERT(nfree >= 1, "executed task was not deallocated");
  VP_ASSERT(nnotify == (rc == 1 && nspawn == 0), "wait released although children are pending / not released by the last task");
#endif
  VP_REACHED();
}

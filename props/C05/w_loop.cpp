// C05 wrapper 2: the REAL parallel_for task machinery (start_for, partition types, range_vector, fold_tree) instantiated for ONE
// partitioner per translation unit (VP_PART: 0 simple, 1 auto, 2 static, 3 affinity).  The Range is a thin user range over the
// real blocked_range<size_t> (its splitting constructors delegate to the real ones and report the split to the harness), the
// Body reports the chunk it is given.  The r1:: entry points (allocate, spawn, execute_and_wait, execution_slot, ...) are the
// external boundary: they are defined by the harness (the "task bag" scheduler model, DESIGN 3.4).
#include "oneapi/tbb/parallel_for.h"
using namespace tbb;
using namespace tbb::detail;
typedef unsigned long u64;
extern "C" {
void vp_body(u64 b, u64 e);                       // body applied to [b,e)
void vp_on_split(u64 kind, u64 left, u64 right, u64 divisible);  // a range was split: kind 0 even, 1 proportional(left,right); was it divisible?
void vp_emit(unsigned long v);
}
struct vrange {
  blocked_range<u64> r;
  vrange(u64 b, u64 e, u64 g) : r(b, e, g) {}
  vrange(const vrange&) = default;
  bool empty() const { return r.empty(); }
  bool is_divisible() const { return r.is_divisible(); }
  static u64 note(vrange& o, u64 kind, u64 l, u64 rr) { vp_on_split(kind, l, rr, o.r.is_divisible()); return 0; }
  vrange(vrange& o, split s) : r((note(o, 0, 0, 0), o.r), s) {}
  vrange(vrange& o, proportional_split& p) : r((note(o, 1, p.left(), p.right()), o.r), p) {}
};
struct vbody { void operator()(const vrange& x) const { vp_body(x.r.begin(), x.r.end()); } };

#ifndef VP_PART
#define VP_PART 0
#endif
#if VP_PART == 0
typedef const simple_partitioner PT;
#elif VP_PART == 1
typedef const auto_partitioner PT;
#elif VP_PART == 2
typedef const static_partitioner PT;
#else
typedef affinity_partitioner PT;
#endif
typedef d1::start_for<vrange, vbody, PT> task_t;

extern "C" {
unsigned vp_part() { return VP_PART; }
unsigned vp_sizeof_task() { return sizeof(task_t); }
unsigned vp_sizeof_tree_node() { return sizeof(d1::tree_node); }
// the real top-level call: start_for::run (empty check, root task, wait_node, execute_and_wait -> harness)
void vp_run(u64 b, u64 e, u64 g) {
#if VP_PART == 3
  affinity_partitioner p;
  parallel_for(vrange(b, e, g), vbody(), p);
#else
  parallel_for(vrange(b, e, g), vbody(), PT());
#endif
}
// one task: execute (direct call of the real start_for::execute, no virtual dispatch needed: one task type per unit)
void vp_task_execute(d1::task* t, d1::execution_data* ed) { static_cast<task_t*>(t)->task_t::execute(*ed); }
void vp_ed_set(d1::execution_data* ed, task_group_context* c, unsigned short orig, unsigned short aff) { ed->context = c; ed->original_slot = orig; ed->affinity_slot = aff; }
void vp_task_range(d1::task* t, u64* o) { task_t* s = static_cast<task_t*>(t); o[0] = s->my_range.r.begin(); o[1] = s->my_range.r.end(); o[2] = s->my_range.r.grainsize(); }
// partition state accessors (white box): o = {divisor, head, max_affinity, delay, max_depth}
void vp_task_part(d1::task* t, u64* o) {
  task_t* s = static_cast<task_t*>(t); o[0] = o[1] = o[2] = o[3] = o[4] = 0; (void)s;
#if VP_PART >= 1
  o[0] = s->my_partition.my_divisor;
#endif
#if VP_PART >= 2
  o[1] = s->my_partition.my_head; o[2] = s->my_partition.my_max_affinity;
#endif
#if VP_PART == 1 || VP_PART == 3
  o[3] = (u64)s->my_partition.my_delay; o[4] = s->my_partition.my_max_depth;
#endif
}
void vp_task_set_part(d1::task* t, const u64* o) {
  task_t* s = static_cast<task_t*>(t); (void)s; (void)o;
#if VP_PART >= 1
  s->my_partition.my_divisor = o[0];
#endif
#if VP_PART >= 2
  s->my_partition.my_head = o[1]; s->my_partition.my_max_affinity = o[2];
#endif
#if VP_PART == 1 || VP_PART == 3
  s->my_partition.my_delay = (decltype(s->my_partition.my_delay))o[3]; s->my_partition.my_max_depth = (d1::depth_t)o[4];
#endif
}
// A non-root task in an arbitrary state: built with the real root constructor in harness memory, then range/partition fields
// are overwritten by the harness (vp_task_set_part); its parent is a real tree_node (ref count rc, stolen flag) under a real wait_node.
// typed static storage (a byte array accessed through a struct pointer costs cbmc a byte-level encoding of every access)
static union ctx_store { task_group_context v; ctx_store() {} ~ctx_store() {} } ctx_u;
static union wn_store { d1::wait_node v; wn_store() {} ~wn_store() {} } wn_u;
#define ctx_mem ((void*)&ctx_u.v)
#define wn_mem ((void*)&wn_u.v)
#if VP_PART == 3
static union ap_store { affinity_partitioner v; ap_store() {} ~ap_store() {} } ap_u;
#define ap_mem ((void*)&ap_u.v)
#endif
task_group_context* vp_ctx() { return (task_group_context*)ctx_mem; }
void vp_ctx_init() { new (ctx_mem) task_group_context(task_group_context::bound, task_group_context::default_traits); }
d1::task* vp_task_make(u64 b, u64 e, u64 g, int parent_rc, int parent_stolen) {
  d1::wait_node* wn = new (wn_mem) d1::wait_node();
  d1::small_object_allocator alloc{};
#if VP_PART == 3
  affinity_partitioner* ap = new (ap_mem) affinity_partitioner();
  task_t* t = alloc.new_object<task_t>(vrange(b, e, g), vbody(), *ap, alloc);
#else
  PT p;
  task_t* t = alloc.new_object<task_t>(vrange(b, e, g), vbody(), p, alloc);
#endif
  d1::small_object_allocator alloc2{};
  d1::tree_node* tn = alloc2.new_object<d1::tree_node>(wn, parent_rc, alloc2);
  tn->m_child_stolen.store(parent_stolen != 0, std::memory_order_relaxed);
  t->my_parent = tn;
  return t;
}
int vp_wait_count() { return (int)((d1::wait_node*)wn_mem)->m_wait.m_ref_count.load(std::memory_order_relaxed); }
void vp_set_peer_stolen(d1::task* t, int v) { static_cast<d1::tree_node*>(static_cast<task_t*>(t)->my_parent)->m_child_stolen.store(v != 0, std::memory_order_relaxed); }
void* vp_task_parent(d1::task* t) { return static_cast<task_t*>(t)->my_parent; }
}

/* C05 / strided: parallel_for(first,last,step,f) index arithmetic, REAL parallel_for_impl (plain and context flavour) + REAL
 * parallel_for_body_wrapper; TYPE 0: Index=size_t, 1: int, 2: long.   Signed types: documented precondition last-first
 * representable in Index.  Oracle (exact, in 128-bit arithmetic):
 *   - first>=last: no loop is started, f is never called;
 *   - otherwise exactly one loop over blocked_range(0,end), grainsize 1, with end == ceil((last-first)/step), i.e.
 *     first+(end-1)*step < last <= first+end*step;
 *   - for an arbitrary chunk [cb,ce) of [0,end) (ce-cb<=CH) the body wrapper calls f exactly ce-cb times, the j-th call with
 *     first+(cb+j)*step (exact value, inside [first,last)).
 * A symbolic 64-bit divisor/multiplier is beyond the SAT solver (no verdict in 10 min even for a 4-bit symbolic step when the
 * quotient is unbounded), so the input space is cut into two families, each decided completely:
 *   MODE 0: first,last,step ALL symbolic at full width, but the interval holds at most NIT grid points (any magnitude: steps up
 *           to the type maximum, first/last next to the wrap-around boundaries: this is where overflow defects live);
 *   MODE 1: step concrete per query (STEPFIX, enumerated by the runner), first,last symbolic at full width, any count. */
#include "w.h"
#include "vp.h"
typedef long long i64;
typedef __int128 i128;
#ifndef CH
#define CH 3
#endif
#ifndef NIT
#define NIT 4
#endif
static int nloops, nvis; static u64 L_end, L_cb, L_ce; static i64 vis[CH + 1];
void _ZN3tbb6detail2r115throw_exceptionENS0_2d012exception_idE(u32 id) { VP_ASSERT(0, "throw_exception reached although step>0"); }
void vp_loop(u64 begin, u64 end, u64 grain, u64* cb, u64* ce) {
  nloops++;
  VP_ASSERT(begin == 0 && grain == 1, "iteration space is not blocked_range(0,end) with default grainsize");
  L_end = end; L_cb = L_ce = 0;
#ifdef NOCHUNK
  return;
#endif
#if TYPE == 3
  u64 b = vp_nd() & ((1ul << vp_widx_bits()) - 1), n = vp_nd() & 3;
#elif MODE == 0
  u64 b = vp_nd() & 7, n = vp_nd() & 3;       /* chunk start/length: small symbolic (the space has <= NIT elements) */
#else
  u64 b = vp_nd(), n = vp_nd() & 3;           /* chunk anywhere in the space */
#endif
  __CPROVER_assume(n >= 1 && n <= CH);
#if TYPE == 0 || TYPE == 3
  if (!(end >= 1)) return;                    /* reported by main (E>=1) */
  __CPROVER_assume(b < end && n <= end - b);
#else
  if (!((i64)end >= 1)) return;
  __CPROVER_assume((i64)b >= 0 && (i64)b < (i64)end && (i64)n <= (i64)end - (i64)b);
#endif
  L_cb = *cb = b; L_ce = *ce = b + n;
}
void vp_visit(u64 k) { VP_ASSERT(nvis < CH, "body wrapper calls f more often than the chunk has elements"); if (nvis < CH) vis[nvis] = (i64)k; nvis++; }
#if MODE == 1
#define STEP_OF(x) (STEPFIX)
#else
#define STEP_OF(x) (x)
#endif
int main(void) {
  int ctx = CTX;   /* 0: parallel_for_impl(first,last,step,f,partitioner), 1: the task_group_context overload */
#if TYPE == 3     /* W-bit wrap-around index class (see w_range.cpp): every first,last,step of that width */
  u64 WM = (1ul << vp_widx_bits()) - 1;
  u64 first = vp_nd() & WM, last = vp_nd() & WM, step = vp_nd() & WM;
  #define W(x) ((i128)(unsigned __int128)(u64)(x))
#elif TYPE == 0
  u64 first = vp_nd(), last = vp_nd(), step = STEP_OF(vp_nd());
  #define W(x) ((i128)(unsigned __int128)(u64)(x))
#elif TYPE == 1
  int first = (int)vp_nd(), last = (int)vp_nd(), step = (int)STEP_OF(vp_nd());
  __CPROVER_assume((i64)last - (i64)first <= 0x7fffffffl);
  #define W(x) ((i128)(i64)(x))
#else
  i64 first = (i64)vp_nd(), last = (i64)vp_nd(), step = (i64)STEP_OF(vp_nd());
  __CPROVER_assume((i128)last - (i128)first <= (i128)0x7fffffffffffffffl);
  #define W(x) ((i128)(i64)(x))
#endif
  __CPROVER_assume(step > 0);
  int nonempty = first < last;
  i128 F = W(first), La = W(last), S = W(step);
#if MODE == 0
  __CPROVER_assume(F + (i128)NIT * S >= La);   /* at most NIT grid points in [first,last) */
#endif
#if TYPE == 3
  vp_strided_w(first, last, step, ctx);
  i128 E = W(L_end), CB = W(L_cb);
#elif TYPE == 0
  vp_strided_u64(first, last, step, ctx);
  i128 E = W(L_end), CB = W(L_cb);
#elif TYPE == 1
  vp_strided_i32(first, last, step, ctx);
  i128 E = (i128)(i64)L_end, CB = (i128)(i64)L_cb;
#else
  vp_strided_i64(first, last, step, ctx);
  i128 E = (i128)(i64)L_end, CB = (i128)(i64)L_cb;
#endif
  if (!nonempty) {
    VP_ASSERT(nloops == 0 && nvis == 0, "empty index interval: a loop was started / f was called");
  } else {
    VP_ASSERT(nloops == 1, "non-empty index interval: not exactly one loop started");
    VP_ASSERT(E >= 1, "non-empty index interval mapped to an empty iteration space");
#if MODE == 0
    /* exact count by walking the grid with concrete multipliers */
    i128 cnt = 0;
    for (int j = 0; j < NIT; j++) if (F + (i128)j * S < La) cnt = j + 1;
    VP_ASSERT(E == cnt, "iteration count differs from the number of grid points first+i*step < last");
    VP_ASSERT((u64)nvis == L_ce - L_cb, "body wrapper did not call f once per element of the chunk");
    for (int j = 0; j < CH; j++) if (j < nvis) {
      i128 want = -1;
      for (int i = 0; i < NIT; i++) if (CB + j == i) want = F + (i128)i * S;
      VP_ASSERT(want >= F && want < La, "index of a chunk element outside [first,last)");
      VP_ASSERT((i128)vis[j] == (TYPE == 0 || TYPE == 3 ? (i128)(i64)(u64)want : want), "f called with the wrong index (not first+i*step)");
    }
#else
#ifndef NOCOUNT
    VP_ASSERT(F + (E - 1) * S < La, "iteration count too large: last iteration's index is >= last (element outside the interval)");
    VP_ASSERT(F + E * S >= La, "iteration count too small: an index < last on the step grid is never visited");
#endif
    VP_ASSERT((u64)nvis == L_ce - L_cb, "body wrapper did not call f once per element of the chunk");
    for (int j = 0; j < CH; j++) if (j < nvis) {
      i128 want = F + (CB + j) * S;
      VP_ASSERT(want >= F && want < La, "index of a chunk element outside [first,last)");
      VP_ASSERT((i128)vis[j] == (TYPE == 0 || TYPE == 3 ? (i128)(i64)(u64)want : want), "f called with the wrong index (not first+i*step)");
    }
#endif
  }
  VP_REACHED();
}

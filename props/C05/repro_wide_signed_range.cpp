// C05 observation (range1d_wide harness): signed blocked_range holding more elements than the signed Value type can count
// (end-begin wraps in Value arithmetic; strictly speaking that subtraction is signed overflow in the user's Value type).
//  (a) blocked_range<int>: the EVEN split is fine (the `/ 2u` makes the difference unsigned), but size() sign-extends the wrapped
//      difference to ~2^64, so the PROPORTIONAL split (static/affinity partitioner) computes a right part of ~2^63 elements, which
//      truncates to 0: the right part is EMPTY and the left part is the whole range.
//  (b) blocked_range<long>: in the even split `(end-begin) / 2u` is a SIGNED division (2u converts to long), the wrapped negative
//      difference gives middle < begin: the left part is inverted, the right part larger than the range.
// Build: g++ -std=c++17 -O1 -I/repo/include repro_wide_signed_range.cpp -o repro_wide && ./repro_wide   (header-only; exit 1 = reproduced)
#include <oneapi/tbb/blocked_range.h>
#include <cstdio>
#include <climits>
int main() {
  int bad = 0;
  { tbb::blocked_range<int> l(-1500000000, 1500000000, 1); tbb::blocked_range<int> r(l, tbb::split());
    std::printf("int  even : left [%d,%d) right [%d,%d)\n", l.begin(), l.end(), r.begin(), r.end()); }
  { tbb::blocked_range<int> l(-1500000000, 1500000000, 1); tbb::proportional_split p(1, 1); tbb::blocked_range<int> r(l, p);
    std::printf("int  prop : left [%d,%d) right [%d,%d) right.empty=%d\n", l.begin(), l.end(), r.begin(), r.end(), r.empty()); bad |= r.empty() || l.empty(); }
  { tbb::blocked_range<long> l(LONG_MIN / 2 - 5, LONG_MAX / 2 + 5, 1); long b = l.begin(); tbb::blocked_range<long> r(l, tbb::split());
    std::printf("long even : left [%ld,%ld) right [%ld,%ld) left.empty=%d\n", l.begin(), l.end(), r.begin(), r.end(), l.empty()); bad |= l.empty() || r.begin() < b; }
  return bad;
}

#!/usr/bin/env python3
"""Runner: real oneTBB source --clang--> LLVM IR --opt--> IR' --ir2c--> C --cbmc--> verdict/trace --replay--> native.
One property = props/<ID>/spec.py (UNITS, HARNESSES). See DESIGN.md section 3."""
import os, sys, re, json, time, shutil, subprocess, resource, importlib.util, hashlib, itertools, threading
from concurrent.futures import ThreadPoolExecutor

VERIF = os.path.dirname(os.path.dirname(os.path.abspath(__file__)))
REPO = os.path.abspath(os.environ.get('VP_REPO', '/repo'))
# VP_REPO=<scratch copy> runs the same checks against another tree (mutation testing); its build, evidence and replay
# files are kept apart (.build/alt_<hash>/...) so that the registered evidence under evidence/ only ever describes /repo
ALT = None if REPO == '/repo' else hashlib.sha1(REPO.encode()).hexdigest()[:8]
OUTROOT = VERIF if ALT is None else os.path.join(VERIF, '.build', 'alt_' + ALT)
TOOLS = os.path.join(VERIF, 'tools')
RT = os.path.join(VERIF, 'rt')
GUARD = 'ONETBB_VERIF'
NCPU = int(os.environ.get('VP_JOBS', '16'))

CXX_BASE = ['clang++-14', '-std=c++17', '-O1', '-fno-access-control', '-fno-vectorize', '-fno-slp-vectorize',
            '-fno-unroll-loops', '-DNDEBUG', '-D' + GUARD, '-I' + REPO + '/include', '-I' + REPO, '-I' + RT, '-S', '-emit-llvm',
            '-mllvm', '-inline-threshold=100000', '-Wno-everything']
CBMC_BASE = ['--no-standard-checks', '--bounds-check', '--pointer-check', '--div-by-zero-check', '--undefined-shift-check',
             '--unwinding-assertions', '--no-malloc-may-fail', '--drop-unused-functions', '--verbosity', '8']

class Inconclusive(Exception):
    pass

def sh(cmd, cwd=None, timeout=600, env=None, mem_gb=None):
    def lim():
        if mem_gb:
            b = int(mem_gb * (1 << 30)); resource.setrlimit(resource.RLIMIT_AS, (b, b))
        os.setsid()
    t0 = time.time()
    p = subprocess.Popen(cmd, cwd=cwd, stdout=subprocess.PIPE, stderr=subprocess.STDOUT, env=env, preexec_fn=lim, text=True, errors='replace')
    try:
        out, _ = p.communicate(timeout=timeout)
        to = False
    except subprocess.TimeoutExpired:
        try: os.killpg(p.pid, 9)
        except Exception: pass
        out, _ = p.communicate(); to = True
    return p.returncode, out, time.time() - t0, to

def load_spec(pid):
    path = os.path.join(VERIF, 'props', pid, 'spec.py')
    sp = importlib.util.spec_from_file_location('spec_' + pid, path)
    m = importlib.util.module_from_spec(sp); sp.loader.exec_module(m)
    return m

# ------------------------------------------------------------------ unit build
_unit_lock = threading.Lock()
_unit_cache = {}

def unit_key(u):
    return hashlib.sha1(json.dumps(u, sort_keys=True).encode()).hexdigest()[:10]

def demangle(names):
    if not names: return []
    p = subprocess.run(['c++filt'], input='\n'.join(names), capture_output=True, text=True)
    return p.stdout.split('\n')[:len(names)]

def functions_reached(ll_text, entries):
    """call-graph reachability over an -O0 IR dump: which real functions does the wrapper pull in"""
    defs = {}
    cur = None
    for line in ll_text.split('\n'):
        m = re.match(r'define .*?@("[^"]+"|[-A-Za-z$._0-9]+)\(', line)
        if m:
            cur = m.group(1).strip('"'); defs[cur] = set(); continue
        if line == '}': cur = None; continue
        if cur is not None:
            for c in re.findall(r'@("[^"]+"|[-A-Za-z$._0-9]+)', line):
                defs[cur].add(c.strip('"'))
    seen = set(); stack = [e for e in entries if e in defs]
    while stack:
        f = stack.pop()
        if f in seen: continue
        seen.add(f)
        for c in defs[f]:
            if c in defs and c not in seen: stack.append(c)
    return sorted(seen)

def build_unit(pid, uname, u, bdir):
    """u: dict(wrapper, mode, cxxflags, threads{fn:[sfx]}, unroll, tso). returns dict(dir, summary, functions)"""
    key = uname + '_' + unit_key(u)
    with _unit_lock:
        if key in _unit_cache:
            ent = _unit_cache[key]
        else:
            ent = _unit_cache[key] = {'lock': threading.Lock(), 'res': None}
    with ent['lock']:
        if ent['res'] is not None:
            if isinstance(ent['res'], Exception): raise ent['res']
            return ent['res']
        try:
            ent['res'] = _build_unit(pid, uname, u, os.path.join(bdir, key))
        except Exception as ex:
            ent['res'] = ex; raise
        return ent['res']

def _build_unit(pid, uname, u, d):
    os.makedirs(d, exist_ok=True)
    t0 = time.time()
    wrapper = os.path.join(VERIF, 'props', pid, u['wrapper'])
    flags = CXX_BASE + [f.replace('{REPO}', REPO) for f in u.get('cxxflags', [])]
    if not any(f.startswith('-fexceptions') for f in flags) and '-fno-exceptions' not in flags and not u.get('exceptions'):
        flags = flags + ['-fno-exceptions']
    cuts = u.get('cut', [])
    devirt = u.get('devirt')   # True | [name substrings]: promote virtual calls to direct calls over the TU's vtables (tools/devirt.py)
    unrec = u.get('unrec')     # {'entry-name-substring': depth}: unroll a (mutual) recursion so that LLVM can inline it (tools/unrec.py)
    keepout = u.get('noinline', [])   # functions (substring of mangled name) kept out of line but translated (thread mode: executed atomically, needs allow_atomic)
    if cuts or devirt or unrec or keepout:
        # two-stage: unoptimised IR -> mark cut functions noinline -> opt -O1, so that a cut callee is never inlined
        f2 = []
        for i, f in enumerate(flags):
            if f == '-mllvm' and flags[i + 1].startswith('-inline-threshold'): continue
            if f.startswith('-inline-threshold'): continue
            f2.append(f)
        if devirt: f2.append('-fno-discard-value-names')
        rc, out, dt, to = sh(f2 + ['-Xclang', '-disable-llvm-passes', wrapper, '-o', os.path.join(d, 'w.raw.ll')], timeout=300)
        if rc != 0: raise Inconclusive('clang failed for %s:\n%s' % (u['wrapper'], out[-3000:]))
        if devirt:
            rc, out, dt, to = sh([sys.executable, os.path.join(TOOLS, 'devirt.py'), os.path.join(d, 'w.raw.ll'), os.path.join(d, 'w.raw.ll')] +
                                 (list(devirt) if isinstance(devirt, (list, tuple)) else []), timeout=300)
            if rc != 0: raise Inconclusive('devirt failed for %s:\n%s' % (u['wrapper'], out[-3000:]))
        for ent, depth in (unrec or {}).items():
            rc, out, dt, to = sh([sys.executable, os.path.join(TOOLS, 'unrec.py'), os.path.join(d, 'w.raw.ll'), os.path.join(d, 'w.raw.ll'), ent, str(depth)], timeout=300)
            if rc != 0: raise Inconclusive('unrec failed for %s:\n%s' % (u['wrapper'], out[-3000:]))
        lines = open(os.path.join(d, 'w.raw.ll')).read().split('\n')
        ncut = 0
        for i, line in enumerate(lines):
            if line.startswith('define ') and any(c in (line.split(' @', 1)[1] if ' @' in line else line).split('(')[0] for c in list(cuts) + list(keepout)):   # name = text after the first ' @' (return attrs like dereferenceable(8) contain parentheses)
                pers = ''
                if ' personality ' in line and line.endswith('{'):   # exceptions on: '... personality i8* bitcast (...) {' contains parentheses; attributes go before it
                    line, pers = line.split(' personality ', 1); line += ' {'; pers = ' personality ' + pers[:-1].rstrip() + ' '
                lines[i] = re.sub(r'\)( (?:local_)?unnamed_addr)?( [^()]*)?\{$', lambda m: ')' + (m.group(1) or '') + ' noinline' + (m.group(2) or ' ') + '{', line); ncut += 1
                if pers: lines[i] = lines[i][:-1].rstrip() + pers + '{'   # (unnamed_addr must precede function attributes)
        if ncut == 0 and (cuts or keepout): raise Inconclusive('cut functions %s not found in IR of %s' % (cuts, u['wrapper']))
        open(os.path.join(d, 'w.raw.ll'), 'w').write('\n'.join(lines))
        rc, out, dt, to = sh(['opt-14', '-O1', '-disable-loop-unrolling', '-inline-threshold=%d' % u.get('inline_threshold', 100000), '-S',
                              os.path.join(d, 'w.raw.ll'), '-o', os.path.join(d, 'w.ll')], timeout=300)
        if rc != 0: raise Inconclusive('opt -O1 failed:\n' + out[-3000:])
    else:
        rc, out, dt, to = sh(flags + [wrapper, '-o', os.path.join(d, 'w.ll')], timeout=300)
        if rc != 0: raise Inconclusive('clang failed for %s:\n%s' % (u['wrapper'], out[-3000:]))
    # functions encoded: -O0 call graph
    flags0 = [f for f in flags if f != '-O1'] + ['-O0']
    rc, out, dt, to = sh(flags0 + [wrapper, '-o', os.path.join(d, 'w0.ll')], timeout=300)
    funcs = []
    if rc == 0:
        txt = open(os.path.join(d, 'w0.ll')).read()
        entries = re.findall(r'define [^@]*@(vp_[A-Za-z0-9_]+)\(', txt)
        reached = [f for f in functions_reached(txt, entries) if not f.startswith('vp_')]
        funcs = [x for x in demangle(reached) if x and not x.startswith('std::') and not x.startswith('__gnu') and not x.startswith('operator')]
        os.remove(os.path.join(d, 'w0.ll'))
    if u.get('ptratomics'):   # retype pointer-valued i64 atomics/phis as pointers (tools/ptratom.py): keeps cbmc's pointer analysis precise
        rc, out, dt, to = sh([sys.executable, os.path.join(TOOLS, 'ptratom.py'), os.path.join(d, 'w.ll'), os.path.join(d, 'w.ll')], timeout=300)
        if rc != 0: raise Inconclusive('ptratom failed for %s:\n%s' % (u['wrapper'], out[-3000:]))
    src = 'w.ll'
    if u.get('mode') == 'lcs':
        K = u.get('unroll', 1)
        if K > 1 and u.get('force_unroll', True):
            # clang -O1 tags every loop with llvm.loop.unroll.disable, which opt's -unroll-count honours (K>1 is then a no-op);
            # the tag is neutralised whenever unroll > 1 so that `unroll` really unrolls K times (force_unroll=False restores the no-op)
            ll = os.path.join(d, 'w.ll'); txt = open(ll).read()
            open(ll, 'w').write(txt.replace('!"llvm.loop.unroll.disable"', '!"llvm.loop.vp.unroll.tag.removed"'))
        if u.get('full_unroll'):
            # full_unroll=N: loops with a constant trip count <= N are unrolled completely first (no back edge left to cut), e.g. a fixed
            # 7-iteration publication loop inside a thread body; loops with unknown trip count are left to the K-unroll below
            ll = os.path.join(d, 'w.ll'); txt = open(ll).read()
            open(ll, 'w').write(txt.replace('!"llvm.loop.unroll.disable"', '!"llvm.loop.vp.unroll.tag.removed"'))
            rc, out, dt, to = sh(['opt-14', '-enable-new-pm=0', '-loop-simplify', '-lcssa', '-loop-unroll', '-unroll-threshold=100000',
                                  '-unroll-full-max-count=%d' % int(u['full_unroll']), '-unroll-allow-partial=false', '-unroll-runtime=false',
                                  '-unroll-allow-peeling=false', '-simplifycfg', '-S', ll, '-o', ll], timeout=300)
            if rc != 0: raise Inconclusive('opt (full unroll) failed:\n' + out[-3000:])
        rc, out, dt, to = sh(['opt-14', '-enable-new-pm=0', '-loop-simplify', '-lcssa', '-loop-unroll', '-unroll-count=%d' % K,
                              '-unroll-allow-partial', '-unroll-threshold=100000', '-unroll-partial-threshold=100000',
                              '-simplifycfg', '-S', os.path.join(d, 'w.ll'), '-o', os.path.join(d, 'w.u.ll')], timeout=300)
        if rc != 0: raise Inconclusive('opt failed:\n' + out[-3000:])
        src = 'w.u.ll'
    cmd = [sys.executable, os.path.join(TOOLS, 'ir2c.py'), os.path.join(d, src), os.path.join(d, 'w')]
    if u.get('tso'): cmd.append('--tso')
    if u.get('prune'): cmd.append('--prune')
    if u.get('fallthrough'): cmd.append('--fallthrough')   # lcs: cut back edges continue along the loop exit with the slice disabled (fewer merges at END)
    if u.get('m1ptr'): cmd.append('--m1ptr')   # sentinel pointer (T*)-1 as the address of an object (flow graph SUCCESSFULLY_ENQUEUED)
    if u.get('looporder'): cmd.append('--looporder')   # seq mode: contiguous loop layout for cbmc
    if u.get('lvalpath'): cmd.append('--lvalpath')   # loads/stores through GEP results emitted on the field-path lvalue (see ir2c.py LVALPATH)
    if u.get('ptrtag'): cmd.append('--ptrtag')   # pointers compared with run-time small-integer tags ((T*)1 from memory), see ir2c.py PTRTAG
    if u.get('ptrcmp'): cmd.append('--ptrcmp')   # pointer-vs-small-constant ordering comparisons in a form cbmc's symex can fold (see ir2c.py PTRCMP)
    if u.get('ptrhooks'): cmd.append('--ptrhooks')   # inttoptr/ptrtoint via harness hooks vp_i2p/vp_p2i
    for c in cuts: cmd += ['--cut', c]
    for c in u.get('immutable', []): cmd += ['--immutable', c]   # regex on lvalue paths (with lvalpath): loads of these never-changing locations are not scheduling points
    for c in u.get('pure', []): cmd += ['--pure', c]   # side-effect-free deterministic stubs: not a scheduling point, re-evaluated on replay
    for fn, sfx in (u.get('threads') or {}).items():
        cmd += ['--thread', fn + (':' + ','.join(sfx) if sfx and sfx != [''] else '')]
    rc, out, dt, to = sh(cmd, timeout=300)
    if rc != 0: raise Inconclusive('ir2c failed for %s (untranslatable construct?):\n%s' % (u['wrapper'], out[-3000:]))
    summary = json.load(open(os.path.join(d, 'w.json')))
    for tn, ti in summary['threads'].items():
        bad = [c for c in ti['atomic_callees'] if c not in u.get('allow_atomic', []) and not c.startswith('vp_')]
        if bad: raise Inconclusive('thread %s calls non-inlined functions atomically: %s' % (tn, bad))
    return {'dir': d, 'summary': summary, 'functions': funcs, 'build_s': time.time() - t0}

# ------------------------------------------------------------------ cbmc
RES_RE = re.compile(r'^\[([^\]]+)\] (?:line (\d+) )?(.*): (SUCCESS|FAILURE|UNKNOWN|ERROR)$', re.M)

def cbmc_cmd(h, udir, pid, defines, extra=()):
    hsrc = os.path.join(VERIF, 'props', pid, h['harness'])
    cmd = ['cbmc', hsrc, os.path.join(udir, 'w.c'), '-I', udir, '-I', RT, '-I', os.path.join(VERIF, 'props', pid)]
    for k, v in defines.items():
        cmd.append('-D%s=%s' % (k, v) if v is not None else '-D' + k)
    cmd += CBMC_BASE + h.get('cbmc', ['--unwind', '16']) + list(extra)
    if h.get('no_signed_overflow') is not True: cmd.append('--signed-overflow-check')
    return cmd

def parse_cbmc(out):
    props = {}
    for m in RES_RE.finditer(out):
        props[m.group(1)] = {'line': m.group(2), 'desc': m.group(3), 'status': m.group(4)}
    st = {}
    m = re.findall(r'(\d+) variables, (\d+) clauses', out)
    if m: st['vars'] = max(int(a) for a, b in m); st['clauses'] = max(int(b) for a, b in m)
    m = re.findall(r'Runtime (?:decision procedure|Solver): ([0-9.]+)s', out)
    if m: st['solver_s'] = sum(float(x) for x in m)
    m = re.search(r'Runtime Symex: ([0-9.]+)s', out)
    if m: st['symex_s'] = float(m.group(1))
    return props, st

def classify(rc, out, to, props, fail_over_unwind=False):
    """-> ('pass'|'fail'|'inconclusive', detail, failing property ids)"""
    if to: return 'inconclusive', 'timeout', []
    if 'VERIFICATION' not in out:
        tail = out[-1500:]
        if 'std::bad_alloc' in out or 'Out of memory' in out or rc in (-9, 137, -6, 134): return 'inconclusive', 'out of memory / killed (rc=%s): %s' % (rc, tail[-300:]), []
        return 'inconclusive', 'cbmc error rc=%s: %s' % (rc, tail), []
    wit = [k for k, p in props.items() if p['desc'] == 'VP_WITNESS']
    unw = [k for k, p in props.items() if 'unwinding assertion' in p['desc'] and p['status'] != 'SUCCESS']
    fails = [k for k, p in props.items() if p['status'] != 'SUCCESS' and p['desc'] != 'VP_WITNESS' and k not in unw]
    fails.sort(key=lambda k: props[k]['status'] != 'FAILURE')   # replay a definite FAILURE first (cbmc reports sibling checks as UNKNOWN)
    # harness key fail_over_unwind=True (opt-in, seq harnesses): a failing assertion is a real bounded execution even if some loop
    # also exceeds its bound (typical for a runaway loop that first walks out of an array); it still has to reproduce natively
    if unw and not (fail_over_unwind and fails): return 'inconclusive', 'unwinding bound too small: %s' % unw[:3], []
    nobody = [p['desc'] for k, p in props.items() if p['desc'].startswith('no body for') and p['status'] != 'SUCCESS']
    if nobody: return 'inconclusive', 'reachable call without a stub: %s' % nobody[:5], []
    if fails: return 'fail', '; '.join('%s: %s' % (k, props[k]['desc']) for k in fails[:5]), fails
    if not wit: return 'inconclusive', 'harness has no VP_REACHED() witness', []
    if any(props[k]['status'] != 'FAILURE' for k in wit):
        return 'inconclusive', 'vacuous: witness unreachable (assumptions unsatisfiable or end of harness not reached)', []
    return 'pass', '', []

def trace_values(out):
    """values returned by vp_nd() in trace order"""
    vals = []
    for m in re.finditer(r'^State \d+ file \S+ function vp_nd line \d+ thread \d+\n-+\n\s+v=(-?\d+)', out, re.M):
        vals.append(int(m.group(1)) & ((1 << 64) - 1))
    return vals

def native_build(h, udir, pid, defines, outbin, extra_defs=()):
    hsrc = os.path.join(VERIF, 'props', pid, h['harness'])
    cmd = ['gcc', '-O0', '-g', '-w', '-fsanitize=address,undefined', '-fno-sanitize-recover=all', '-DVP_NATIVE',
           '-I', udir, '-I', RT, '-I', os.path.join(VERIF, 'props', pid)]
    for k, v in defines.items():
        cmd.append('-D%s=%s' % (k, v) if v is not None else '-D' + k)
    cmd += list(h.get('native_cflags', []))   # e.g. -fno-sanitize=null: thread-mode code forms &p->f from a not-yet-loaded (null) static temp without accessing it
    cmd += list(h.get('native_cflags', []))   # opt-in extra gcc flags for the replay build (e.g. -fno-sanitize=null for upcasts of null)
    cmd += list(extra_defs) + [hsrc, os.path.join(udir, 'w.c'), os.path.join(RT, 'native.c'), '-Wl,--unresolved-symbols=ignore-all', '-no-pie', '-o', outbin]
    return sh(cmd, timeout=600)

def scen_name(sc):
    return '_'.join('%s%s' % (k, v if v is not None else '') for k, v in sorted(sc.items())) or 'default'

def run_query(pid, spec, h, sc, bdir, tier):
    """one solver query = one harness x one concrete scenario. returns result dict"""
    t0 = time.time()
    res = {'harness': h['name'], 'scenario': sc, 'tier': tier}
    try:
        u = dict(spec.UNITS[h['unit']]); u.update(h.get('unit_override', {}))
        unit = build_unit(pid, h['unit'], u, bdir)
    except Inconclusive as ex:
        res.update(status='inconclusive', detail=str(ex), wall_s=time.time() - t0); return res
    defines = dict(h.get('defines', {})); defines.update(sc)
    if u.get('tso'): defines['VP_TSO'] = None
    cmd = cbmc_cmd(h, unit['dir'], pid, defines)
    rc, out, dt, to = sh(cmd, timeout=h.get('timeout', 600), mem_gb=h.get('mem_gb', 12))
    props, st = parse_cbmc(out)
    status, detail, fails = classify(rc, out, to, props, h.get('fail_over_unwind', False))
    res.update(status=status, detail=detail, stats=st, wall_s=round(dt, 2), n_assertions=len(props),
               unit_dir=unit['dir'], functions=unit['functions'], unit_summary=unit['summary'], defines=defines)
    if status == 'inconclusive' and os.environ.get('VP_DEBUG'):
        sys.stderr.write(out[-4000:])
    if status == 'fail':
        res['failed'] = [{'id': k, 'desc': props[k]['desc'], 'line': props[k]['line']} for k in fails]
        replay_failure(pid, h, sc, unit, defines, fails[0], props[fails[0]], res)
    return res

def replay_failure(pid, h, sc, unit, defines, prop_id, prop, res):
    """re-run with --trace on the failing property, extract the nondet stream, replay natively"""
    cmd = cbmc_cmd(h, unit['dir'], pid, defines, extra=['--trace', '--property', prop_id])
    rc, out, dt, to = sh(cmd, timeout=h.get('timeout', 600) * 2, mem_gb=h.get('mem_gb', 12))
    vals = trace_values(out)
    rdir = os.path.join(OUTROOT, 'replay', pid); os.makedirs(rdir, exist_ok=True)
    base = os.path.join(rdir, '%s__%s' % (h['name'], scen_name(sc)))
    rec = {'property': pid, 'harness': h['name'], 'scenario': sc, 'defines': defines, 'assertion': prop, 'assertion_id': prop_id,
           'nondet_values': vals, 'unit': h['unit']}
    json.dump(rec, open(base + '.json', 'w'), indent=1)
    res['replay'] = base + '.json'
    if to or 'FAILURE' not in out:
        res['reproduced'] = False; res['replay_detail'] = 'trace run gave no counterexample'; return
    ok, detail = native_replay(pid, h, unit['dir'], defines, vals, base)
    res['reproduced'] = ok; res['replay_detail'] = detail

def native_replay(pid, h, udir, defines, vals, base):
    open(base + '.nd', 'w').write('\n'.join(map(str, vals)) + '\n')
    binp = base + '.bin'
    rc, out, dt, to = native_build(h, udir, pid, defines, binp)
    if rc != 0: return False, 'native build failed: ' + out[-800:]
    env = dict(os.environ, VP_REPLAY=base + '.nd', ASAN_OPTIONS='detect_leaks=0')
    rc, out, dt, to = sh([binp], timeout=120, env=env)
    try: os.remove(binp)
    except OSError: pass
    if 'VP-ASSUME-FALSE' in out: return False, 'native run violated an assumption (encoding mismatch): ' + out[-300:]
    if rc != 0 and not to: return True, out[-400:].strip()
    return False, 'native run did not fail (rc=%s): %s' % (rc, out[-300:])

# ------------------------------------------------------------------ translator validation (selftest differential)
def selftest_unit(pid, uname, u, unit):
    """wrapper defines extern "C" void vp_selftest(void) calling vp_emit(u64): run it as real C++ (g++) and as generated C (gcc), diff."""
    d = unit['dir']
    if 'vp_selftest' not in unit['summary']['functions']: return None
    wrapper = os.path.join(VERIF, 'props', pid, u['wrapper'])
    main_c = os.path.join(RT, 'selftest_main.c')
    cxx = ['g++', '-std=c++17', '-O1', '-w', '-fno-access-control' if False else '-fpermissive', '-DNDEBUG', '-D' + GUARD, '-I' + REPO + '/include', '-I' + RT]
    # g++ has no -fno-access-control equivalent that is safe here: use clang++ for the real build as well (same front end as the IR)
    cxx = ['clang++-14', '-std=c++17', '-O1', '-fno-access-control', '-DNDEBUG', '-D' + GUARD, '-I' + REPO + '/include', '-I' + REPO, '-I' + RT, '-Wno-everything'] + \
          [f.replace('{REPO}', REPO) for f in u.get('cxxflags', []) if not f.startswith('-mllvm')]
    if '-fno-exceptions' not in cxx and not u.get('exceptions'): cxx.append('-fno-exceptions')
    rc, out, dt, to = sh(cxx + ['-c', wrapper, '-o', os.path.join(d, 'w_real.o')], timeout=300)
    if rc != 0: raise Inconclusive('selftest: real build failed: ' + out[-1500:])
    stubs = os.path.join(VERIF, 'props', pid, u.get('selftest_stubs', 'selftest_stubs.c'))
    stubs = [stubs] if os.path.exists(stubs) else []
    rc, out, dt, to = sh(['gcc', '-O1', '-w', '-DVP_SELFTEST_REAL', '-I', d, '-I', RT, main_c] + stubs + [os.path.join(d, 'w_real.o'), '-lstdc++', '-lpthread', '-Wl,--unresolved-symbols=ignore-all', '-no-pie', '-o', os.path.join(d, 'st_real')], timeout=300)
    if rc != 0: raise Inconclusive('selftest: real link failed: ' + out[-1500:])
    rc, out, dt, to = sh(['gcc', '-O1', '-w', '-I', d, '-I', RT, main_c] + stubs + [os.path.join(d, 'w.c'), '-Wl,--unresolved-symbols=ignore-all', '-no-pie', '-o', os.path.join(d, 'st_gen')], timeout=300)
    if rc != 0: raise Inconclusive('selftest: generated-C build failed: ' + out[-1500:])
    r1 = sh([os.path.join(d, 'st_real')], timeout=120); r2 = sh([os.path.join(d, 'st_gen')], timeout=120)
    if r1[0] != 0 or r2[0] != 0: raise Inconclusive('selftest crashed: real rc=%s gen rc=%s %s %s' % (r1[0], r2[0], r1[1][-300:], r2[1][-300:]))
    if r1[1] != r2[1]:
        a = r1[1].split('\n'); b = r2[1].split('\n')
        k = next((i for i in range(min(len(a), len(b))) if a[i] != b[i]), min(len(a), len(b)))
        raise Inconclusive('translator validation FAILED for unit %s: output line %d differs: real=%r generated=%r' % (uname, k, a[k:k+1], b[k:k+1]))
    return len(r1[1].split())

# ------------------------------------------------------------------ known findings
def load_known(pid):
    path = os.path.join(VERIF, 'known_findings.txt')
    known = []
    if os.path.exists(path):
        for line in open(path):
            line = line.strip()
            m = re.match(r'known: property=(\S+) harness=(\S+) assertion="([^"]*)" define=(\S+) :: (.*)$', line)
            if m and m.group(1) == pid:
                known.append({'harness': m.group(2), 'assertion': m.group(3), 'define': m.group(4), 'what': m.group(5)})
    return known

# ------------------------------------------------------------------ main
def expand(h):
    scs = h.get('scenarios') or [{}]
    return scs

def run_property(pid, tier='quick', only=None, keep=False, jobs=NCPU):
    t0 = time.time()
    spec = load_spec(pid)
    seed = int(os.environ.get('VERIF_SEED', '0') or 0)
    bdir = os.path.join(OUTROOT, '.build' if ALT is None else 'b', pid + ('_' + re.sub(r'\W', '_', only) if only and os.environ.get('VP_PAR') else ''))
    shutil.rmtree(bdir, ignore_errors=True); os.makedirs(bdir, exist_ok=True)
    known = load_known(pid)
    queries = []
    for h in spec.HARNESSES:
        if only and not re.search(only, h['name']): continue
        tiers = h.get('tiers', ['quick', 'thorough'])
        if tier not in tiers: continue
        scs = h.get('scenarios_' + tier) or expand(h)
        hh = dict(h)
        if tier == 'thorough' and 'thorough_override' in h: hh.update(h['thorough_override'])
        for sc in scs:
            sc = dict(sc)
            for kf in known:
                if kf['harness'] == h['name'] and kf['define'] != '-': sc[kf['define']] = None
            queries.append((hh, sc))
    results = []
    # heavier queries first
    queries.sort(key=lambda q: -q[0].get('timeout', 600))
    with ThreadPoolExecutor(max_workers=jobs) as ex:
        futs = [ex.submit(run_query, pid, spec, h, sc, bdir, tier) for h, sc in queries]
        for f in futs:
            r = f.result(); results.append(r)
            print('  [%s] %s %s  %.1fs %s %s' % (r['status'].upper(), r['harness'], scen_name(r['scenario']), r.get('wall_s', 0),
                                                 json.dumps(r.get('stats', {})), r.get('detail', '')[:300]), flush=True)
    # translator validation per distinct unit
    selftests = {}
    inconcl = [r for r in results if r['status'] == 'inconclusive']
    for uname, u in spec.UNITS.items():
        used = [r for r in results if r.get('unit_dir') and spec_unit_of(spec, r['harness']) == uname]
        if not used or not u.get('selftest'): continue
        try:
            unit = build_unit(pid, uname, dict(u), bdir)
            n = selftest_unit(pid, uname, u, unit)
            selftests[uname] = n
            print('  [SELFTEST] unit %s: real C++ vs generated C agree on %s emitted values' % (uname, n))
        except Inconclusive as ex:
            inconcl.append({'harness': 'selftest:' + uname, 'scenario': {}, 'status': 'inconclusive', 'detail': str(ex)})
            print('  [INCONCLUSIVE] selftest %s: %s' % (uname, ex))
    violations = []; known_hits = []
    for r in results:
        if r['status'] != 'fail': continue
        if not r.get('reproduced'):
            inconcl.append(r); r['status'] = 'inconclusive'
            r['detail'] = 'counterexample did not reproduce natively (encoding or stub suspect): %s | %s' % (r.get('detail'), r.get('replay_detail'))
            continue
        kf = [k for k in known if k['harness'] == r['harness'] and k['define'] == '-' and any(k['assertion'] in f['desc'] for f in r['failed'])]
        if kf and all(any(k['assertion'] in f['desc'] for k in kf) for f in r['failed']):
            for k in kf: known_hits.append((r, k))
            continue
        violations.append(r)
    for kf in known:
        if kf['define'] != '-':
            print('KNOWN-FINDING: property=%s %s' % (pid, kf['what']))
    printed = set()
    for r, kf in known_hits:      # one line per listed finding, however many scenarios exhibit it
        if kf['what'] not in printed:
            printed.add(kf['what']); print('KNOWN-FINDING: property=%s %s' % (pid, kf['what']))
    write_evidence(pid, spec, tier, seed, results, selftests, violations, inconcl, time.time() - t0, only)
    if not keep: shutil.rmtree(bdir, ignore_errors=True)
    for r in violations:
        print('VIOLATION property=%s replay=%s' % (pid, r['replay']))
        print('  harness=%s scenario=%s failed=%s\n  native: %s' % (r['harness'], r['scenario'], r['failed'], r.get('replay_detail', '')))
    if violations: return 1
    if inconcl:
        for r in inconcl:
            print('INCONCLUSIVE property=%s harness=%s scenario=%s: %s' % (pid, r['harness'], r.get('scenario'), r.get('detail', '')[:1500]))
        return 2
    npass = sum(1 for r in results if r['status'] == 'pass')
    if npass == 0:
        print('INCONCLUSIVE property=%s: no query ran' % pid); return 2
    print('OK property=%s tier=%s queries=%d wall=%.0fs' % (pid, tier, npass, time.time() - t0))
    return 0

def spec_unit_of(spec, hname):
    for h in spec.HARNESSES:
        if h['name'] == hname: return h['unit']

def write_evidence(pid, spec, tier, seed, results, selftests, violations, inconcl, wall, only_filter=None):
    passed = [r for r in results if r['status'] == 'pass']
    funcs = sorted(set(f for r in results for f in r.get('functions', [])))
    samples = []
    for r in results:
        h = next(h for h in spec.HARNESSES if h['name'] == r['harness'])
        samples.append({'harness': r['harness'], 'what': h.get('desc', ''), 'scenario': r['scenario'], 'result': r['status'],
                        'bounds': h.get('bounds', {}), 'assertions_decided': r.get('n_assertions', 0),
                        'vars': r.get('stats', {}).get('vars'), 'clauses': r.get('stats', {}).get('clauses'),
                        'solver_s': r.get('stats', {}).get('solver_s'), 'wall_s': r.get('wall_s'),
                        'thread_model': r.get('unit_summary', {}).get('threads', {}), 'detail': r.get('detail', '')[:300]})
    distinct = len(set((r['harness'], json.dumps(r['scenario'], sort_keys=True)) for r in passed if r.get('n_assertions', 0) > 1))
    ev = {
        'property_id': pid, 'tier': tier, 'seed': seed, 'level': 'model_checking',
        'coverage': {
            'evaluations': len(results),
            'distinct_nontrivial': distinct,
            'rule': 'one evaluation = one cbmc query (harness x concrete scenario) over C regenerated from /repo by clang-14 + tools/ir2c.py; '
                    'counted as distinct+nontrivial when it passed, decided at least one assertion besides the witness, and its witness '
                    '(assert(0) at the end of the harness) was reachable, i.e. the assumptions are satisfiable and a full path exists',
            'samples': samples,
            'functions_encoded': funcs,
            'assertions_decided': sum(r.get('n_assertions', 0) for r in results),
            'solver_time_s': round(sum(r.get('stats', {}).get('solver_s', 0) or 0 for r in results), 2),
            'max_vars': max([r.get('stats', {}).get('vars', 0) or 0 for r in results] or [0]),
            'translator_selftests': selftests,
            'inconclusive': len(inconcl),
            'outside_claim': getattr(spec, 'OUTSIDE', []),
            'stubs': getattr(spec, 'STUBS', []),
            'exhaustive': False,
        },
        'assumptions': getattr(spec, 'ASSUMPTIONS', []) + [
            'clang-14 -O1 IR is taken as the meaning of the source; loops bounded as stated per harness (unwinding assertions on)',
            'sequential consistency unless a scenario says TSO; weaker memory models outside the claim'],
        'wall_s': round(wall, 2), 'violations': len(violations),
    }
    os.makedirs(os.path.join(OUTROOT, 'evidence'), exist_ok=True)
    if only_filter:   # partial run (--only): never overwrite the registered evidence with a subset
        json.dump(ev, open(os.path.join(OUTROOT, 'evidence', pid + '.partial.json'), 'w'), indent=1); return
    json.dump(ev, open(os.path.join(OUTROOT, 'evidence', pid + '.json'), 'w'), indent=1)
    if tier == 'thorough':   # a later quick run rewrites <id>.json; keep the last full thorough run next to it
        json.dump(ev, open(os.path.join(OUTROOT, 'evidence', pid + '.thorough.json'), 'w'), indent=1)

def do_replay(path):
    rec = json.load(open(path))
    pid = rec['property']; spec = load_spec(pid)
    h = next(h for h in spec.HARNESSES if h['name'] == rec['harness'])
    bdir = os.path.join(OUTROOT, '.build' if ALT is None else 'b', pid + '_replay'); shutil.rmtree(bdir, ignore_errors=True); os.makedirs(bdir)
    u = dict(spec.UNITS[h['unit']]); u.update(h.get('unit_override', {}))
    unit = build_unit(pid, h['unit'], u, bdir)
    ok, detail = native_replay(pid, h, unit['dir'], rec['defines'], rec['nondet_values'], os.path.join(bdir, 'replay'))
    shutil.rmtree(bdir, ignore_errors=True)
    print(('REPRODUCED ' if ok else 'NOT-REPRODUCED ') + detail)
    return 1 if ok else 0

def main():
    import argparse
    ap = argparse.ArgumentParser()
    ap.add_argument('pid'); ap.add_argument('--tier', default=os.environ.get('VERIF_TIER', 'quick'))
    ap.add_argument('--only'); ap.add_argument('--keep', action='store_true'); ap.add_argument('--replay')
    ap.add_argument('--jobs', type=int, default=NCPU)
    a = ap.parse_args()
    if a.replay: sys.exit(do_replay(a.replay))
    sys.exit(run_property(a.pid, a.tier, a.only, a.keep, a.jobs))

if __name__ == '__main__':
    main()

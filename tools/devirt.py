#!/usr/bin/env python3
"""Promote virtual calls to compare-and-dispatch over the vtables of the module (closed world = this TU).
usage: devirt.py in.raw.ll out.ll [name-substring ...]
Works on clang-14's *unoptimised* IR (-Xclang -disable-llvm-passes), where every virtual call has the shape
    %vt  = load FP*, FP** %vptr ; %vfn = getelementptr inbounds FP, FP* %vt, i64 K ; %f = load FP, FP* %vfn ; call R %f(args)
For such a call the candidates are entry [2+K] of every array of every vtable global (_ZTV*) that is a function *defined* in
the module with the same return type and parameter count (optionally: whose name contains one of the given substrings).
The call becomes   if (%f == cand0) cand0(args) else if (%f == cand1) cand1(args) ... else { llvm.trap; unreachable }
so that a later `opt -O1` inlines the bodies (thread bodies must not contain indirect calls), while a function pointer outside
the candidate set is a reported failure (ir2c maps llvm.trap to an assertion), never a silently dropped path.
Address point 2 (offset-to-top, RTTI) is assumed: no virtual bases."""
import re, sys

def split_top(s, sep=','):
    out = []; d = 0; cur = ''; q = False
    for ch in s:
        if ch == '"': q = not q
        if not q:
            if ch in '([{<': d += 1
            elif ch in ')]}>': d -= 1
            elif ch == sep and d == 0:
                out.append(cur.strip()); cur = ''; continue
        cur += ch
    if cur.strip(): out.append(cur.strip())
    return out

def fn_type_parts(fpty):
    """'R (A, B)*' -> (R, [A, B])"""
    t = fpty.strip()
    if not t.endswith('*'): return None
    t = t[:-1].rstrip()
    if not t.endswith(')'): return None
    d = 0; q = False
    for i in range(len(t) - 1, -1, -1):
        ch = t[i]
        if ch == '"': q = not q
        if q: continue
        if ch == ')': d += 1
        elif ch == '(':
            d -= 1
            if d == 0:
                return t[:i].strip(), split_top(t[i + 1:-1])
    return None

ID = r'(?:%[-\w.$]+|%"[^"]+")'
GID = r'(?:@[-\w.$]+|@"[^"]+")'

def split_load(d1):
    """'load T, T* %p[, align N][, !md]' -> (T, %p); T may contain commas (function types), so split by length, not by regex"""
    if not d1.startswith('load '): return None
    m = re.search(r'\* (' + ID + r')(?:, align \d+)?(?:, !.*)?$', d1)
    if not m: return None
    pre = d1[5:m.start()]
    if (len(pre) - 2) % 2: return None
    h = (len(pre) - 2) // 2
    if pre[:h] != pre[h + 2:] or pre[h:h + 2] != ', ': return None
    return pre[:h], m.group(1)

def find_cands(defs, callee, vtabs, defined, filt):
    d1 = defs.get(callee, '')
    cands = []; fpty = None
    m1 = split_load(d1)
    if m1:
        fpty, vfn = m1
        d2 = defs.get(vfn, '')
        m2 = re.match(r'getelementptr inbounds (.+), (.+)\* (' + ID + r'), i64 (\d+)$', d2)
        if m2:
            k = int(m2.group(4)); vt = m2.group(3)
            d3 = defs.get(vt, '')
            if re.match(r'load ', d3) and fn_type_parts(fpty):
                ret, params = fn_type_parts(fpty)
                seen = set()
                for vname, ents in vtabs:
                    if 2 + k >= len(ents) or ents[2 + k] is None: continue
                    cty, cn = ents[2 + k]
                    if cn in seen or cn not in defined: continue
                    cp = fn_type_parts(cty)
                    if not cp or cp[0] != ret or len(cp[1]) != len(params): continue
                    if filt and not any(f in cn for f in filt): continue
                    seen.add(cn); cands.append((cty, cn))
    return cands, fpty

def main():
    src, dst = sys.argv[1], sys.argv[2]
    filt = sys.argv[3:]
    lines = open(src).read().split('\n')
    defined = set()
    for l in lines:
        m = re.match(r'define .*?(' + GID + r')\(', l)
        if m: defined.add(m.group(1))
    # vtables: list of arrays of entries (type, name) or None
    vtabs = []
    for l in lines:
        m = re.match(r'(@_ZTV[-\w.$]+|@"_ZTV[^"]+") = .*?constant (\{.*\}) (\{ .* \})(?:, comdat)?(?:, align \d+)?\s*$', l)
        if not m: continue
        body = m.group(3).strip()[1:-1].strip()
        for arr in split_top(body):
            am = re.match(r'\[\d+ x i8\*\] \[(.*)\]$', arr)
            if not am: continue
            ents = []
            for e in split_top(am.group(1)):
                em = re.match(r'i8\* bitcast \((.+) (' + GID + r') to i8\*\)$', e)
                ents.append((em.group(1), em.group(2)) if em else None)
            vtabs.append((m.group(1), ents))
    out = []
    i = 0; n = len(lines); uid = 0; npromoted = 0; nleft = 0; need_trap = False
    has_trap = any(l.startswith('declare void @llvm.trap()') for l in lines)
    while i < n:
        l = lines[i]
        if not l.startswith('define '):
            out.append(l); i += 1; continue
        j = i
        while lines[j] != '}': j += 1
        fn = lines[i:j + 1]
        defs = {}
        for x in fn:
            m = re.match(r'\s*(' + ID + r') = (.*)$', x)
            if m: defs[m.group(1)] = m.group(2)
        res = [fn[0]]
        cur_label = None; orig_label = None; rename = {}
        first_block = True
        skip_next = False
        for idx, x in enumerate(fn):
            if idx == 0: continue
            lm = re.match(r'([-\w.$]+|"[^"]+"):', x)
            if lm:
                cur_label = orig_label = '%' + lm.group(1)
                res.append(x); continue
            if cur_label is None and x.strip() and first_block:
                # entry block of a function whose blocks are unnamed: its implicit label is the next number; find lazily
                pass
            y = re.sub(r' dereferenceable(?:_or_null)?\(\d+\)', '', x)
            if skip_next:
                skip_next = False; continue
            im = re.match(r'\s*(?:(' + ID + r') = )?invoke ([^()@]*?)(' + ID + r')\((.*)\)([^()]*)$', y)
            if im and ' asm ' not in y and idx + 1 < len(fn) and re.match(r'\s+to label ', fn[idx + 1]):
                # virtual call in a try region / with pending cleanups (coordinator's extension): same dispatch, each candidate an invoke
                dest, retstuff, callee, args, trail = im.groups()
                lm2 = re.match(r'\s+to label (' + ID + r') unwind label (' + ID + r')', fn[idx + 1])
                cands, fpty = find_cands(defs, callee, vtabs, defined, filt)
                lp_has_phi = False
                if lm2:
                    lpname = lm2.group(2)[1:]
                    for q, z in enumerate(fn):
                        if re.match(re.escape(lpname) + r':', z) and q + 1 < len(fn) and ' = phi ' in fn[q + 1]: lp_has_phi = True
                if not cands or not lm2 or lp_has_phi or cur_label is None:
                    nleft += 1; res.append(x); continue
                okl, lpl = lm2.group(1), lm2.group(2)
                om = re.match(r'(\s*)(?:(' + ID + r') = )?(invoke .*?)' + re.escape(callee) + r'(\(.*)$', x)
                ind, _, callhead, calltail = om.groups()
                rettype = re.sub(r'\b(noundef|zeroext|signext|nonnull|noalias|align \d+)\b', '', retstuff).strip()
                rettype = re.sub(r'\s+', ' ', rettype)
                uid += 1; npromoted += 1; inc = []
                for ci, (cty, cn) in enumerate(cands):
                    t = 'dv%d.t%d' % (uid, ci); e = 'dv%d.e%d' % (uid, ci); k = 'dv%d.k%d' % (uid, ci)
                    cast = 'bitcast (%s %s to %s)' % (cty, cn, fpty) if cty != fpty else cn
                    res.append('%s%%dv%d.c%d = icmp eq %s %s, %s' % (ind, uid, ci, fpty, callee, cast))
                    res.append('%sbr i1 %%dv%d.c%d, label %%%s, label %%%s' % (ind, uid, ci, t, e))
                    res.append('%s:' % t)
                    if dest:
                        res.append('%s%%dv%d.r%d = %s%s%s' % (ind, uid, ci, callhead, cast, calltail)); inc.append('[ %%dv%d.r%d, %%%s ]' % (uid, ci, k))
                    else:
                        res.append('%s%s%s%s' % (ind, callhead, cast, calltail))
                    res.append('%s        to label %%%s unwind label %s' % (ind, k, lpl))
                    res.append('%s:' % k)
                    res.append('%sbr label %%dv%d.cont' % (ind, uid))
                    res.append('%s:' % e)
                res.append('%scall void @llvm.trap()' % ind); need_trap = True
                res.append('%sunreachable' % ind)
                res.append('dv%d.cont:' % uid)
                if dest:
                    res.append('%s%s = phi %s %s' % (ind, dest, rettype, ', '.join(inc)))
                res.append('%sbr label %s' % (ind, okl))
                rename[orig_label] = '%%dv%d.cont' % uid
                cur_label = None; skip_next = True
                continue
            cm = re.match(r'\s*(?:(' + ID + r') = )?(?:tail |notail |musttail )?call ([^()@]*?)(' + ID + r')\((.*)\)([^()]*)$', y)
            if not cm or ' asm ' in y:
                res.append(x); continue
            dest, retstuff, callee, args, trail = cm.groups()
            d1 = defs.get(callee, '')
            m1 = split_load(d1)
            cands = []
            if m1:
                fpty, vfn = m1
                d2 = defs.get(vfn, '')
                m2 = re.match(r'getelementptr inbounds (.+), (.+)\* (' + ID + r'), i64 (\d+)$', d2)
                if m2:
                    k = int(m2.group(4)); vt = m2.group(3)
                    d3 = defs.get(vt, '')
                    if re.match(r'load ', d3) and fn_type_parts(fpty):
                        ret, params = fn_type_parts(fpty)
                        seen = set()
                        for vname, ents in vtabs:
                            if 2 + k >= len(ents) or ents[2 + k] is None: continue
                            cty, cn = ents[2 + k]
                            if cn in seen or cn not in defined: continue
                            cp = fn_type_parts(cty)
                            if not cp or cp[0] != ret or len(cp[1]) != len(params): continue
                            if filt and not any(f in cn for f in filt): continue
                            seen.add(cn); cands.append((cty, cn))
            if not cands:
                nleft += 1; res.append(x); continue
            # original call text pieces (keep attributes of the original line)
            om = re.match(r'(\s*)(?:(' + ID + r') = )?((?:tail |notail |musttail )?call .*?)' + re.escape(callee) + r'(\(.*)$', x)
            ind, _, callhead, calltail = om.groups()
            callhead = re.sub(r'^(tail|notail|musttail) ', '', callhead)
            rettype = re.sub(r'\b(noundef|zeroext|signext|nonnull|noalias|align \d+)\b', '', retstuff).strip()
            rettype = re.sub(r'\s+', ' ', rettype)
            uid += 1; npromoted += 1
            if cur_label is None:
                raise SystemExit('devirt: virtual call in an unlabelled entry block is not supported (name the block): ' + fn[0][:120])
            inc = []
            for ci, (cty, cn) in enumerate(cands):
                t = 'dv%d.t%d' % (uid, ci); e = 'dv%d.e%d' % (uid, ci)
                cast = 'bitcast (%s %s to %s)' % (cty, cn, fpty) if cty != fpty else cn
                res.append('%s%%dv%d.c%d = icmp eq %s %s, %s' % (ind, uid, ci, fpty, callee, cast))
                res.append('%sbr i1 %%dv%d.c%d, label %%%s, label %%%s' % (ind, uid, ci, t, e))
                res.append('%s:' % t)
                if dest:
                    res.append('%s%%dv%d.r%d = %s%s%s' % (ind, uid, ci, callhead, cast, calltail)); inc.append('[ %%dv%d.r%d, %%%s ]' % (uid, ci, t))
                else:
                    res.append('%s%s%s%s' % (ind, callhead, cast, calltail))
                res.append('%sbr label %%dv%d.cont' % (ind, uid))
                res.append('%s:' % e)
            res.append('%scall void @llvm.trap()' % ind); need_trap = True
            res.append('%sunreachable' % ind)
            res.append('dv%d.cont:' % uid)
            if dest:
                res.append('%s%s = phi %s %s' % (ind, dest, rettype, ', '.join(inc)))
            cur_label = '%%dv%d.cont' % uid
            rename[orig_label] = cur_label
        if rename:
            # phi incoming labels: edges that left the split block now leave its last part
            def fix(x):
                if ' = phi ' not in x: return x
                def rep(mm):
                    lab = mm.group(2)
                    return mm.group(1) + rename.get(lab, lab) + ' ]'
                return re.sub(r'(\[ [^\[\]]*?, )(' + ID + r') \]', rep, x)
            res = [fix(x) if not re.match(r'\s*%dv\d+\.', x) and ' = phi ' in x and not re.search(r'%dv\d+\.r\d+, ', x) else x for x in res]
        out.extend(res)
        i = j + 1
    if need_trap and not has_trap:
        out.append('declare void @llvm.trap()')
    open(dst, 'w').write('\n'.join(out))
    print('devirt: promoted %d virtual calls, %d indirect calls left' % (npromoted, nleft))

if __name__ == '__main__':
    main()

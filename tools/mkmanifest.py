#!/usr/bin/env python3
"""Regenerates /verif/MANIFEST.json from props/*/spec.py (MANIFEST dict in each spec) — keeps it schema-valid."""
import json, os, sys, importlib.util
VERIF = os.path.dirname(os.path.dirname(os.path.abspath(__file__)))
ALL = ['C%02d' % i for i in range(1, 21)]

def load(pid):
    path = os.path.join(VERIF, 'props', pid, 'spec.py')
    if not os.path.exists(path): return None
    sp = importlib.util.spec_from_file_location('spec_' + pid, path)
    m = importlib.util.module_from_spec(sp); sp.loader.exec_module(m)
    return m

def main():
    checks = []; na = []
    na_reasons = json.load(open(os.path.join(VERIF, 'tools', 'not_applicable.json')))
    for pid in ALL:
        m = load(pid)
        if m is None or not getattr(m, 'MANIFEST', None):
            na.append({'property_id': pid, 'reason': na_reasons.get(pid, 'no check built for this property yet')})
            continue
        mf = m.MANIFEST
        c = {
            'property_id': pid,
            'quick_cmd': './check %s --tier quick' % pid,
            'thorough_cmd': './check %s --tier thorough' % pid,
            'evidence_file': 'evidence/%s.json' % pid,
            'replay_cmd_template': './check %s --replay {path}' % pid,
            'engine': mf.get('engine', 'ir2c+cbmc'),
            'level_claimed': {'category': 'model_checking', 'text': mf['level_text'], 'design_ref': mf.get('design_ref', 'DESIGN.md section 4 (%s)' % pid)},
            'level_note': mf['level_note'],
            'technique': mf.get('technique', 'bounded symbolic execution of the real code (clang-14 IR -> own IR-to-C translator -> CBMC 6.11 SAT); verdict = solver result over all values within the stated bounds'),
        }
        checks.append(c)
    man = {
        'version': 1,
        'setup_cmd': 'true',
        'hooks': {
            'guard': 'ONETBB_VERIF',
            'enable': 'checks compile the wrappers (which #include the real sources) with -DONETBB_VERIF via clang++-14; no library rebuild is needed',
            'baseline_off_cmd': 'cmake --build /repo/_build -j16 && ctest --test-dir /repo/_build -j8 --timeout 900',
            'source_commits': json.load(open(os.path.join(VERIF, 'tools', 'hook_commits.json'))),
            'add_only': True,
        },
        'engines': [
            {'name': 'ir2c+cbmc', 'path': 'tools/vpcheck.py', 'serves_properties': [c['property_id'] for c in checks],
             'kind_free_text': 'clang++-14 -O1 -emit-llvm of wrapper TUs that #include the real oneTBB sources; opt-14 loop unrolling; '
                               'tools/ir2c.py (own LLVM-IR-to-C translator, sequential mode and Lazy-CSeq-style thread mode); cbmc 6.11 (SAT) decides; '
                               'counterexamples replayed natively (gcc + ASan/UBSan) from the extracted nondet stream'},
        ],
        'checks': checks,
        'not_applicable': na,
        'notes': 'Exit codes of ./check: 0 property held on everything explored; 1 reproduced violation (VIOLATION line); 2 inconclusive '
                 '(timeout, untranslatable construct, vacuous harness, counterexample that does not reproduce) - treated as a broken check, never as a pass.',
    }
    json.dump(man, open(os.path.join(VERIF, 'MANIFEST.json'), 'w'), indent=1)
    print('MANIFEST: %d checks, %d not_applicable' % (len(checks), len(na)))

if __name__ == '__main__':
    main()

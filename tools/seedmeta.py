#!/usr/bin/env python3
"""Rebuilds seeded/<id>/meta.json from the per-seed notes below + seeded/CONFIRM.log (full-suite confirmation in the scratch
worktree) + seeded/RESULTS.md (which check caught it)."""
import json, os, re
V = os.path.dirname(os.path.dirname(os.path.abspath(__file__)))
NEEDS = {
 's_C01_task_stream_clear_bit_unlocked': 'critical tasks fetched by an isolated thread (pop_specific) that drains a lane while another thread pushes into the same lane inside a window of tens of ns; no later push into that lane',
 's_C02_execute_slot_wait_reorder': 'task_arena::execute on a full arena; an occupant leaves between the entrant`s failed slot test and its prepare_wait; nobody else ever notifies (all slots reserved)',
 's_C03_reduce_zombie_flag_early': 'a stolen right child (second thread) whose Body splitting constructor throws',
 's_C04_epoch_snapshot_own_list': '3-level context tree with parent and child bound by different threads; cancellation in flight: binder`s list already walked, parent not yet marked',
 's_C05_strided_tripcount_overflow': 'parallel_for(first,last,step) with step>1 and (last-first)+step-1 exceeding the index type`s maximum',
 's_C06_scan_virtual_steal': 'the scan body enters the scheduler (nested algorithm) and the owner pops the right child while the left sibling`s body is on its stack',
 's_C07_grow_off_by_one': 'a serial_in_order stage that is not the first ordered one, >=10 live tokens, an item exactly 8 tokens ahead of the oldest outstanding one arrives while the ring has 4 slots, then a second grow',
 's_C08_qm_try_acquire_next': 'a reused queuing_mutex::scoped_lock object: cycle 1 hands over to a queued successor, cycle 2 is try_acquire on the same object, release with nothing queued',
 's_C09_bq_predicate_eq': 'a caller asleep in concurrent_bounded_queue::pop/push whose ticket is skipped because another thread`s element constructor threw (invalid slot)',
 's_C09_bq_predicate_eq_norename': 'as s_C09_bq_predicate_eq (same semantic change without the incidental rename of the predicate struct)',
 's_C10_erase_reader_lock': 'erase(key) while another thread holds a const_accessor to the same element',
 's_C11_failure_tag_check_moved': 'a segment allocation fails, then the vector is used again (retry / another thread) and the index lands in the failure-tagged segment',
 's_C12_init_bucket_relaxed_store': 'weak-memory hardware (release->relaxed store is the same instruction on x86); only a ThreadSanitizer report shows it here',
 's_C13_reheap_bound_size': 'one aggregator batch with >=2 pushes and a pop on an even-sized heap of >=4 elements with a particular value pattern',
 's_C14_limiter_no_retry': 'queue_node -> limiter_node(threshold>=2) -> serial rejecting function_node -> decrementer; forwarder rejected while another thread re-registers the successor and decrements',
 's_C14_limiter_no_retry__asC15': 'as s_C14_limiter_no_retry (same patch run against the C15 check)',
 's_C15_write_once_unlocked_check': 'two or more try_puts racing on a write_once_node that has not been written yet',
 's_C16_critical_task_isolation': 'a non-isolated thread goes straight from a task stolen out of an isolate region to a critical task (prioritised flow-graph node) whose body spawns work, while another thread waits inside that isolate region',
 's_C17_aligned_boundary_le': 'aligned allocation with alignment 128..4096 and size == 8129 - alignment, followed by msize/free/realloc',
 's_C18_huge_cache_boundary': 'a REFUSED large allocation (pool callback / mmap fails) whose internal size rounds to exactly 1 TB',
 's_C19_ets_next_hoist': '>=3 threads making their first access concurrently while the element count crosses a doubling; the smaller-array grower publishes first, the bigger one retries its CAS',
 's_C20_coroutine_waiter_recheck': 'arena of size 1; resume lands after the suspended thread`s last scan of the resume stream and before it parks',
 'r2_C04_reset_clears_hint': 'a parent context with a still-bound child is reset (explicitly or by task_group::wait), reused without binding a new child, and cancelled',
 'r2_C05_proportional_floor': 'static/affinity partitioner, arena concurrency with an odd factor, a 2-element sub-range reaching the odd divisor',
 'r2_C06_detreduce_overload': 'parallel_deterministic_reduce through one of the two context-taking lambda-form overloads with a non-associative reduction',
 'r2_C07_token_renumbered': 'filter sequence serial_in_order ... serial_out_of_order ... serial_in_order with two items overtaking each other in between',
 'r2_C08_rtm_write_flag_order': 'working HTM; two real writers handing the lock over back to back and a speculating reader starting its transaction in between',
 'r2_C13_pop_status_before_elem': 'a batch with a push and a pop where the pop is served from the just-pushed element and belongs to another thread than the handler; the popper reads its output before the handler wrote it',
 'r2_C15_limiter_future_decrement': 'a decrement reaches the limiter while the put that forwarded its message is still in flight and the count is 0',
 'r2_C19_once_loop_condition': 'winner`s function throws while another caller is moonlighting as helper',
 'r2_C01_get_task_head_restore': 'an owner whose deque holds only tasks it must skip (isolation mismatch) in front of the one it takes: get_task drains the pool with omitted tasks and restores head',
 'r2_C02_mutex_unlock_plain_store': 'a contended tbb::mutex whose waiter is entering prepare_wait when the owner unlocks; store-buffer delay of the owner`s flag store (TSO), and no later unlock',
 'r2_C03_cancel_not_atomic': 'two threads cancelling the same task_group_context at the same time (e.g. two bodies throwing): both become "first canceller"',
 'r2_C03_cancel_not_atomic__asC04': 'as r2_C03_cancel_not_atomic (same patch run against the C04 check)',
 'r2_C09_try_push_head_hoisted': 'bounded queue at capacity-1..capacity: try_push whose CAS is retried after another thread popped and pushed in between',
 'r2_C10_find_mask_race_disabled': 'find/count overlapping a table growth and the lazy split of exactly the bucket it looks at, delayed between loading my_mask and acquiring the bucket lock',
 'r2_C11_segment_base_trunc32': 'a concurrent_vector (or any segment_table user) with >= 2^32 elements',
 'r2_C12_skiplist_swap_height': 'swap() of a populated concurrent ordered container with an empty or shallower one, then lookups in the taller list',
 'r2_C14_reset_forwarder_busy': 'a rejecting function_node whose forwarder task was pending when the graph was cancelled, then graph::reset() and reuse',
 'r2_C16_mandatory_allotment': 'global_control max_allowed_parallelism=1 (soft limit 0) with two or more arenas having enqueued (mandatory) work',
 'r2_C17_realloc_copysize': 'realloc of a large (>= 8 KB class) object to a size within 16 bytes of the end of its block',
 'r2_C18_slab_rollback_stride': 'slab refill (several slabs at once) during which the back-reference table cannot grow (out of memory) after the first slab got its back reference',
 'r2_C20_critical_resume_not_advertised': 'a task suspended from inside a critical task, resumed while every thread of the arena is asleep or leaving',
 'r3_C04_propagate_stops_at_cancelled_ancestor': 'a context tree >= 3 levels deep: the middle context is cancelled, a descendant is reset while the middle is still cancelled (task_group::wait returning canceled, group reused), then a context above the middle is cancelled',
 'r3_C20_request_workers_zero_delta_return': 'an arena without worker slots (task_arena(1), task_arena(n,n)) whose threads are already asleep when resume() is called from a foreign thread',
 'r3_C11_gtal_wait_first_block_seg0': 'a first block of >= 2 segments being published by one thread (table[0] set, table[1..] not yet) while another thread calls grow_to_at_least(n) with n-1 in segment >= 1 and n already claimed',
 'r3_C17_calloc_overflow_heuristic_and': 'scalable_calloc(nobj, size) with exactly one factor >= 2^32 and a true product >= 2^64',
 'r3_C14_buffer_consume_no_forward': 'a buffering node with both a reserving (pull) successor and a push successor; an item is reserved, a put or a successor registration arrives during the reservation, then the reservation is consumed',
 'r3_C14_buffer_consume_no_forward__asC15': 'as r3_C14_buffer_consume_no_forward (same patch run against the C15 check)',
 'r3_C01_empty_proxy_slot_not_cleared': 'one deque holding an affinity proxy already emptied through the mailbox (owner`s isolation tag) below a task with a different isolation tag; owner scans under isolation, then allocates/spawns again',
 'r3_C08_notify_by_address_one_unfiltered': 'two tbb::mutex objects whose addresses hash to the same of the 2048 address-waiter monitors, a thread really asleep on each, the sleeper of the OTHER mutex older in the queue, no later unlock through that monitor',
 'r3_C08_notify_by_address_one_unfiltered__asC02': 'as r3_C08_notify_by_address_one_unfiltered (same patch run against the C02 check)',
 'r3_C05_blocked_range_split_signed_half': 'blocked_range<int> (signed Value) holding more elements than the signed type can count, e.g. (-1500000000, 1500000000)',
 'r3_C18_remap_revert_no_register': 'Linux, default pool, a large object alone in its region at the edge of the mapped address range; the kernel refuses exactly that mremap (RLIMIT_AS); then a pointer-validating entry point (safer_msize/free/realloc)',
 'r3_C03_start_for_node_before_child': 'a Range splitting/copy constructor or Body copy constructor that throws while parallel_for splits work',
 'r3_C12_skiplist_research_by_key': 'concurrent_multiset/multimap: >= 3 racing inserts of equivalent keys, two of height >= 2, the earlier node`s upper-level CAS failing while a later equivalent node completes; then count()/equal_range()',
 'r3_C06_scan_sum_slot_early': 'a parallel_scan body that enters the scheduler (nested parallelism / wait) so that the waiting thread runs its own not-yet-started right sibling',
 'r3_C07_serial_ooo_entry_skipped': 'a serial_out_of_order filter that is not the first filter, >= 2 threads and >= 2 live tokens',
 'r3_C09_try_pop_empty_eq': 'concurrent_bounded_queue with a blocked pop() (negative size) while another thread calls try_pop; with abort() an element is lost',
 'r3_C10_erase_prev_not_reset': 'two threads erasing by key two different keys of one bucket chain, the one erasing the predecessor winning the in-place lock upgrade',
 'r3_C13_reheap_mark_jump': 'one aggregator batch that contains a pop followed by pushes (elements appended behind mark) on a non-empty heap',
 'r3_C16_exit_observer_after_release': 'an arena with observers where a thread leaves task_arena::execute while another thread waits for a slot',
 'r3_C19_ets_tls_clear': 'enumerable_thread_specific<T, A, ets_key_per_instance> used by >= 2 threads, clear()/assignment by one of them, then local() on another',
}
def main():
    confirm = {}
    p = os.path.join(V, 'seeded', 'CONFIRM.log')
    if os.path.exists(p):
        for line in open(p):
            m = re.match(r'(\d\d:\d\d) (\S+): (.*)$', line.strip())
            if m: confirm[m.group(2)] = m.group(3)
    results = {}
    p = os.path.join(V, 'seeded', 'RESULTS.md')
    for line in open(p):
        if not line.startswith('| ') or line.startswith('| seed') or line.startswith('|---'): continue
        cols = [c.strip() for c in line.strip().strip('|').split('|')]
        sid = cols[0].split(' ')[0]
        results.setdefault(sid, []).append({'quick': cols[3], 'thorough': cols[4], 'caught_by': cols[5]})
    for sid in sorted(os.listdir(os.path.join(V, 'seeded'))):
        d = os.path.join(V, 'seeded', sid)
        mp = os.path.join(d, 'meta.json')
        if not os.path.isdir(d) or not os.path.exists(mp): continue
        meta = json.load(open(mp))
        if sid.startswith('real_'):
            meta['detection'] = results.get(sid, [])
        else:
            meta.setdefault('origin', 'independent sub-agent given only the property text and its own scratch worktree' + (' (second round: different mechanism than the first seed)' if sid.startswith('r2_') else ''))
            if NEEDS.get(sid): meta['needs_to_manifest'] = NEEDS[sid]
            meta['demonstration'] = 'demo.cpp (see README.md of the seeder: fails with the change, passes without)' if os.path.exists(os.path.join(d, 'demo.cpp')) else meta.get('demonstration', 'n/a')
            meta['coordinator_confirmation'] = confirm.get(sid.replace('__asC15', ''), 'not run through the full-suite queue') + ' | (tools/seed_confirm.sh: patch applied in a scratch worktree with a complete build, COMPLETE ctest suite, demo built against patched and unpatched library; demo rc 0 = passes, non-zero = fails)'
            meta['what_was_run'] = 'tools/seedtest.sh %s [--tier thorough] (the property`s check against a scratch copy of the sources with the patch applied; never applied to /repo while other work was reading it)' % sid
            meta['detection'] = results.get(sid, [])
        json.dump(meta, open(mp, 'w'), indent=1)
    print('meta rebuilt for', len(os.listdir(os.path.join(V, 'seeded'))), 'entries')
if __name__ == '__main__': main()

#!/usr/bin/env python3
"""Prototype LLVM-14 textual IR -> C translator (subset) for CBMC.
usage: ir2c.py in.ll out.c [--mm tso] [--spin K]
"""
import re, sys, collections

# ---------------------------------------------------------------- lexer
TOK = re.compile(r'''
   (?P<ws>\s+)
 | (?P<str>c?"(?:[^"\\]|\\.)*")
 | (?P<lid>%(?:"(?:[^"\\]|\\.)*"|[-a-zA-Z$._0-9]+))
 | (?P<gid>@(?:"(?:[^"\\]|\\.)*"|[-a-zA-Z$._0-9]+))
 | (?P<meta>![-a-zA-Z$._0-9]*(?:\([^)]*\))?)
 | (?P<attr>\#[0-9]+)
 | (?P<float>-?[0-9]+\.[0-9]*(?:e[-+]?[0-9]+)?|0x[KLMHR]?[0-9A-Fa-f]+)
 | (?P<int>-?[0-9]+)
 | (?P<dots>\.\.\.)
 | (?P<word>[a-zA-Z_][a-zA-Z0-9_.]*)
 | (?P<punct>[(){}\[\]<>,=*:])
''', re.X)

def lex(s):
    out = []
    i = 0
    while i < len(s):
        m = TOK.match(s, i)
        if not m:
            raise SyntaxError("lex error at: " + s[i:i+40])
        i = m.end()
        k = m.lastgroup
        if k == 'ws':
            continue
        out.append((k, m.group(k)))
    return out

# ---------------------------------------------------------------- types
class Ty:
    pass
class TVoid(Ty):
    def __repr__(s): return 'void'
class TInt(Ty):
    def __init__(s, n): s.n = n
    def __repr__(s): return 'i%d' % s.n
class TFloat(Ty):
    def __init__(s, k): s.k = k
    def __repr__(s): return s.k
class TPtr(Ty):
    def __init__(s, to): s.to = to
    def __repr__(s): return repr(s.to) + '*'
class TArr(Ty):
    def __init__(s, n, el): s.n = n; s.el = el
    def __repr__(s): return '[%d x %r]' % (s.n, s.el)
class TNamed(Ty):
    def __init__(s, name): s.name = name
    def __repr__(s): return s.name
class TStruct(Ty):
    def __init__(s, els, packed): s.els = els; s.packed = packed
    def __repr__(s): return ('<{%s}>' if s.packed else '{%s}') % ','.join(map(repr, s.els))
class TFunc(Ty):
    def __init__(s, ret, args, va): s.ret = ret; s.args = args; s.va = va
    def __repr__(s): return '%r(%s%s)' % (s.ret, ','.join(map(repr, s.args)), ',...' if s.va else '')
class TOpaque(Ty):
    def __repr__(s): return 'opaque'
class TVec(Ty):
    def __init__(s, n, el): s.n = n; s.el = el
    def __repr__(s): return '<%d x %r>' % (s.n, s.el)

PARAM_ATTRS = set('''noundef nonnull nocapture readonly writeonly readnone noalias zeroext signext returned
 immarg inreg nest nofree swiftself swifterror'''.split())
PARAM_ATTRS_ARG = set('align dereferenceable dereferenceable_or_null sret byval byref inalloca preallocated elementtype'.split())

class P:
    """token stream parser"""
    def __init__(s, toks): s.t = toks; s.i = 0
    def peek(s, k=0):
        return s.t[s.i + k] if s.i + k < len(s.t) else ('eof', '')
    def next(s):
        x = s.peek(); s.i += 1; return x
    def at(s, v): return s.peek()[1] == v
    def accept(s, v):
        if s.peek()[1] == v:
            s.i += 1; return True
        return False
    def expect(s, v):
        x = s.next()
        if x[1] != v:
            raise SyntaxError('expected %r got %r in %r' % (v, x, s.t[max(0, s.i - 8):s.i + 5]))
    def eof(s): return s.i >= len(s.t)

    def type(s):
        k, v = s.next()
        if k == 'word':
            if v == 'void': t = TVoid()
            elif re.fullmatch(r'i[0-9]+', v): t = TInt(int(v[1:]))
            elif v in ('float', 'double', 'x86_fp80', 'half'): t = TFloat(v)
            elif v == 'opaque': t = TOpaque()
            elif v == 'label' or v == 'metadata' or v == 'token': t = TNamed(v)
            else: raise SyntaxError('type? ' + v)
        elif k == 'lid':
            t = TNamed(v)
        elif v == '[':
            n = int(s.next()[1]); s.expect('x'); el = s.type(); s.expect(']')
            t = TArr(n, el)
        elif v == '{':
            els = []
            if not s.accept('}'):
                while True:
                    els.append(s.type())
                    if s.accept('}'): break
                    s.expect(',')
            t = TStruct(els, False)
        elif v == '<':
            if s.at('{'):
                s.next(); els = []
                if not s.accept('}'):
                    while True:
                        els.append(s.type())
                        if s.accept('}'): break
                        s.expect(',')
                s.expect('>')
                t = TStruct(els, True)
            else:
                n = int(s.next()[1]); s.expect('x'); el = s.type(); s.expect('>')
                t = TVec(n, el)
        else:
            raise SyntaxError('type? %r %r' % (k, v))
        while True:
            if s.at('*'):
                s.next(); t = TPtr(t)
            elif s.at('(') :
                # function type
                s.next(); args = []; va = False
                if not s.accept(')'):
                    while True:
                        if s.peek()[0] == 'dots':
                            s.next(); va = True
                        else:
                            args.append(s.type())
                            s.skip_param_attrs()
                        if s.accept(')'): break
                        s.expect(',')
                t = TFunc(t, args, va)
            else:
                break
        return t

    def skip_param_attrs(s):
        while True:
            k, v = s.peek()
            if k == 'word' and v in PARAM_ATTRS:
                s.next()
            elif k == 'word' and v in PARAM_ATTRS_ARG:
                s.next()
                if s.at('('):
                    d = 0
                    while True:
                        x = s.next()[1]
                        if x == '(': d += 1
                        elif x == ')':
                            d -= 1
                            if d == 0: break
                else:
                    s.next()  # align N
            else:
                break

# ---------------------------------------------------------------- values
class V:
    """value: kind in local, global, int, float, null, undef, zero, cexpr, agg, str"""
    def __init__(s, kind, ty, **kw):
        s.kind = kind; s.ty = ty; s.__dict__.update(kw)

CONSTEXPR_CASTS = ('bitcast', 'ptrtoint', 'inttoptr', 'trunc', 'zext', 'sext', 'addrspacecast')
CONSTEXPR_BIN = ('add', 'sub', 'mul', 'and', 'or', 'xor', 'shl', 'lshr', 'ashr', 'udiv', 'sdiv')

def parse_value(p, ty):
    k, v = p.next()
    if k == 'lid': return V('local', ty, name=v)
    if k == 'gid': return V('global', ty, name=v)
    if k == 'int': return V('int', ty, val=int(v))
    if k == 'float': return V('float', ty, val=v)
    if k == 'str': return V('str', ty, val=v)
    if k == 'word':
        if v == 'true': return V('int', ty, val=1)
        if v == 'false': return V('int', ty, val=0)
        if v == 'null': return V('null', ty)
        if v in ('undef', 'poison'): return V('undef', ty)
        if v == 'zeroinitializer': return V('zero', ty)
        if v == 'getelementptr':
            p.accept('inbounds')
            p.expect('(')
            bt = p.type(); p.expect(',')
            ops = []
            while True:
                p.accept('inrange'); t = p.type(); ops.append(parse_value(p, t))
                if p.accept(')'): break
                p.expect(',')
            return V('cexpr', ty, op='gep', bt=bt, ops=ops)
        if v in CONSTEXPR_CASTS:
            p.expect('('); t = p.type(); x = parse_value(p, t); p.expect('to'); t2 = p.type(); p.expect(')')
            return V('cexpr', t2, op=v, ops=[x])
        if v in CONSTEXPR_BIN:
            while p.peek()[1] in ('nsw', 'nuw', 'exact'): p.next()
            p.expect('('); t = p.type(); a = parse_value(p, t); p.expect(','); t2 = p.type(); b = parse_value(p, t2); p.expect(')')
            return V('cexpr', t, op=v, ops=[a, b])
        if v == 'icmp':
            pred = p.next()[1]
            p.expect('('); t = p.type(); a = parse_value(p, t); p.expect(','); t2 = p.type(); b = parse_value(p, t2); p.expect(')')
            return V('cexpr', TInt(1), op='icmp', pred=pred, ops=[a, b])
        if v == 'select':
            p.expect('('); t = p.type(); c = parse_value(p, t); p.expect(','); t1 = p.type(); a = parse_value(p, t1); p.expect(','); t2 = p.type(); b = parse_value(p, t2); p.expect(')')
            return V('cexpr', t1, op='select', ops=[c, a, b])
        raise SyntaxError('value word? ' + v)
    if v == '{' or v == '[' or v == '<':
        close = {'{': '}', '[': ']', '<': '>'}[v]
        packed = False
        if v == '<' and p.at('{'):
            p.next(); packed = True; close = '}'
        els = []
        if not p.accept(close):
            while True:
                t = p.type(); els.append(parse_value(p, t))
                if p.accept(close): break
                p.expect(',')
        if packed: p.expect('>')
        return V('agg', ty, els=els)
    raise SyntaxError('value? %r %r' % (k, v))

# ---------------------------------------------------------------- module
class Func:
    pass
class Inst:
    def __init__(s, **kw): s.__dict__.update(kw)

def strip_meta(line):
    # remove trailing ", !dbg !12, !tbaa !3" and "#N"
    line = re.sub(r',\s*![a-zA-Z_.0-9]+\s+![0-9]+', '', line)
    return line

class Module:
    def __init__(s):
        s.named = collections.OrderedDict()   # name -> Ty
        s.globals = collections.OrderedDict() # name -> (ty, init V or None, const)
        s.funcs = collections.OrderedDict()   # name -> Func
        s.decls = collections.OrderedDict()   # name -> (ret, [argtys], va)
        s.nounwind_groups = set()             # attribute groups (#n) that contain nounwind
        s.fn_attrs = {}                       # function name -> set of attribute-group tokens / words on its header
        s.typeids = collections.OrderedDict() # typeinfo global name -> small integer (landingpad selectors)

_cname_of = {}; _cname_used = {}
def cname(n):
    """LLVM identifier -> C identifier (two identifiers that would collide, e.g. %"x.base" vs %"x_base", are kept apart by a suffix)"""
    n = n[1:]
    if n.startswith('"'): n = n[1:-1]
    if n in _cname_of: return _cname_of[n]
    c = re.sub(r'[^A-Za-z0-9_]', '_', n); k = 1
    while _cname_used.get(c, n) != n:
        k += 1; c = re.sub(r'[^A-Za-z0-9_]', '_', n) + '_c%d' % k
    _cname_used[c] = n; _cname_of[n] = c
    return c

def parse_module(text):
    M = Module()
    lines = text.split('\n')
    i = 0
    while i < len(lines):
        line = lines[i]; i += 1
        if line.startswith('attributes '):
            m = re.match(r'attributes (#\d+) = \{(.*)\}', line)
            if m and re.search(r'\bnounwind\b', m.group(2)): M.nounwind_groups.add(m.group(1))
            continue
        if not line or line.startswith(';') or line.startswith('source_filename') or line.startswith('target ') \
           or line.startswith('!') or line.startswith('$'):
            continue
        if line.startswith('%'):
            m = re.match(r'(%(?:"[^"]*"|[-a-zA-Z$._0-9]+)) = type (.*)$', line)
            p = P(lex(m.group(2)))
            M.named[m.group(1)] = p.type()
            continue
        if line.startswith('@'):
            parse_global(M, strip_meta(line))
            continue
        if line.startswith('declare'):
            p = P(lex(strip_meta(line)))
            p.next()
            parse_fn_header(M, p, True)
            continue
        if line.startswith('define'):
            body = []
            while lines[i] != '}':
                body.append(lines[i]); i += 1
            i += 1
            p = P(lex(strip_meta(line.rstrip('{ '))))
            p.next()
            f = parse_fn_header(M, p, False)
            parse_body(f, body)
            continue
        raise SyntaxError('top-level? ' + line[:80])
    return M

LINKAGE = set('''private internal available_externally linkonce weak common appending extern_weak linkonce_odr weak_odr
 external dso_local dso_preemptable default hidden protected dllimport dllexport thread_local unnamed_addr local_unnamed_addr
 externally_initialized'''.split())

def parse_global(M, line):
    p = P(lex(line))
    name = p.next()[1]; p.expect('=')
    while p.peek()[0] == 'word' and p.peek()[1] in LINKAGE:
        w = p.next()[1]
        if w == 'thread_local' and p.at('('):
            while p.next()[1] != ')': pass
    k = p.next()[1]
    if k == 'alias':
        return
    const = (k == 'constant')
    ty = p.type()
    init = None
    if not p.eof() and not p.at(','):
        init = parse_value(p, ty)
    M.globals[name] = (ty, init, const)

FN_SKIP = set('''dso_local hidden internal linkonce_odr weak_odr weak linkonce private available_externally noundef zeroext signext
 nonnull noalias fastcc ccc coldcc external protected default unnamed_addr local_unnamed_addr'''.split())

def parse_fn_header(M, p, is_decl):
    while True:
        k, v = p.peek()
        if k == 'word' and (v in FN_SKIP):
            p.next()
        elif k == 'word' and v in ('align', 'dereferenceable', 'dereferenceable_or_null'):
            p.next()
            if p.at('('):
                while p.next()[1] != ')': pass
            else: p.next()
        else:
            break
    # return type: must parse without consuming '(' of params: parse base type manually
    ret = parse_type_nofn(p)
    name = p.next()[1]
    p.expect('(')
    args = []; va = False
    if not p.accept(')'):
        while True:
            if p.peek()[0] == 'dots':
                p.next(); va = True
            else:
                t = parse_type_nofn_allow_fnptr(p)
                p.skip_param_attrs()
                an = None
                if p.peek()[0] == 'lid':
                    an = p.next()[1]
                args.append((t, an))
            if p.accept(')'): break
            p.expect(',')
    M.fn_attrs[name] = set(v for k, v in p.t[p.i:] if k in ('attr', 'word'))
    if is_decl:
        M.decls[name] = (ret, [a[0] for a in args], va)
        return None
    f = Func(); f.name = name; f.ret = ret; f.args = args; f.va = va
    M.funcs[name] = f
    return f

def parse_type_nofn(p):
    """parse a type but stop before a '(' that begins a parameter list when followed by callee/args.
    Heuristic: parse full type; function-pointer types always end with '*' so a trailing TFunc means we over-consumed."""
    save = p.i
    t = p.type()
    if isinstance(t, TFunc):
        # over-consumed: re-parse without function suffix
        p.i = save
        t = parse_type_base(p)
    return t

def parse_type_base(p):
    # parse type, not consuming '(' suffixes at top level
    toks = p.t; start = p.i
    # find end: parse a primary then only '*' suffixes
    k, v = p.peek()
    # emulate P.type primary
    sub = P(toks); sub.i = p.i
    # trick: temporarily cut token list at first top-level '('
    depth = 0; j = p.i
    while j < len(toks):
        x = toks[j][1]
        if x in '([{<' and len(x) == 1:
            if x == '(' and depth == 0: break
            depth += 1
        elif x in ')]}>' and len(x) == 1:
            depth -= 1
        j += 1
        if depth == 0 and j < len(toks) and toks[j][1] not in ('*',):
            # continue only while '*' follow
            pass
    sub = P(toks[:j]); sub.i = p.i
    t = sub.type()
    p.i = sub.i
    return t

def parse_type_nofn_allow_fnptr(p):
    return p.type()

def parse_body(f, body):
    f.blocks = collections.OrderedDict()
    cur = None
    j = 0
    while j < len(body):
        line = body[j]; j += 1
        if not line.strip() or line.lstrip().startswith(';'):
            continue
        m = re.match(r'^([-a-zA-Z$._0-9]+|"[^"]*"):', line)
        if m:
            cur = []; f.blocks['%' + m.group(1)] = cur
            continue
        if cur is None:
            cur = []; f.blocks['%entry__'] = cur
        line = line.split(' ; ')[0] if ' ; ' in line and '"' not in line else line
        if re.search(r'\bswitch\b', line) and line.rstrip().endswith('['):
            while not body[j].strip().startswith(']'):
                line += ' ' + body[j].strip(); j += 1
            line += ' ]'; j += 1
        if re.match(r'\s*(%\S+ = )?invoke\b', line) and ' unwind label ' not in line:
            while j < len(body) and ' unwind label ' not in line:
                line += ' ' + body[j].strip(); j += 1
        if re.search(r'= landingpad\b', line):
            while j < len(body) and re.match(r'\s+(catch|cleanup|filter)\b', body[j]):
                line += ' ' + body[j].strip(); j += 1
        cur.append(strip_meta(line.strip()))

# ---------------------------------------------------------------- C emission
class Emit:
    def __init__(s, M, opts):
        s.M = M; s.opts = opts
        s.lit = collections.OrderedDict()   # literal struct repr -> name
        s.arr = collections.OrderedDict()   # array repr -> (name, ty)
        s.typedefs = []                     # ordered emission of struct defs
        s.defined = set()
        s.out = []
        s.fnptr_sigs = {}

    # ---- type names
    def ct(s, t):
        if isinstance(t, TVoid): return 'void'
        if isinstance(t, TInt):
            n = t.n
            if n <= 8: return 'u8'
            if n <= 16: return 'u16'
            if n <= 32: return 'u32'
            if n <= 64: return 'u64'
            if n <= 128: return 'u128'
            raise NotImplementedError('int width %d' % n)
        if isinstance(t, TFloat):
            return {'float': 'float', 'double': 'double', 'x86_fp80': 'long double'}[t.k]
        if isinstance(t, TPtr):
            if isinstance(t.to, TFunc): return 'vp_fn'
            if isinstance(t.to, TVoid): return 'u8*'
            return s.ct(t.to) + '*'
        if isinstance(t, TNamed):
            return 'struct S_' + cname(t.name)
        if isinstance(t, TStruct):
            key = repr(t)
            if key not in s.lit:
                s.lit[key] = ('L%d' % len(s.lit), t)
            return 'struct ' + s.lit[key][0]
        if isinstance(t, TArr):
            key = repr(t)
            if key not in s.arr:
                s.arr[key] = ('A%d' % len(s.arr), t)
            return 'struct ' + s.arr[key][0]
        if isinstance(t, TFunc): return 'vp_fnty'
        if isinstance(t, TOpaque): return 'void'
        raise NotImplementedError('ctype %r' % t)

    def fname(s, name):
        """C name of a function symbol: externals that are neither C++-mangled nor harness hooks (vp_*) are libc/OS
        functions; they get a vpx_ prefix so the generated prototypes (u8* everywhere) never clash with system headers.
        rt/vp.h supplies default vpx_* definitions; harnesses may override them (stubs with a documented contract)."""
        n = cname(name)
        if name in s.M.decls and name not in s.M.funcs and not n.startswith('_Z') and not n.startswith('vp_'):
            return 'vpx_' + n
        return n

    def sct(s, t):
        """signed C type"""
        return {'u8': 'int8_t', 'u16': 'int16_t', 'u32': 'int32_t', 'u64': 'int64_t', 'u128': '__int128'}[s.ct(t)]

    def resolve(s, t):
        while isinstance(t, TNamed):
            t = s.M.named[t.name]
        return t

    def mask(s, t, e):
        if isinstance(t, TInt) and t.n not in (8, 16, 32, 64, 128):
            return '((%s)((%s) & %s))' % (s.ct(t), e, hex((1 << t.n) - 1) + 'ull')
        return e

    # ---- struct definitions in dependency order
    def emit_struct_defs(s):
        out = []
        done = set(); visiting = set()
        def need(t):
            # by-value dependency
            if isinstance(t, TNamed):
                define_named(t.name)
            elif isinstance(t, TStruct):
                s.ct(t); define_lit(repr(t))
            elif isinstance(t, TArr):
                s.ct(t); define_arr(repr(t))
        def fields(els, packed):
            ls = []
            for i, e in enumerate(els):
                need(e)
                ls.append('  %s f%d;' % (s.ct(e), i))
            if not els: ls.append('  u8 empty__[0];')
            return ls
        def define_named(n):
            if n in done: return
            if n in visiting: raise RuntimeError('recursive struct ' + n)
            t = s.M.named[n]
            if isinstance(t, TOpaque):
                done.add(n); return
            visiting.add(n)
            ls = fields(t.els, t.packed)
            out.append('struct S_%s {\n%s\n}%s;' % (cname(n), '\n'.join(ls), ' __attribute__((packed))' if t.packed else ''))
            visiting.discard(n); done.add(n)
        def define_lit(key):
            if ('L', key) in done: return
            name, t = s.lit[key]
            ls = fields(t.els, t.packed)
            out.append('struct %s {\n%s\n}%s;' % (name, '\n'.join(ls), ' __attribute__((packed))' if t.packed else ''))
            done.add(('L', key))
        def define_arr(key):
            if ('A', key) in done: return
            name, t = s.arr[key]
            need(t.el)
            out.append('struct %s { %s a[%d]; };' % (name, s.ct(t.el), t.n))
            done.add(('A', key))
        # iterate until fixpoint as ct() may register new literal/array types
        changed = True
        while changed:
            n0 = (len(done))
            for n in list(s.M.named):
                define_named(n)
            for k in list(s.lit): define_lit(k)
            for k in list(s.arr): define_arr(k)
            changed = len(done) != n0
        return out

    # ---- values
    def val(s, v, fn=None):
        t = v.ty
        k = v.kind
        if k == 'local': return s.lname(v.name)
        if k == 'global':
            n = cname(v.name)
            if v.name in s.M.funcs or v.name in s.M.decls:
                return '((vp_fn)%s)' % s.fname(v.name)
            return '(&%s)' % n
        if k == 'int':
            if isinstance(t, TInt):
                val = v.val & ((1 << t.n) - 1)
                if t.n > 64:
                    return '((((u128)%dull)<<64)|%dull)' % (val >> 64, val & ((1 << 64) - 1))
                return '((%s)%dull)' % (s.ct(t), val)
            return str(v.val)
        if k == 'float':
            x = v.val
            if x.startswith('0x'):
                import struct
                d = struct.unpack('>d', bytes.fromhex(x[2:].rjust(16, '0')))[0]
                return '((%s)%r)' % (s.ct(t), d)
            return '((%s)%s)' % (s.ct(t), x)
        if k == 'null': return '((%s)0)' % s.ct(t)
        if k == 'undef':
            if isinstance(s.resolve(t), (TStruct, TArr)): return '(%s){0}' % s.ct(t)
            return '((%s)0)' % s.ct(t)
        if k == 'zero': return '(%s){0}' % s.ct(t)
        if k == 'cexpr':
            if v.op == 'gep':
                return s.gep_expr(v.bt, [ (o.ty, s.val(o)) for o in v.ops ])
            if M1PTR and v.op == 'inttoptr' and v.ops[0].kind == 'int' and v.ops[0].val in (-1, (1 << 64) - 1):
                return '((%s)&vp_m1_obj)' % s.ct(t)   # --m1ptr: the sentinel pointer (T*)-1 is the address of a dedicated object
            if v.op in ('bitcast', 'inttoptr', 'addrspacecast'):
                return '((%s)%s)' % (s.ct(t), s.val(v.ops[0]))
            if v.op == 'ptrtoint':
                return '((%s)(u64)%s)' % (s.ct(t), s.val(v.ops[0]))
            if v.op in ('trunc', 'zext'):
                return s.mask(t, '((%s)%s)' % (s.ct(t), s.val(v.ops[0])))
            if v.op in CONSTEXPR_BIN:
                return s.binop(v.op, t, s.val(v.ops[0]), s.val(v.ops[1]))
            if v.op == 'icmp':
                return s.icmp(v.pred, v.ops[0].ty, s.val(v.ops[0]), s.val(v.ops[1]))
            if v.op == 'select':
                return '(%s ? %s : %s)' % (s.val(v.ops[0]), s.val(v.ops[1]), s.val(v.ops[2]))
        raise NotImplementedError('val %s' % k)

    def init(s, v):
        """static initializer expression"""
        t = s.resolve(v.ty)
        if v.kind == 'agg':
            if isinstance(t, TArr):
                return '{{%s}}' % ', '.join(s.init(e) for e in v.els)
            return '{%s}' % ', '.join(s.init(e) for e in v.els)
        if v.kind == 'zero' or v.kind == 'undef':
            if isinstance(t, (TStruct, TArr)): return '{0}'
            return '0'
        if v.kind == 'str':
            raw = v.val[2:-1]
            bs = []
            i = 0
            while i < len(raw):
                if raw[i] == '\\' and raw[i+1:i+2] == '\\':   # LLVM writes a literal backslash as \\
                    bs.append(0x5c); i += 2
                elif raw[i] == '\\':
                    bs.append(int(raw[i+1:i+3], 16)); i += 3
                else:
                    bs.append(ord(raw[i])); i += 1
            return '{{%s}}' % ','.join(map(str, bs))
        return s.val(v)

    def lname(s, n):
        n = n[1:]
        if n.startswith('"'): n = n[1:-1]
        return 'v_' + re.sub(r'[^A-Za-z0-9_]', '_', n)

    def gep_expr(s, bt, ops, syms=None):
        # syms (optional list): receives (index C expression, array length) for every non-constant array index of the path
        # ops: [(ty, cexpr)] first is base pointer
        base = ops[0][1]
        e = '((%s*)%s)' % (s.ct(bt), base) if not isinstance(bt, TVoid) else base
        cur = bt
        first = True
        expr = None
        for (ity, idx) in ops[1:]:
            sidx = '((%s)%s)' % (s.sct(ity), idx) if isinstance(ity, TInt) else idx
            if first:
                expr = '(%s + %s)' % (e, sidx) if idx not in ('((u64)0ull)', '((u32)0ull)') else e
                first = False
                # expr is pointer to cur
                lv = '(*%s)' % expr
                continue
            r = s.resolve(cur)
            if isinstance(r, TStruct):
                m = re.search(r'\)(\d+)ull\)$', idx)
                k = int(m.group(1))
                lv = '%s.f%d' % (lv, k)
                cur = r.els[k]
            elif isinstance(r, TArr):
                lv = '%s.a[%s]' % (lv, sidx)
                if syms is not None and not re.fullmatch(r'\(\(int\d+_t\)\(\(u\d+\)\d+ull\)\)', sidx): syms.append((sidx, r.n))
                cur = r.el
            else:
                raise NotImplementedError('gep into %r' % r)
        if len(ops) == 2:
            return expr
        return '(&%s)' % lv

    def binop(s, op, t, a, b):
        ct = s.ct(t)
        if op in ('add', 'sub', 'mul', 'and', 'or', 'xor', 'udiv', 'urem', 'shl', 'lshr'):
            sym = {'add': '+', 'sub': '-', 'mul': '*', 'and': '&', 'or': '|', 'xor': '^', 'udiv': '/', 'urem': '%', 'shl': '<<', 'lshr': '>>'}[op]
            return s.mask(t, '((%s)(%s %s %s))' % (ct, a, sym, b))
        sa = s.sext_to_c(t, a); sb = s.sext_to_c(t, b)
        if op == 'sdiv': return s.mask(t, '((%s)(%s / %s))' % (ct, sa, sb))
        if op == 'srem': return s.mask(t, '((%s)(%s %% %s))' % (ct, sa, sb))
        if op == 'ashr': return s.mask(t, '((%s)(%s >> %s))' % (ct, sa, b))
        raise NotImplementedError(op)

    def sext_to_c(s, t, a):
        """value of iN held in unsigned C type -> signed C value"""
        if t.n in (8, 16, 32, 64, 128):
            return '((%s)%s)' % (s.sct(t), a)
        # odd width: shift up then arithmetic shift down
        w = {'u8': 8, 'u16': 16, 'u32': 32, 'u64': 64, 'u128': 128}[s.ct(t)]
        sh = w - t.n
        return '(((%s)(%s << %d)) >> %d)' % (s.sct(t), a, sh, sh)

    def icmp(s, pred, t, a, b):
        rt = s.resolve(t)
        if isinstance(rt, TPtr):
            if pred in ('eq', 'ne'):
                return '((u8)(%s %s %s))' % (a, '==' if pred == 'eq' else '!=', b)
            a = '((u64)%s)' % a; b = '((u64)%s)' % b
            t = TInt(64)
        sym = {'eq': '==', 'ne': '!=', 'ugt': '>', 'uge': '>=', 'ult': '<', 'ule': '<=', 'sgt': '>', 'sge': '>=', 'slt': '<', 'sle': '<='}[pred]
        if pred[0] == 's':
            a = s.sext_to_c(t, a); b = s.sext_to_c(t, b)
        return '((u8)(%s %s %s))' % (a, sym, b)

# ---------------------------------------------------------------- function translation
ORD_SEQ = 'seq_cst'

class FnTr:
    def __init__(s, E, f, thread=False, outname=None):
        s.E = E; s.f = f; s.M = E.M
        s.outname = outname or cname(f.name)
        s.thread = thread; s.nvis = 0; s.private = set(); s.cuts = []; s.atomic_callees = set(); s.spin_cuts = 0
        s.lval = {}   # --lvalpath: SSA name of a pointer -> (C lvalue expression it points to, IR type of that lvalue)
        s.decl = collections.OrderedDict()  # cname -> ctype
        s.code = []
        s.tmpn = 0

    def setv(s, name, ty):
        n = s.E.lname(name)

        ct = s.E.ct(ty)
        s.decl[n] = ct
        return n

    def tmp(s, ct):
        s.tmpn += 1
        n = 't__%d' % s.tmpn
        s.decl[n] = ct
        return n

    def tv(s, p):
        """parse 'type value'"""
        t = p.type(); v = parse_value(p, t)
        return t, v

    def run(s):
        E = s.E; f = s.f
        blocks = f.blocks
        # collect phis first: map block -> list of (dest, ty, [(val, pred)])
        s.phis = collections.defaultdict(list)
        parsed = collections.OrderedDict()
        for bn, insts in blocks.items():
            pl = []
            for line in insts:
                toks = lex(line)
                pl.append(toks)
                # phi detection
                if len(toks) > 3 and toks[1][1] == '=' and toks[2][1] == 'phi':
                    p = P(toks); dest = p.next()[1]; p.next(); p.next()
                    ty = p.type(); inc = []
                    while True:
                        p.expect('['); v = parse_value(p, ty); p.expect(','); pred = p.next()[1]; p.expect(']')
                        inc.append((v, pred))
                        if not p.accept(','): break
                    s.phis[bn].append((dest, ty, inc))
            parsed[bn] = pl
        if s.thread:
            s.first_in_block = {}
            # SSA names whose value depends on memory or a call result (fixpoint over operands)
            md = set(); insts_ = []
            for bn, pl in parsed.items():
                for toks in pl:
                    if len(toks) > 2 and toks[1][1] == '=':
                        d_ = toks[0][1]; op_ = toks[2][1]
                        if op_ in ('tail', 'notail', 'musttail'): op_ = toks[3][1]
                        if op_ in ('load', 'cmpxchg', 'atomicrmw', 'call', 'invoke', 'landingpad'): md.add(d_)
                        else: insts_.append((d_, [v for k, v in toks[3:] if k == 'lid']))
            ch_ = True
            while ch_:
                ch_ = False
                for d_, ops_ in insts_:
                    if d_ not in md and any(o in md for o in ops_): md.add(d_); ch_ = True
            s.memderived = md
            order, s.backedges = s.cfg_order(parsed)
            s.classify_loops(parsed)
            parsed = collections.OrderedDict((bn, parsed[bn]) for bn in order)
        elif LOOPORDER:
            # --looporder (seq mode): emit blocks so that every natural loop is textually contiguous and its exits follow it;
            # cbmc then sees exactly the real back edges as backward gotos (LLVM's layout makes it re-execute code per iteration)
            parsed = collections.OrderedDict((bn, parsed[bn]) for bn in s.loop_order(parsed))
        for bn, pl in parsed.items():
            s.code.append('%s: ;' % s.label(bn))
            s.curblock = bn
            for toks in pl:
                if len(toks) > 3 and toks[1][1] == '=' and toks[2][1] == 'phi':
                    continue
                try:
                    if s.thread and s.visible(toks):
                        s.nvis += 1
                        n0 = len(s.code)
                        s.inst(P(toks))
                        body = ' '.join(s.code[n0:]); del s.code[n0:]
                        s.code.append('G(%d) { %s }' % (s.nvis, body))
                        if s.first_in_block.get(bn) is None: s.first_in_block[bn] = s.nvis
                    else:
                        if s.thread and s.first_in_block.get(bn) is None and (toks[0][1] in ('br', 'ret', 'switch', 'invoke', 'resume') or (len(toks) > 2 and toks[2][1] == 'invoke')):
                            s.first_in_block[bn] = s.nvis + 1
                        s.inst(P(toks))
                except Exception as ex:
                    raise RuntimeError('in %s: %s\n  %s' % (f.name, ' '.join(t[1] for t in toks)[:300], ex))
        # emit
        args = []
        for i, (t, an) in enumerate(f.args):
            args.append('%s %s' % (E.ct(t), E.lname(an) if an else 'a__%d' % i))
        hdr = '%s %s(%s)' % (E.ct(f.ret), cname(f.name), ', '.join(args) if args else 'void')
        argn = set(E.lname(an) for t, an in f.args if an)
        if s.thread:
            fn = s.outname
            lines = []
            for i, (t, an) in enumerate(f.args):
                lines.append('static %s %s__%s;' % (E.ct(t), fn, E.lname(an)))
            lines.append('unsigned %s_pc = 0, %s_cs = 0, %s_fin = 0, %s_blocked = 0;' % (fn, fn, fn, fn))
            lines.append('void %s_start(%s) { %s %s_pc = 0; }' % (fn, ', '.join(args) if args else 'void',
                ' '.join('%s__%s = %s;' % (fn, E.lname(an), E.lname(an)) for t, an in f.args), fn))
            lines.append('#define vp_pc %s_pc\n#define vp_cs %s_cs\n#define vp_fin %s_fin\n#define vp_blocked %s_blocked' % (fn, fn, fn, fn))
            for bn, k in s.first_in_block.items():
                lines.append('#define FIRST_%s %d' % (s.label(bn), k))
            for t, an in f.args:
                lines.append('#define %s %s__%s' % (E.lname(an), fn, E.lname(an)))
            if TSO:
                lines.append('static struct vp_sb %s_sb;' % fn)
                lines.append('void %s_flush(unsigned n) { vp_sb_flush(&%s_sb, n); }' % (fn, fn))
                lines.append('#define SB (&%s_sb)' % fn)
            lines.append('void %s_step(void) {' % fn)
            for n, ct in s.decl.items():
                if n in argn: continue
                lines.append('  static %s %s;' % (ct, n))
            lines.append('  unsigned vp_resume = 0, vp_jump = 0, vp_cs0 = vp_cs, vp_pc0 = vp_pc; vp_blocked = 0; static u8* vp_lp_exc;')
            for c in s.code:
                lines.append('  ' + c)
            lines.append('  END: if (!vp_fin) { if (vp_blocked && vp_resume != vp_pc0) vp_changed = 1;  /* parked somewhere else than where the slice began: progress */ vp_pc = vp_jump ? vp_resume : vp_cs0; }')
            lines.append('}')
            for t, an in f.args:
                lines.append('#undef %s' % E.lname(an))
            for bn, k in s.first_in_block.items():
                lines.append('#undef FIRST_%s' % s.label(bn))
            lines.append('#undef vp_pc\n#undef vp_cs\n#undef vp_fin\n#undef vp_blocked')
            if TSO: lines.append('#undef SB')
            hdr = 'void %s_step(void)' % fn
            return hdr, '\n'.join(lines)
        lines = [hdr + ' {']
        for n, ct in s.decl.items():
            if n in argn: continue
            lines.append('  %s %s;' % (ct, n))
        lines += ['  ' + c for c in s.code]
        lines.append('}')
        return hdr, '\n'.join(lines)

    def compute_private(s, parsed):
        # SSA names derived from non-escaping allocas
        allocas = set(); derived = {}
        uses = collections.defaultdict(list)
        for bn, pl in parsed.items():
            for toks in pl:
                if len(toks) > 2 and toks[1][1] == '=':
                    d = toks[0][1]; op = toks[2][1]
                    if op == 'alloca': allocas.add(d); derived[d] = d
                for k, v in toks[2:] if (len(toks) > 2 and toks[1][1] == '=') else toks:
                    if k == 'lid': uses[v].append(toks)
        changed = True
        while changed:
            changed = False
            for bn, pl in parsed.items():
                for toks in pl:
                    if len(toks) > 3 and toks[1][1] == '=' and toks[2][1] in ('getelementptr', 'bitcast'):
                        d = toks[0][1]
                        if d in derived: continue
                        # base operand: first lid after opcode
                        lids = [v for k, v in toks[3:] if k == 'lid' and not v.startswith('%"') ]
                        lids = [v for v in lids if v in derived]
                        if lids:
                            derived[d] = derived[lids[0]]; changed = True
        escaped = set()
        for v, root in derived.items():
            for toks in uses[v]:
                hasdest = len(toks) > 2 and toks[1][1] == '='
                op = toks[2][1] if hasdest else toks[0][1]
                if op in ('getelementptr', 'bitcast', 'load'): continue
                if op == 'store':
                    # escaping if stored as value (first operand)
                    # store T %val, T* %ptr : value is the first lid
                    lids = [x for k, x in toks if k == 'lid']
                    if lids and lids[0] == v and len(lids) > 1: escaped.add(root)
                    elif lids and lids[0] == v and len(lids) == 1:
                        # could be 'store T const, T* %v' fine
                        pass
                    continue
                if op == 'call' and any('llvm.lifetime' in x for k, x in toks): continue
                escaped.add(root)
        s.private = set(v for v, r in derived.items() if r not in escaped)

    def visible(s, toks):
        """returns True if instruction must be guarded (executed exactly once inside the pc..cs window)"""
        hasdest = len(toks) > 2 and toks[1][1] == '='
        i = 2 if hasdest else 0
        op = toks[i][1]
        if op in ('tail', 'notail', 'musttail'): i += 1; op = toks[i][1]
        if op == 'load' and IMMUT and s.lval:
            # --immutable (needs --lvalpath): a load whose lvalue path matches is not a scheduling point and is re-evaluated on every
            # replay (the harness promises, and should assert, that the location never changes while the threads run); the loaded
            # pointer then stays a constant for cbmc's symex instead of "object or not yet loaded"
            lids = [v for k, v in toks[i + 1:] if k == 'lid']
            if lids and lids[-1] in s.lval and any(re.search(rx, s.lval[lids[-1]][0]) for rx in IMMUT): return False
        if op in ('load', 'store', 'cmpxchg', 'atomicrmw', 'fence', 'unreachable', 'udiv', 'sdiv', 'urem', 'srem', 'landingpad', 'resume'):
            return True
        if op == 'invoke': return False      # numbered inside inst() (the branch after it must stay outside the guard)
        if op == 'call':
            callee = [v for k, v in toks if k == 'gid']
            if callee and PURE and any(c in callee[0] for c in PURE): return False   # --pure: side-effect-free deterministic stub, re-evaluated on every replay (keeps its result a constant for the solver)
            if callee and callee[0].startswith('@llvm.'):
                c = callee[0]
                if 'lifetime' in c or 'dbg' in c or c.startswith('@llvm.assume') or 'expect' in c: return False
                if any(x in c for x in ('umax', 'umin', 'smax', 'smin', 'ctlz', 'cttz', 'ctpop', 'bitreverse', 'with.overflow')): return False
            return True
        return False

    def cfg_order(s, parsed):
        succ = {}
        for bn, pl in parsed.items():
            last = pl[-1]
            op = last[0][1]
            if len(last) > 2 and last[1][1] == '=': op = last[2][1]
            ss = []
            if op in ('br', 'switch', 'invoke'):
                for i, (k, v) in enumerate(last):
                    if v == 'label': ss.append(last[i + 1][1])
            succ[bn] = ss
        s.succ = succ
        entry = next(iter(parsed))
        color = {}; post = []; back = set()
        stack = [(entry, iter(succ[entry]))]; color[entry] = 1
        while stack:
            n, it = stack[-1]
            adv = False
            for m in it:
                if color.get(m, 0) == 0:
                    color[m] = 1; stack.append((m, iter(succ[m]))); adv = True; break
                elif color[m] == 1:
                    back.add((n, m))
            if not adv:
                color[n] = 2; post.append(n); stack.pop()
        order = list(reversed(post))
        return order, back

    def loop_order(s, parsed):
        """order of the reachable blocks: topological over SCCs; inside an SCC (= loop, entered at its header) recursively
        the same with the edges into the header removed. Irreducible regions fall back to the order found."""
        s.cfg_order(parsed)
        succ = s.succ
        def sccs(nodes, entry, removed_to):
            # Tarjan (iterative) over the subgraph `nodes` without edges into removed_to; returns SCCs in reverse topological order
            idx = {}; low = {}; onst = set(); st = []; out = []; cnt = [0]
            def ss(n): return [m for m in succ[n] if m in nodes and m != removed_to]
            for root in [entry] + [n for n in nodes if n != entry]:
                if root in idx: continue
                work = [(root, iter(ss(root)))]; idx[root] = low[root] = cnt[0]; cnt[0] += 1; st.append(root); onst.add(root)
                while work:
                    n, it = work[-1]
                    adv = False
                    for m in it:
                        if m not in idx:
                            idx[m] = low[m] = cnt[0]; cnt[0] += 1; st.append(m); onst.add(m)
                            work.append((m, iter(ss(m)))); adv = True; break
                        elif m in onst: low[n] = min(low[n], idx[m])
                    if adv: continue
                    work.pop()
                    if work: low[work[-1][0]] = min(low[work[-1][0]], low[n])
                    if low[n] == idx[n]:
                        comp = []
                        while True:
                            x = st.pop(); onst.discard(x); comp.append(x)
                            if x == n: break
                        out.append(comp)
            return out
        def order(nodes, entry, removed_to):
            res = []
            comps = list(reversed(sccs(nodes, entry, removed_to)))
            for comp in comps:
                if len(comp) == 1:
                    res.append(comp[0]); continue
                cs = set(comp)
                # header: the member with a predecessor outside the component (or the region entry)
                heads = [n for n in comp if n == entry or any(n in succ[p] for p in nodes if p not in cs)]
                if not heads: heads = [n for n in comp if any(n in succ[p] for p in succ if p not in cs)]
                h = heads[0] if heads else comp[0]
                if len(heads) > 1:   # irreducible: keep the discovery order
                    res.extend(sorted(comp, key=list(parsed).index)); continue
                res.extend(order(cs, h, h))
            return res
        reach = set(); stack = [next(iter(parsed))]
        while stack:
            n = stack.pop()
            if n in reach: continue
            reach.add(n); stack.extend(succ[n])
        o = order(reach, next(iter(parsed)), None)
        assert o[0] == next(iter(parsed)) and len(o) == len(reach) == len(set(o)), 'loop_order lost blocks'
        return o

    def classify_loops(s, parsed):
        """every back edge (n -> h) gets a kind:
           'delay': the loop body has no visible operation except pause/yield  -> the back edge is dropped (falls out of the loop)
           'spin' : body contains pause/yield (busy-wait)                      -> thread parks (blocked) and re-runs from the header later
           'data' : anything else                                             -> thread yields its slice and continues from the header later
        phi copies on every edge into a loop header are guarded (numbered) so that the loop-carried values survive the re-entry."""
        succ = s.succ
        pred = collections.defaultdict(list)
        for a, ss in succ.items():
            for b in ss: pred[b].append(a)
        s.headers = set(h for n, h in s.backedges)
        s.loopkind = {}
        for (n, h) in s.backedges:
            body = {h}; stack = [n]
            while stack:
                x = stack.pop()
                if x in body: continue
                body.add(x); stack.extend(pred[x])
            has_hint = False; has_mem = False
            for b in body:
                for toks in parsed[b]:
                    if not s.visible(toks): continue
                    gids = [v for k, v in toks if k == 'gid']
                    if gids and re.search(r'sse2\.pause|sched_yield|vp_spin_hint|vp_pause', gids[0]): has_hint = True
                    else: has_mem = True
            s.loopkind[(n, h)] = 'delay' if (has_hint and not has_mem) else ('spin' if has_hint else 'data')

    def label(s, bn):
        return 'B_' + re.sub(r'[^A-Za-z0-9_]', '_', bn[1:])

    def goto(s, target, fall=None):
        """emit phi copies for edge curblock->target then goto.
        fall (only with --fallthrough): forward successor of the same conditional branch; a cut back edge then disables the
        rest of the slice (vp_cs = 0) and continues along `fall` instead of jumping to END (no N-way state merge at END)."""
        E = s.E
        ph = s.phis.get(target, [])
        moves = []
        for dest, ty, inc in ph:
            for v, pred in inc:
                if pred == s.curblock or (s.curblock == '%entry__' and pred not in s.f.blocks):
                    moves.append((dest, ty, v)); break
            else:
                raise RuntimeError('phi: no incoming for %s from %s' % (dest, s.curblock))
        out = []
        if len(moves) == 1:
            d, ty, v = moves[0]
            out.append('%s = %s;' % (s.setv(d, ty), E.val(v)))
        elif moves:
            tmps = []
            for d, ty, v in moves:
                t = s.tmp(E.ct(ty)); tmps.append(t)
                out.append('%s = %s;' % (t, E.val(v)))
            for (d, ty, v), t in zip(moves, tmps):
                out.append('%s = %s;' % (s.setv(d, ty), t))
        if s.thread and (s.curblock, target) in s.backedges:
            kind = s.loopkind[(s.curblock, target)]
            if kind == 'spin':
                # a parked thread whose loop-carried value was refreshed from memory (e.g. the `expected` of a CAS retry loop)
                # has made progress: it must not be taken for deadlocked by the blocked-state oracle (back-off counters,
                # which depend only on themselves, do not count)
                chk = ['if (%s != %s) vp_changed = 1;' % (E.lname(d), (tmps[i] if len(moves) > 1 else E.val(v)))
                       for i, (d, ty, v) in enumerate(moves) if d in s.memderived and not isinstance(E.resolve(ty), (TStruct, TArr))]
                out = chk + out if len(moves) == 1 else out[:len(moves)] + chk + out[len(moves):]
            s.nvis += 1
            s.cuts.append((s.nvis, target, kind))
            if FALLTHROUGH and fall is not None:
                cut = 'G(%d) { %s %svp_jump = 1; vp_resume = FIRST_%s; vp_cs = 0; }' % (s.nvis, ' '.join(out), 'vp_blocked = 1; ' if kind == 'spin' else '', s.label(target))
                return '{ %s %s }' % (cut, s.goto(fall))
            if kind == 'spin':
                return '{ G(%d) { %s vp_blocked = 1; vp_jump = 1; vp_resume = FIRST_%s; } goto END; }' % (s.nvis, ' '.join(out), s.label(target))
            return '{ G(%d) { %s vp_jump = 1; vp_resume = FIRST_%s; } goto END; }' % (s.nvis, ' '.join(out), s.label(target))
        if s.thread and target in s.headers and out:
            s.nvis += 1
            return '{ G(%d) { %s } goto %s; }' % (s.nvis, ' '.join(out), s.label(target))
        out.append('goto %s;' % s.label(target))
        return '{ ' + ' '.join(out) + ' }'

    def atomic_pre(s, ordering):
        return ''

    def fence_full(s):
        if s.thread and TSO: return 'SB_FLUSH_ALL();'
        return '__CPROVER_fence("WWfence","RRfence","RWfence","WRfence");'

    def inst(s, p):
        E = s.E
        emit = s.code.append
        dest = None
        if p.peek(1)[1] == '=':
            dest = p.next()[1]; p.next()
        op = p.next()[1]
        if op in ('tail', 'notail', 'musttail'):
            op = p.next()[1]
        # ---------------- terminators
        if op == 'ret' and s.thread:
            s.nvis += 1
            emit('G(%d) { vp_fin = 1; } goto END;' % s.nvis)
            return
        if op == 'ret':
            t = p.type()
            if isinstance(t, TVoid): emit('return;')
            else:
                v = parse_value(p, t); emit('return %s;' % E.val(v))
            return
        if op == 'br':
            if p.at('label'):
                p.next(); emit(s.goto(p.next()[1]))
            else:
                t, c = s.tv(p); p.expect(','); p.expect('label'); a = p.next()[1]; p.expect(','); p.expect('label'); b = p.next()[1]
                if s.thread and a != b and s.loopkind.get((s.curblock, a)) == 'delay' and (s.curblock, b) not in s.backedges: emit(s.goto(b))
                elif s.thread and a != b and s.loopkind.get((s.curblock, b)) == 'delay' and (s.curblock, a) not in s.backedges: emit(s.goto(a))
                elif s.thread and FALLTHROUGH and a != b and (s.curblock, a) in s.backedges and (s.curblock, b) not in s.backedges:
                    emit('if (%s) %s else %s' % (E.val(c), s.goto(a, fall=b), s.goto(b)))
                elif s.thread and FALLTHROUGH and a != b and (s.curblock, b) in s.backedges and (s.curblock, a) not in s.backedges:
                    emit('if (%s) %s else %s' % (E.val(c), s.goto(a), s.goto(b, fall=a)))
                else: emit('if (%s) %s else %s' % (E.val(c), s.goto(a), s.goto(b)))
            return
        if op == 'switch':
            t, v = s.tv(p); p.expect(','); p.expect('label'); dflt = p.next()[1]; p.expect('[')
            if M1PTR and v.kind == 'local' and E.lname(v.name) in s.__dict__.get('p2i', {}):
                # --m1ptr: LLVM's "magicptr" switch over ptrtoint(p) with cases 0 / -1 becomes pointer comparisons
                pe, pct = s.p2i[E.lname(v.name)]; cases = []
                while not p.accept(']'):
                    ct, cv = s.tv(p); p.expect(','); p.expect('label'); l = p.next()[1]
                    if cv.kind != 'int' or (cv.val & ((1 << 64) - 1)) not in (0, (1 << 64) - 1): raise NotImplementedError('--m1ptr: switch over a pointer value with case %r' % cv.val)
                    cases.append(('((%s)0)' % pct if cv.val == 0 else '((%s)&vp_m1_obj)' % pct, l))
                for ce, l in cases: emit('if (%s == %s) %s' % (pe, ce, s.goto(l)))
                emit(s.goto(dflt))
                return
            emit('switch (%s) {' % E.val(v))
            while not p.accept(']'):
                ct, cv = s.tv(p); p.expect(','); p.expect('label'); l = p.next()[1]
                emit('  case %s: %s' % (E.val(cv), s.goto(l)))
            emit('  default: %s' % s.goto(dflt))
            emit('}')
            return
        if op == 'unreachable':
            emit('vp_unreachable();')
            return
        # ---------------- memory
        if op == 'alloca':
            t = p.type()
            n = '1'
            if p.accept(','):
                if not p.at('align'):
                    nt, nv = s.tv(p); n = E.val(nv)
            d = s.setv(dest, TPtr(t))
            al = [int(p.t[i + 1][1]) for i in range(p.i, len(p.t) - 1) if p.t[i][1] == 'align' and p.t[i + 1][0] == 'int']
            # over-aligned stack objects (alignas(128) runner of collaborative_call_once: low address bits carry a count) keep their alignment
            st = s.tmp(E.ct(t) + (' __attribute__((aligned(%d)))' % al[0] if al and al[0] > 16 else '')) if n == '1' else None
            if st is None:
                raise NotImplementedError('dynamic alloca')
            emit('%s = &%s;' % (d, st))
            return
        if op == 'load':
            atomic = p.accept('atomic'); p.accept('volatile')
            t = p.type(); p.expect(','); pt, pv = s.tv(p)
            d = s.setv(dest, t)
            if s.thread and TSO and isinstance(E.resolve(t), (TInt, TPtr)):
                emit('%s = (%s)SB_LOAD(%s, sizeof(%s));' % (d, E.ct(t), E.val(pv), E.ct(t)))
            else:
                lv, rd, wr = s.leafacc(pv, t)
                emit('%s = %s;' % (d, rd(lv)))
            return
        if op == 'store':
            atomic = p.accept('atomic'); p.accept('volatile')
            t, v = s.tv(p); p.expect(','); pt, pv = s.tv(p)
            ordering = None
            if atomic:
                while not p.eof():
                    w = p.next()[1]
                    if w in ('seq_cst', 'release', 'monotonic', 'unordered'): ordering = w
            if s.thread and TSO and isinstance(E.resolve(t), (TInt, TPtr)):
                emit('SB_STORE(%s, (u64)%s, sizeof(%s));' % (E.val(pv), E.val(v), E.ct(t)))
                if ordering == 'seq_cst': emit('SB_FLUSH_ALL();')
                return
            lv, rd, wr = s.leafacc(pv, t)
            chg = (lambda l: 'if (%s != %s) vp_changed = 1; ' % (rd(l), E.val(v))) if s.thread else (lambda l: '')
            emit(s.split_idx(lv, lambda l: chg(l) + '%s = %s;' % (l, wr(E.val(v)))))
            if ordering == 'seq_cst':
                emit(s.fence_full())
            return
        if op == 'fence':
            sc = p.accept('syncscope')
            o = p.next()[1]
            if o == 'seq_cst': emit(s.fence_full())
            else: emit('/* fence %s */;' % o)
            return
        if op == 'cmpxchg':
            p.accept('weak'); p.accept('volatile')
            pt, pv = s.tv(p); p.expect(','); ct_, cv = s.tv(p); p.expect(','); nt, nv = s.tv(p)
            # result literal struct {T, i1}
            rty = TStruct([ct_, TInt(1)], False)
            d = s.setv(dest, rty)
            ptr = E.val(pv)
            if s.thread and TSO: emit('SB_FLUSH_ALL();')
            lv, rd, wr = s.leafacc(pv, ct_)
            emit('%s.f0 = %s; %s.f1 = (%s.f0 == %s); if (%s.f1) { if (%s.f0 != %s) vp_changed = 1; %s }' % (
                d, rd(lv), d, d, E.val(cv), d, d, E.val(nv), s.split_idx(lv, lambda l: '%s = %s;' % (l, wr(E.val(nv))))))
            return
        if op == 'atomicrmw':
            p.accept('volatile')
            rop = p.next()[1]
            pt, pv = s.tv(p); p.expect(','); vt, vv = s.tv(p)
            d = s.setv(dest, vt)
            ptr = E.val(pv); x = E.val(vv)
            if rop == 'xchg': new = x
            elif rop in ('add', 'sub', 'and', 'or', 'xor'):
                new = E.binop(rop, vt, d, x)
            elif rop in ('umax', 'umin'):
                new = '(%s %s %s ? %s : %s)' % (d, '>' if rop == 'umax' else '<', x, d, x)
            else: raise NotImplementedError('atomicrmw ' + rop)
            if s.thread and TSO: emit('SB_FLUSH_ALL();')
            lv, rd, wr = s.leafacc(pv, vt)
            emit('%s = %s; %s if (%s != %s) vp_changed = 1;' % (d, rd(lv), s.split_idx(lv, lambda l: '%s = %s;' % (l, wr(new))), new, d))
            return
        if op == 'getelementptr':
            p.accept('inbounds')
            bt = p.type(); p.expect(',')
            ops = []; gepbase = None
            while True:
                t, v = s.tv(p); ops.append((t, E.val(v)))
                if len(ops) == 1 and v.kind == 'local': gepbase = v.name
                if not p.accept(','): break
            # result type: compute
            rt = s.gep_type(bt, ops)
            d = s.setv(dest, rt)
            syms = []
            ge = E.gep_expr(bt, ops, syms)
            emit('%s = %s;' % (d, ge))
            if LVALPATH and dest and len(ops) > 2 and ge.startswith('(&') and not isinstance(bt, TVoid):
                lv = ge[2:-1]
                prefix = '(*((%s*)%s))' % (E.ct(bt), ops[0][1])
                if ops[1][1] in ('((u64)0ull)', '((u32)0ull)') and lv.startswith(prefix) and gepbase is not None and gepbase in s.lval \
                   and E.ct(s.lval[gepbase][1]) == E.ct(bt):
                    lv = s.lval[gepbase][0] + lv[len(prefix):]; syms = s.lval[gepbase][2] + syms
                s.lval[dest] = (lv, rt.to, syms)
            return
        # ---------------- casts
        if op in ('bitcast', 'inttoptr', 'ptrtoint', 'zext', 'sext', 'trunc', 'uitofp', 'sitofp', 'fptoui', 'fptosi', 'fpext', 'fptrunc', 'addrspacecast'):
            t, v = s.tv(p); p.expect('to'); t2 = p.type()
            d = s.setv(dest, t2)
            a = E.val(v)
            if M1PTR and op == 'ptrtoint': s.__dict__.setdefault('p2i', {})[d] = (a, E.ct(t))   # remembered for a later switch on it
            if op in ('bitcast', 'addrspacecast'):
                if isinstance(E.resolve(t), TPtr) and isinstance(E.resolve(t2), TPtr):
                    emit('%s = (%s)%s;' % (d, E.ct(t2), a))
                    if LVALPATH and dest:
                        to2 = E.resolve(E.resolve(t2).to)
                        if isinstance(to2, (TInt, TPtr)):
                            if v.kind == 'local' and v.name in s.lval: blv, bty, bsy = s.lval[v.name]
                            else: blv, bty, bsy = '(*%s)' % a, E.resolve(t).to, []
                            ld = s.leaf_desc(bty)
                            if ld:
                                w = lambda x: 64 if isinstance(E.resolve(x), TPtr) else E.resolve(x).n
                                if w(ld[1]) == w(to2): s.lval[dest] = (blv + ld[0], ld[1], bsy)
                else:
                    emit('memcpy(&%s, &%s, sizeof(%s));' % (d, s.materialize(t, a), d))
            elif op == 'inttoptr': emit('%s = (%s)%s(u64)%s%s;' % (d, E.ct(t2), 'vp_i2p(' if PTRHOOKS else '', a, ')' if PTRHOOKS else ''))   # --ptrhooks: harness resolves the integer to a candidate object (cbmc cannot: unknown value set)
            elif op == 'ptrtoint': emit('%s = %s;' % (d, E.mask(t2, '(%s)%s' % (E.ct(t2), ('vp_p2i((u8*)%s)' if PTRHOOKS else '(u64)%s') % a))))
            elif op in ('zext', 'trunc'): emit('%s = %s;' % (d, E.mask(t2, '(%s)%s' % (E.ct(t2), a))))
            elif op == 'sext': emit('%s = %s;' % (d, E.mask(t2, '(%s)(%s)%s' % (E.ct(t2), E.sct(t2), E.sext_to_c(t, a)))))
            elif op == 'uitofp': emit('%s = (%s)%s;' % (d, E.ct(t2), a))
            elif op == 'sitofp': emit('%s = (%s)%s;' % (d, E.ct(t2), E.sext_to_c(t, a)))
            elif op == 'fptoui': emit('%s = %s;' % (d, E.mask(t2, '(%s)%s' % (E.ct(t2), a))))
            elif op == 'fptosi': emit('%s = %s;' % (d, E.mask(t2, '(%s)(%s)%s' % (E.ct(t2), E.sct(t2), a))))
            else: emit('%s = (%s)%s;' % (d, E.ct(t2), a))
            return
        # ---------------- arithmetic
        if op in ('add', 'sub', 'mul', 'and', 'or', 'xor', 'udiv', 'urem', 'sdiv', 'srem', 'shl', 'lshr', 'ashr'):
            while p.peek()[1] in ('nsw', 'nuw', 'exact'): p.next()
            t = p.type(); a = parse_value(p, t); p.expect(','); b = parse_value(p, t)
            d = s.setv(dest, t)
            bv = E.val(b)
            if s.thread and op in ('shl', 'lshr', 'ashr') and isinstance(t, TInt) and not re.fullmatch(r'[(\w)]*\d+ull\)*', bv.replace(' ', '')):
                # thread mode: unguarded straight-line code is also evaluated on stale values (ops beyond the context switch); an
                # over-wide shift there would be C undefined behaviour (LLVM: poison, harmless unless used) => mask the amount
                bv = '(%s & %du)' % (bv, t.n - 1)
            emit('%s = %s;' % (d, E.binop(op, t, E.val(a), bv)))
            return
        if op in ('fadd', 'fsub', 'fmul', 'fdiv'):
            while p.peek()[0] == 'word' and p.peek()[1] in ('fast', 'nnan', 'ninf', 'nsz', 'arcp', 'contract', 'afn', 'reassoc'): p.next()
            t = p.type(); a = parse_value(p, t); p.expect(','); b = parse_value(p, t)
            d = s.setv(dest, t)
            emit('%s = %s %s %s;' % (d, E.val(a), {'fadd': '+', 'fsub': '-', 'fmul': '*', 'fdiv': '/'}[op], E.val(b)))
            return
        if op == 'fneg':
            t = p.type(); a = parse_value(p, t); d = s.setv(dest, t); emit('%s = -%s;' % (d, E.val(a))); return
        if op == 'icmp':
            pred = p.next()[1]; t = p.type(); a = parse_value(p, t); p.expect(','); b = parse_value(p, t)
            d = s.setv(dest, TInt(1))
            if PTRCMP and isinstance(E.resolve(t), TPtr) and pred in ('eq', 'ne'):
                def smallnz(v): return v.kind == 'cexpr' and v.op == 'inttoptr' and v.ops[0].kind == 'int' and 0 < v.ops[0].val < 4096
                if smallnz(b) or smallnz(a):
                    pv, cv = (a, b) if smallnz(b) else (b, a)
                    emit('%s = (u8)%sVP_PTR_EQ_C(%s, %dull);' % (d, '!' if pred == 'ne' else '', E.val(pv), cv.ops[0].val))
                    return
            if PTRCMP and isinstance(E.resolve(t), TPtr) and pred in ('ugt', 'uge', 'ult', 'ule'):
                # --ptrcmp: ordering comparison of a pointer with a small integer constant cast to a pointer (`uintptr_t(p) > 63`):
                # emitted via VP_PTR_<pred>_C (PRELUDE), which states cbmc's own pointer encoding (object number in the top bits) in a
                # form symex can fold for p = &object; natively it is the plain integer comparison
                def smallc(v): return v.kind == 'cexpr' and v.op == 'inttoptr' and v.ops[0].kind == 'int' and 0 <= v.ops[0].val < 4096
                flip = {'ugt': 'ult', 'uge': 'ule', 'ult': 'ugt', 'ule': 'uge'}
                if smallc(b) or smallc(a):
                    pv, cv, pr = (a, b, pred) if smallc(b) else (b, a, flip[pred])
                    emit('%s = (u8)VP_PTR_%s_C(%s, %dull);' % (d, pr.upper(), E.val(pv), cv.ops[0].val))
                    return
            if PTRTAG and isinstance(E.resolve(t), TPtr) and pred in ('eq', 'ne', 'ugt', 'uge', 'ult', 'ule'):
                # --ptrtag: pointer comparison where either side may be a run-time small-integer tag ((T*)1 loaded from memory), NULL or
                # an aligned object address: VP_PTRT_* (PRELUDE) classify both operands with tests symex can fold
                A_, B_ = E.val(a), E.val(b)
                ex = {'eq': 'VP_PTRT_EQ(%s, %s)' % (A_, B_), 'ne': '!VP_PTRT_EQ(%s, %s)' % (A_, B_), 'ugt': 'VP_PTRT_UGT(%s, %s)' % (A_, B_),
                      'ult': 'VP_PTRT_UGT(%s, %s)' % (B_, A_), 'uge': '!VP_PTRT_UGT(%s, %s)' % (B_, A_), 'ule': '!VP_PTRT_UGT(%s, %s)' % (A_, B_)}[pred]
                emit('%s = (u8)(%s);' % (d, ex))
                return
            emit('%s = %s;' % (d, E.icmp(pred, t, E.val(a), E.val(b))))
            return
        if op == 'fcmp':
            while p.peek()[0] == 'word' and p.peek()[1] in ('fast', 'nnan', 'ninf', 'nsz', 'arcp', 'contract', 'afn', 'reassoc'): p.next()
            pred = p.next()[1]; t = p.type(); a = parse_value(p, t); p.expect(','); b = parse_value(p, t)
            d = s.setv(dest, TInt(1))
            A = E.val(a); B = E.val(b)
            sym = {'oeq': '==', 'one': '!=', 'ogt': '>', 'oge': '>=', 'olt': '<', 'ole': '<=', 'ueq': '==', 'une': '!=', 'ugt': '>', 'uge': '>=', 'ult': '<', 'ule': '<='}
            if pred in sym:
                e = '(%s %s %s)' % (A, sym[pred], B)
                if pred[0] == 'u': e = '(%s || %s != %s || %s != %s)' % (e, A, A, B, B)
                if pred == 'one': e = '(%s && %s == %s && %s == %s)' % (e, A, A, B, B)
            elif pred == 'ord': e = '(%s == %s && %s == %s)' % (A, A, B, B)
            elif pred == 'uno': e = '(%s != %s || %s != %s)' % (A, A, B, B)
            else: raise NotImplementedError(pred)
            emit('%s = (u8)%s;' % (d, e))
            return
        if op == 'select':
            t, c = s.tv(p); p.expect(','); t1, a = s.tv(p); p.expect(','); t2, b = s.tv(p)
            d = s.setv(dest, t1)
            emit('%s = %s ? %s : %s;' % (d, E.val(c), E.val(a), E.val(b)))
            return
        if op == 'freeze':
            t, v = s.tv(p); d = s.setv(dest, t); emit('%s = %s;' % (d, E.val(v))); return
        if op == 'extractvalue':
            t, v = s.tv(p)
            lv = E.val(v); cur = t
            while p.accept(','):
                k = int(p.next()[1]); r = E.resolve(cur)
                if isinstance(r, TStruct): lv += '.f%d' % k; cur = r.els[k]
                else: lv += '.a[%d]' % k; cur = r.el
            d = s.setv(dest, cur)
            emit('%s = %s;' % (d, lv))
            return
        if op == 'insertvalue':
            t, v = s.tv(p); p.expect(','); et, ev = s.tv(p)
            d = s.setv(dest, t)
            emit('%s = %s;' % (d, E.val(v)))
            lv = d; cur = t
            while p.accept(','):
                k = int(p.next()[1]); r = E.resolve(cur)
                if isinstance(r, TStruct): lv += '.f%d' % k; cur = r.els[k]
                else: lv += '.a[%d]' % k; cur = r.el
            emit('%s = %s;' % (lv, E.val(ev)))
            return
        if op == 'call':
            s.call(p, dest); return
        if op == 'invoke':
            s.call(p, dest, invoke=True); return
        if op == 'landingpad':
            t = p.type()
            d = s.setv(dest, t)
            clauses = []; cleanup = False
            while not p.eof():
                w = p.next()[1]
                if w == 'cleanup': cleanup = True
                elif w == 'catch':
                    ct_ = p.type(); cv = parse_value(p, ct_); clauses.append(cv)
                elif w == 'filter': raise NotImplementedError('landingpad filter clause (exception specification)')
                else: raise NotImplementedError('landingpad clause ' + w)
            src = 'vp_lp_exc' if s.thread else 'vp_exc'
            sel = '0'
            for cv in reversed(clauses):
                if cv.kind == 'null': sel = '1'
                else:
                    g = cv
                    while g.kind == 'cexpr': g = g.ops[0]
                    tid = s.M.typeids.setdefault(g.name, len(s.M.typeids) + 2)
                    sel = '(vp_exc_matches(%s, (u8*)%s) ? %d : %s)' % (src, E.val(cv), tid, sel)
            emit('%s.f0 = %s; %s.f1 = (u32)%s; vp_exc = 0;' % (d, src, d, sel))
            return
        if op == 'resume':
            t, v = s.tv(p)
            if s.thread:
                emit('vp_exc_escaped();')      # thread bodies must catch everything (wrapper convention)
                emit('vp_fin = 1; goto END;')
            else:
                emit('vp_exc = %s.f0; %s' % (E.val(v), s.ret_zero()))
            return
        raise NotImplementedError('opcode ' + op)

    def ret_zero(s):
        t = s.E.resolve(s.f.ret)
        if isinstance(t, TVoid): return 'return;'
        if isinstance(t, (TStruct, TArr)): return 'return (%s){0};' % s.E.ct(s.f.ret)
        return 'return (%s)0;' % s.E.ct(s.f.ret)

    def may_throw(s, callee_kind, callee, call_attrs):
        if not s.M.has_eh: return False
        if any(a in s.M.nounwind_groups or a == 'nounwind' for a in call_attrs): return False
        if callee_kind == 'gid':
            fa = s.M.fn_attrs.get(callee, set())
            if 'nounwind' in fa or any(a in s.M.nounwind_groups for a in fa): return False
            if callee[1:].startswith('vp_') and callee[1:] not in ('vp_body', 'vp_throwing') and not callee[1:].startswith('vp_may_throw'): return False
        return True

    def leaf_desc(s, t):
        """(path suffix, IR type) of the first scalar leaf of IR type t, or None"""
        E = s.E; path = ''
        for _ in range(32):
            r = E.resolve(t)
            if isinstance(r, TStruct):
                if not r.els: return None
                path += '.f0'; t = r.els[0]
            elif isinstance(r, TArr): path += '.a[0]'; t = r.el
            elif isinstance(r, (TPtr, TInt)): return path, t
            else: return None
        return None

    def leafacc(s, pv, t):
        """(lvalue, rd, wr): how to access a value of IR type t through pointer operand pv (see LVALPATH)"""
        E = s.E; ptr = E.val(pv); s.acc_syms = []
        if LVALPATH and not TSO and pv.kind == 'local' and pv.name in s.lval:
            lv, lt, s.acc_syms = s.lval[pv.name]
            rt = E.resolve(t); rl = E.resolve(lt)
            if E.ct(t) == E.ct(lt): return lv, (lambda x: x), (lambda x: x)
            if isinstance(rl, TPtr) and isinstance(rt, TInt) and rt.n == 64:
                return lv, (lambda x: '((u64)%s)' % x), (lambda x: '((%s)(u64)%s)' % (E.ct(lt), x))
            if isinstance(rl, TInt) and rl.n == 64 and isinstance(rt, TPtr):
                return lv, (lambda x: '((%s)(u64)%s)' % (E.ct(t), x)), (lambda x: '((u64)%s)' % x)
            if isinstance(rl, TPtr) and isinstance(rt, TPtr):
                return lv, (lambda x: '((%s)%s)' % (E.ct(t), x)), (lambda x: '((%s)%s)' % (E.ct(lt), x))
        s.acc_syms = []
        return '*%s' % ptr, (lambda x: x), (lambda x: x)

    def split_idx(s, lv, body):
        """--lvalpath: statement(s) body(lv) that WRITE lvalue lv. If lv contains small arrays indexed by non-constant expressions
        (s.acc_syms, set by leafacc), emit a switch over the index values with a constant index in every case: cbmc then assigns one
        field instead of rewriting the whole array (field-sensitive arrays) / the whole object at a symbolic offset."""
        syms = [(sx, n) for sx, n in s.acc_syms if n <= 16 and lv.count('.a[%s]' % sx) == 1]
        tot = 1
        for sx, n in syms: tot *= n
        if not syms or tot > 64: return body(lv)
        def rec(lv, k):
            if k == len(syms): return body(lv)
            sx, n = syms[k]
            cases = ' '.join('case %d: { %s } break;' % (i, rec(lv.replace('.a[%s]' % sx, '.a[%d]' % i), k + 1)) for i in range(n))
            return 'switch (%s) { %s default: vp_unreachable(); }' % (sx, cases)
        return rec(lv, 0)

    def materialize(s, t, a):
        tmp = s.tmp(s.E.ct(t))
        s.code.append('%s = %s;' % (tmp, a))
        return tmp

    def gep_type(s, bt, ops):
        E = s.E
        cur = bt
        for (ity, idx) in ops[2:]:
            r = E.resolve(cur)
            if isinstance(r, TStruct):
                k = int(re.search(r'\)(\d+)ull\)$', idx).group(1)); cur = r.els[k]
            else:
                cur = r.el
        return TPtr(cur)

    def call(s, p, dest, invoke=False):
        E = s.E; emit = s.code.append
        while p.peek()[0] == 'word' and p.peek()[1] in ('fastcc', 'ccc', 'coldcc', 'noundef', 'zeroext', 'signext', 'nonnull', 'noalias', 'fast', 'nnan', 'ninf', 'nsz'):
            p.next()
        while p.peek()[1] in ('align', 'dereferenceable', 'dereferenceable_or_null'):
            p.next()
            if p.at('('):
                while p.next()[1] != ')': pass
            else: p.next()
        ret = parse_type_nofn(p)
        fty = None
        if p.at('asm'):
            p.next()
            while p.peek()[0]=='word': p.next()
            asm = p.next()[1]; p.expect(','); cons = p.next()[1]
            p.expect('(')
            args=[]
            if not p.accept(')'):
                while True:
                    t = p.type(); p.skip_param_attrs(); v = parse_value(p, t); args.append((t,v))
                    if p.accept(')'): break
                    p.expect(',')
            A=[E.val(v) for t,v in args]
            d = s.setv(dest, ret) if dest else None
            if 'lock; notb' in asm: emit(s.fence_full())
            elif asm.startswith('"bsr'): emit('%s = vp_bsr(%s);' % (d, A[0]))
            elif asm == '""': emit('/* compiler barrier */;')
            elif 'stmxcsr' in asm and 'fstcw' in asm: emit('*%s = 0x1f80u; *%s = 0x37f; /* FP control words: default environment */' % (A[0], A[1]))
            elif 'ldmxcsr' in asm or 'fldcw' in asm: emit('/* load FP control words: no effect in the model */;')
            else: raise NotImplementedError('asm '+asm)
            return
        if p.at('('):
            # explicit function type e.g. i32 (i8*, ...)
            d = 0
            while True:
                x = p.next()[1]
                if x == '(': d += 1
                elif x == ')':
                    d -= 1
                    if d == 0: break
            while p.accept('*'): pass
        k, callee = p.next()
        if k == 'gid' and callee.startswith('@llvm.experimental.noalias.scope.decl'): return   # metadata-only intrinsic (no effect)
        p.expect('(')
        args = []
        if not p.accept(')'):
            while True:
                t = p.type(); p.skip_param_attrs(); v = parse_value(p, t)
                args.append((t, v))
                if p.accept(')'): break
                p.expect(',')
        A = [E.val(v) for t, v in args]
        d = s.setv(dest, ret) if dest else None
        pre = (d + ' = ') if d else ''
        call_attrs = []; ok_l = lp_l = None
        while not p.eof():
            kk, vv = p.next()
            if vv == 'to' and invoke:
                p.expect('label'); ok_l = p.next()[1]; p.expect('unwind'); p.expect('label'); lp_l = p.next()[1]; break
            call_attrs.append(vv)
        if k == 'gid' and callee[1:].startswith('llvm.'):
            s.intrinsic(callee[1:], ret, args, A, d)
            if invoke: emit(s.goto(ok_l))
            return
        throws = s.may_throw(k, callee, call_attrs)
        if k == 'gid':
            name = callee[1:]
            if s.thread and callee in s.M.funcs: s.atomic_callees.add(name)
            stmt = '%s%s(%s);' % (pre, E.fname(callee), ', '.join(A))
        else:
            sig = '%s (*)(%s)' % (E.ct(ret), ', '.join(E.ct(t) for t, v in args) or 'void')
            stmt = '%s((%s)%s)(%s);' % (pre, sig, E.lname(callee), ', '.join(A))
        if not s.thread:
            emit(stmt)
            if invoke: emit('if (vp_exc) %s else %s' % (s.goto(lp_l), s.goto(ok_l)))
            elif throws: emit('if (vp_exc) %s' % s.ret_zero())
            return
        # ---- thread mode
        external = not (k == 'gid' and callee in s.M.funcs)
        blockchk = ''
        if invoke: s.nvis += 1       # invoke is numbered here (see visible()); plain calls were numbered by run()
        kidx = s.nvis
        if external and PURE and k == 'gid' and any(c in callee for c in PURE): external = False
        if external:
            # an external stub may ask to park the calling thread (VP_BLOCK() in rt/vp.h): the call is re-executed when the thread runs next
            blockchk = ' if (vp_block_req) { vp_block_req = 0; vp_blocked = 1; vp_jump = 1; vp_resume = %d; goto END; }' % kidx
        if invoke:
            e = s.tmp('u8*')
            if s.first_in_block.get(s.curblock) is None: s.first_in_block[s.curblock] = kidx
            emit('G(%d) { %s%s %s = vp_exc; vp_exc = 0; if (%s) vp_lp_exc = %s; }' % (kidx, stmt, blockchk, e, e, e))
            emit('if (%s) %s else %s' % (e, s.goto(lp_l), s.goto(ok_l)))
        else:
            emit(stmt + blockchk)
            if throws: emit('if (vp_exc) { vp_exc_escaped(); vp_fin = 1; goto END; }')

    def intrinsic(s, name, ret, args, A, d):
        E = s.E; emit = s.code.append
        if name.startswith('llvm.lifetime.') or name.startswith('llvm.dbg.') or name.startswith('llvm.experimental.noalias') \
           or name.startswith('llvm.invariant.') or name == 'llvm.donothing' or name.startswith('llvm.prefetch'):
            return
        if name == 'llvm.assume':
            return
        if name.startswith('llvm.expect.'):
            emit('%s = %s;' % (d, A[0])); return
        if name == 'llvm.eh.typeid.for':
            g = args[0][1]
            while g.kind == 'cexpr': g = g.ops[0]
            emit('%s = (u32)%d;' % (d, s.M.typeids.setdefault(g.name, len(s.M.typeids) + 2))); return
        if name == 'llvm.x86.sse2.pause':
            emit('vp_pause();'); return
        if name == 'llvm.trap':
            emit('vp_trap();'); return
        if name.startswith('llvm.memcpy.') or name.startswith('llvm.memmove.'):
            emit('memcpy(%s, %s, %s);' % (A[0], A[1], A[2])); return
        if name.startswith('llvm.memset.'):
            emit('memset(%s, %s, %s);' % (A[0], A[1], A[2])); return
        m = re.match(r'llvm\.(umax|umin|smax|smin)\.i(\d+)', name)
        if m:
            t = args[0][0]
            a, b = A
            if m.group(1)[0] == 's':
                ca, cb = E.sext_to_c(t, a), E.sext_to_c(t, b)
            else: ca, cb = a, b
            emit('%s = (%s %s %s) ? %s : %s;' % (d, ca, '>' if m.group(1).endswith('max') else '<', cb, a, b)); return
        m = re.match(r'llvm\.(ctlz|cttz|ctpop)\.i(\d+)', name)
        if m:
            w = int(m.group(2))
            emit('%s = vp_%s%d(%s);' % (d, m.group(1), w, A[0])); return
        m = re.match(r'llvm\.(u|s)(add|sub|mul)\.with\.overflow\.i(\d+)', name)
        if m:
            w = int(m.group(3)); t = args[0][0]
            s.decl[d] = E.ct(TStruct([t, TInt(1)], False))
            big = 'u128' if w == 64 else 'u64'
            if m.group(1) == 'u':
                sym = {'add': '+', 'sub': '-', 'mul': '*'}[m.group(2)]
                if m.group(2) == 'sub':
                    emit('%s.f0 = %s - %s; %s.f1 = (%s < %s);' % (d, A[0], A[1], d, A[0], A[1]))
                else:
                    tmp = s.tmp(big)
                    emit('%s = (%s)%s %s (%s)%s; %s.f0 = (%s)%s; %s.f1 = (%s >> %d) != 0;' % (tmp, big, A[0], sym, big, A[1], d, E.ct(t), tmp, d, tmp, w))
                return
        m = re.match(r'llvm\.bitreverse\.i(\d+)', name)
        if m and int(m.group(1)) in (8, 16, 32, 64):
            emit('%s = vp_bitreverse%s(%s);' % (d, m.group(1), A[0])); return
        m = re.match(r'llvm\.(fshl|fshr|bswap|abs)\.', name)
        raise NotImplementedError('intrinsic ' + name)

PRELUDE = r'''
#include <stdint.h>
#include <stddef.h>
void *memcpy(void *, const void *, size_t); void *memset(void *, int, size_t); void *memmove(void *, const void *, size_t);
typedef uint8_t u8; typedef uint16_t u16; typedef uint32_t u32; typedef uint64_t u64; typedef unsigned __int128 u128;
typedef void (*vp_fn)(void);
typedef void vp_fnty(void);
void vp_pause(void); void vp_trap(void); void vp_unreachable(void); extern unsigned vp_left; extern unsigned vp_changed; extern unsigned vp_block_req;
extern u8* vp_exc; int vp_exc_matches(u8* obj, u8* typeinfo); void vp_exc_escaped(void);
u8* vp_i2p(u64 bits); u64 vp_p2i(u8* p);   /* --ptrhooks: defined by the harness */
#define G(k) if (vp_pc <= (k) && (k) < vp_cs)
#define SBD 2
struct vp_sb { void* a[SBD]; u64 v[SBD]; u8 sz[SBD]; unsigned n; };
static inline void vp_sb_commit(void* a, u64 v, u8 sz){ if(sz==1) *(u8*)a=(u8)v; else if(sz==2) *(u16*)a=(u16)v; else if(sz==4) *(u32*)a=(u32)v; else *(u64*)a=v; vp_changed=1; }
static inline void vp_sb_flush(struct vp_sb* b, unsigned n){ for(unsigned i=0;i<SBD;i++){ if(i<n && b->n>0){ vp_sb_commit(b->a[0],b->v[0],b->sz[0]); for(unsigned j=0;j+1<SBD;j++){b->a[j]=b->a[j+1];b->v[j]=b->v[j+1];b->sz[j]=b->sz[j+1];} b->n--; } } }
static inline void vp_sb_store(struct vp_sb* b, void* a, u64 v, u8 sz){ if(b->n==SBD) vp_sb_flush(b,1); b->a[b->n]=a; b->v[b->n]=v; b->sz[b->n]=sz; b->n++; }
static inline u64 vp_sb_load(struct vp_sb* b, void* a, u8 sz){ for(unsigned i=SBD;i>0;i--){ if(i<=b->n && b->a[i-1]==a) return b->v[i-1]; } if(sz==1) return *(u8*)a; if(sz==2) return *(u16*)a; if(sz==4) return *(u32*)a; return *(u64*)a; }
#define SB_STORE(p,v,sz) vp_sb_store(SB,(void*)(p),(v),(sz))
#define SB_LOAD(p,sz) vp_sb_load(SB,(void*)(p),(sz))
#define SB_FLUSH_ALL() vp_sb_flush(SB,SBD)
#ifdef __CPROVER__
/* exact in cbmc's pointer encoding (object number in the top bits, offset in the low bits; c is a small constant), written so that
   symex folds them for p = NULL, p = (T*)small and p = &object (base address): an offset-0 pointer is > c iff it is not NULL */
#define VP_PTR_UGT_C(p,c) (__CPROVER_POINTER_OFFSET(p) == 0 ? ((p) != 0) : ((u64)(p) > (u64)(c)))
#define VP_PTR_UGE_C(p,c) (__CPROVER_POINTER_OFFSET(p) == 0 ? ((p) != 0 || (c) == 0) : ((u64)(p) >= (u64)(c)))
#define VP_PTR_ULT_C(p,c) (!VP_PTR_UGE_C(p,c))
#define VP_PTR_ULE_C(p,c) (!VP_PTR_UGT_C(p,c))
#define VP_PTR_EQ_C(p,c) (__CPROVER_POINTER_OFFSET(p) == (c) && (u64)(p) == (u64)(c))
#else
#define VP_PTR_UGT_C(p,c) ((u64)(p) > (u64)(c))
#define VP_PTR_UGE_C(p,c) ((u64)(p) >= (u64)(c))
#define VP_PTR_ULT_C(p,c) ((u64)(p) < (u64)(c))
#define VP_PTR_ULE_C(p,c) ((u64)(p) <= (u64)(c))
#define VP_PTR_EQ_C(p,c) ((u64)(p) == (u64)(c))
#endif
#ifdef __CPROVER__
/* --ptrtag: operands are NULL, a small-integer tag with an unaligned value ((T*)1), or an 8-aligned address inside an object.
   kind 0 = NULL, 1 = tag, 2 = object address; every test below is folded by cbmc's symex for concrete operands */
#define VP_PK(p) ((__CPROVER_POINTER_OFFSET(p) & 7) ? 1 : (__CPROVER_same_object((p), (void*)0) ? 0 : 2))
#define VP_PTRT_EQ(a,b) (__CPROVER_POINTER_OFFSET(a) == __CPROVER_POINTER_OFFSET(b) && __CPROVER_same_object((a), (b)))
#define VP_PTRT_UGT(a,b) (VP_PK(a) != VP_PK(b) ? VP_PK(a) > VP_PK(b) : VP_PK(a) == 1 ? __CPROVER_POINTER_OFFSET(a) > __CPROVER_POINTER_OFFSET(b) : VP_PK(a) == 2 ? (u64)(a) > (u64)(b) : 0)
#else
#define VP_PTRT_EQ(a,b) ((u64)(a) == (u64)(b))
#define VP_PTRT_UGT(a,b) ((u64)(a) > (u64)(b))
#endif
static inline u32 vp_bsr(u32 x){ return x ? 31u - (u32)__builtin_clz(x) : 0u; }
static inline u64 vp_ctlz64(u64 x){ return x ? (u64)__builtin_clzll(x) : 64u; }
static inline u32 vp_ctlz32(u32 x){ return x ? (u32)__builtin_clz(x) : 32u; }
static inline u64 vp_cttz64(u64 x){ return x ? (u64)__builtin_ctzll(x) : 64u; }
static inline u32 vp_cttz32(u32 x){ return x ? (u32)__builtin_ctz(x) : 32u; }
static inline u64 vp_ctpop64(u64 x){ return (u64)__builtin_popcountll(x); }
static inline u32 vp_ctpop32(u32 x){ return (u32)__builtin_popcount(x); }
static inline u8 vp_bitreverse8(u8 x){ x = (u8)(((x & 0xF0u) >> 4) | ((x & 0x0Fu) << 4)); x = (u8)(((x & 0xCCu) >> 2) | ((x & 0x33u) << 2)); return (u8)(((x & 0xAAu) >> 1) | ((x & 0x55u) << 1)); }
static inline u16 vp_bitreverse16(u16 x){ return (u16)(((u16)vp_bitreverse8((u8)x) << 8) | vp_bitreverse8((u8)(x >> 8))); }
static inline u32 vp_bitreverse32(u32 x){ return ((u32)vp_bitreverse16((u16)x) << 16) | vp_bitreverse16((u16)(x >> 16)); }
static inline u64 vp_bitreverse64(u64 x){ return ((u64)vp_bitreverse32((u32)x) << 32) | vp_bitreverse32((u32)(x >> 32)); }
'''

TSO = False
FALLTHROUGH = False   # --fallthrough: cut back edges of conditional latches fall through to the loop exit with the slice disabled
M1PTR = False      # --m1ptr: the sentinel pointer constant (T*)-1 is modelled as the address of the object vp_m1_obj (cbmc cannot decide &obj != (T*)-1 during symbolic execution); only equality tests of it are supported
LOOPORDER = False  # --looporder: seq-mode block layout with contiguous loops (see FnTr.loop_order)
PURE = []          # --pure <substr>: calls to matching (external/cut) functions are not scheduling points and are not guarded in thread mode
IMMUT = []         # --immutable <regex>: see FnTr.visible
LVALPATH = False   # --lvalpath: a load/store/cmpxchg/atomicrmw whose pointer operand is the result of a getelementptr (or of a bitcast of one to a
                   # scalar pointer, e.g. atomic<T*> accessed as i64) is emitted on the field-path lvalue itself (`(*base).f0.a[i].f3 = x`, with a
                   # value cast for pointer<->i64 leaves) instead of `*ptr`: cbmc then sees a typed member/index expression even for a symbolic
                   # array index, where a pointer dereference degenerates into byte_update of the whole enclosing object at a symbolic offset
PTRCMP = False     # --ptrcmp: `icmp u<pred> ptr, inttoptr(small const)` emitted through VP_PTR_<pred>_C (foldable by cbmc's symex), see inst()
PTRTAG = False     # --ptrtag: run-time pointer tags ((T*)1 read from memory) compared with pointers, see VP_PTRT_* in PRELUDE
PTRHOOKS = False   # --ptrhooks: inttoptr/ptrtoint instructions go through harness functions u8* vp_i2p(u64) / u64 vp_p2i(u8*)
def main():
    """usage: ir2c.py in.ll outbase [--tso] [--thread fn[:sfx1,sfx2,...]]...
    writes outbase.h (types, prototypes, extern globals), outbase.c (globals, bodies), outbase.json (summary)"""
    global TSO, PTRHOOKS, LOOPORDER, LVALPATH
    import json, os
    args = sys.argv[1:]
    TSO = '--tso' in args
    global FALLTHROUGH
    global M1PTR
    FALLTHROUGH = '--fallthrough' in args
    PTRHOOKS = '--ptrhooks' in args
    global PTRCMP
    PTRCMP = '--ptrcmp' in args
    global PTRTAG
    PTRTAG = '--ptrtag' in args
    LVALPATH = '--lvalpath' in args
    PURE[:] = [args[i + 1] for i, a in enumerate(args) if a == '--pure']
    IMMUT[:] = [args[i + 1] for i, a in enumerate(args) if a == '--immutable']
    LOOPORDER = '--looporder' in args
    M1PTR = '--m1ptr' in args
    pos = []
    skip = False
    for a in args:
        if skip: skip = False; continue
        if a in ('--thread', '--cut', '--pure', '--immutable'): skip = True; continue
        if not a.startswith('--'): pos.append(a)
    src, base = pos[0], pos[1]
    threads = collections.OrderedDict()
    it = iter(args)
    for a in it:
        if a == '--thread':
            spec = next(it)
            if ':' in spec:
                fn, sf = spec.split(':'); threads[fn] = sf.split(',')
            else:
                threads[spec] = ['']
    text = open(src).read()
    M = parse_module(text)
    M.has_eh = bool(re.search(r'\b(invoke|landingpad)\b', text))
    cuts = [args[i + 1] for i, a in enumerate(args) if a == '--cut']
    summary = {'functions': [], 'threads': {}, 'decls': [], 'cut': []}
    for name in list(M.funcs):
        if any(c in name for c in cuts):
            f = M.funcs.pop(name)
            M.decls[name] = (f.ret, [a[0] for a in f.args], f.va)
            summary['cut'].append(name[1:])
    if '--prune' in args:
        # keep only what is reachable from the harness entry points (vp_* functions and thread bodies): functions through the
        # @names in their bodies, globals through their initialisers (vtables keep virtual targets alive)
        def names_in_value(v, out):
            if v is None: return
            if v.kind == 'global': out.add(v.name)
            for k in ('ops', 'els'):
                for x in getattr(v, k, []) or []: names_in_value(x, out)
        keepf = set(); keepg = set()
        work = [n for n in M.funcs if n[1:].startswith('vp_') or n[1:] in threads]
        while work:
            n = work.pop()
            if n in M.funcs:
                if n in keepf: continue
                keepf.add(n); refs = set()
                for insts in M.funcs[n].blocks.values():
                    for line in insts:
                        for m_ in re.finditer(r'@(?:"[^"]+"|[-a-zA-Z$._0-9]+)', line): refs.add(m_.group(0))
            elif n in M.globals:
                if n in keepg: continue
                keepg.add(n); refs = set(); names_in_value(M.globals[n][1], refs)
            else: continue
            work.extend(r for r in refs if r not in keepf and r not in keepg)
        for n in list(M.funcs):
            if n not in keepf: del M.funcs[n]
        for n in list(M.globals):
            if n not in keepg and not n.startswith('@llvm.'): del M.globals[n]
        summary['pruned_to'] = len(keepf)
    E = Emit(M, {})
    bodies = []; protos = []
    for name, f in M.funcs.items():
        if name[1:] in threads:
            for sfx in threads[name[1:]]:
                on = cname(name) + ('_' + sfx if sfx else '')
                tr = FnTr(E, f, thread=True, outname=on)
                hdr, body = tr.run()
                protos.append(hdr + ';')
                protos.append('extern unsigned %s_pc, %s_cs, %s_fin, %s_blocked; void %s_start(%s);' % (on, on, on, on, on,
                    ', '.join(E.ct(t) for t, an in f.args) or 'void'))
                protos.append('enum { %s_NV = %d };' % (on, tr.nvis + 1))
                if TSO: protos.append('void %s_flush(unsigned n);' % on)
                bodies.append(body)
                summary['threads'][on] = {'visible_ops': tr.nvis, 'cut_back_edges': len(tr.cuts),
                                          'loops': dict(collections.Counter(c[2] for c in tr.cuts)),
                                          'atomic_callees': sorted(tr.atomic_callees)}
            continue
        tr = FnTr(E, f, thread=False)
        hdr, body = tr.run()
        protos.append(hdr + ';'); bodies.append(body)
        summary['functions'].append(name[1:])
    for name, (ret, args_, va) in M.decls.items():
        if name[1:].startswith('llvm.') or name[1:] == '__gxx_personality_v0': continue
        summary['decls'].append(name[1:])
        protos.append('%s %s(%s%s);' % (E.ct(ret), E.fname(name), ', '.join(E.ct(a) for a in args_) or ('void' if not va else ''), ', ...' if va else ''))
    globs = []
    gdecl = []
    for name, (ty, init, const) in M.globals.items():
        if name.startswith('@llvm.'): continue
        n = cname(name)
        gdecl.append('extern %s %s;' % (E.ct(ty), n))
        if init is not None:
            globs.append('%s %s = %s;' % (E.ct(ty), n, E.init(init)))
    structs = E.emit_struct_defs()
    fwd = ['struct S_%s;' % cname(n) for n in M.named]
    guard = 'VP_' + re.sub(r'[^A-Za-z0-9]', '_', os.path.basename(base)).upper() + '_H'
    with open(base + '.h', 'w') as o:
        o.write('#ifndef %s\n#define %s\n' % (guard, guard))
        o.write(PRELUDE)
        o.write('\n'.join(fwd) + '\n')
        o.write('\n'.join(structs) + '\n')
        o.write('\n'.join(protos) + '\n')
        o.write('\n'.join(gdecl) + '\n')
        if M1PTR: o.write('extern u8 vp_m1_obj;\n')
        o.write('#endif\n')
    with open(base + '.c', 'w') as o:
        o.write('#include "%s.h"\n' % os.path.basename(base))
        if M1PTR: o.write('u8 vp_m1_obj;\n')
        o.write('\n'.join(globs) + '\n')
        o.write('\n\n'.join(bodies) + '\n')
    json.dump(summary, open(base + '.json', 'w'), indent=1)
    print('translated %d functions (%d thread copies), %d decls, %d globals' % (len(M.funcs), len(summary['threads']), len(M.decls), len(M.globals)))

if __name__ == '__main__':
    main()

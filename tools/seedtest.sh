#!/bin/sh
# usage: tools/seedtest.sh <seed-id> [extra ./check args]   (seed dir: /verif/seeded/<seed-id>/ with patch.diff + meta.json)
# Applies the seeded change to a scratch copy of /repo's sources (never to /repo itself while other work reads it), runs the
# property's check against that copy (VP_REPO; build/evidence/replay stay under .build/alt_*), prints the verdict, cleans up.
set -e
V=$(cd "$(dirname "$0")/.." && pwd); id=$1; shift
S=$V/seeded/$id; pid=$(python3 -c "import json;print(json.load(open('$S/meta.json'))['property'])")
T=$(mktemp -d /tmp/seed_XXXXXX); trap 'rm -rf "$T"' EXIT
cp -r /repo/include /repo/src "$T"/
( cd "$T" && git init -q . && git apply --whitespace=nowarn "$S/patch.diff" )
cd "$V"; set +e
VP_REPO=$T ./check $pid "$@" > "$T/out.log" 2>&1; rc=$?
grep -E "^VIOLATION|^KNOWN-FINDING|^OK |^INCONCLUSIVE" "$T/out.log" | cut -c1-300 | head -12
echo "seed=$id property=$pid exit=$rc violations=$(grep -c '^VIOLATION' "$T/out.log")"
exit 0

#!/usr/bin/env python3
"""Give pointer-valued i64 data flow its pointer type back (unit option ptratomics=True, applied to w.ll after -O1).
usage: ptratom.py in.ll out.ll
clang lowers every atomic load/store/cmpxchg of a std::atomic<T*> to an i64 operation on a bitcast address plus
ptrtoint/inttoptr, and the -O1 pipeline then carries such values through i64 phis (list walks). In the generated C that
becomes pointer<->integer round trips, which cost cbmc its constant propagation (`(u64)&obj == 0` is not folded) and the offsets
in its value sets (every later dereference becomes a byte_extract at a symbolic offset over every candidate object).
The pass iterates (opt -instnamer once, then rewrite + opt -instcombine until nothing changes):
 A. accesses:  %c = bitcast S* %x to i64*   where S is T* or a struct whose first leaf member is a pointer type P (or S is i8 and
               another bitcast of %x in the function goes to such a struct)
      %v = load [atomic] i64, i64* %c      ->  %v.p = load [atomic] P, P* (bitcast %x) ; %v = ptrtoint P %v.p to i64
      store [atomic] i64 %v, i64* %c       ->  store [atomic] P (inttoptr %v), P* (bitcast %x)
      %r = cmpxchg i64* %c, i64 %e, i64 %n ->  pointer-typed cmpxchg, result rebuilt as { i64, i1 }
 B. phis/selects: an i64 phi/select all of whose inputs are ptrtoint results, 0, undef or other such phis becomes an i8* phi
    followed by one ptrtoint; instcombine then cancels inttoptr(ptrtoint x) and turns icmp(ptrtoint x, 0) into icmp x, null.
Semantics are unchanged (same locations, widths, orderings; casts are value-preserving). Whatever does not match is left alone."""
import re, sys, subprocess, os

def split_top(s):
    out = []; d = 0; cur = ''; q = False
    for ch in s:
        if ch == '"': q = not q
        if not q:
            if ch in '([{<': d += 1
            elif ch in ')]}>': d -= 1
            elif ch == ',' and d == 0:
                out.append(cur.strip()); cur = ''; continue
        cur += ch
    if cur.strip(): out.append(cur.strip())
    return out

TYPES = {}

def leaf_pointer(ty, depth=0):
    """first leaf member type of `ty` if it is a pointer type, else None"""
    ty = ty.strip()
    if depth > 12: return None
    if ty.endswith('*'): return ty
    if ty in TYPES: return leaf_pointer(TYPES[ty], depth + 1)
    if ty.startswith('<{') and ty.endswith('}>'): ty = ty[1:-1].strip()
    if ty.startswith('{') and ty.endswith('}'):
        els = split_top(ty[1:-1])
        return leaf_pointer(els[0], depth + 1) if els else None
    m = re.match(r'\[\d+ x (.*)\]$', ty)
    if m: return leaf_pointer(m.group(1), depth + 1)
    return None

VAL = r'(?:%"[^"]+"|%[-\w.$]+)'
CNT = [0]
def fresh(tag):
    CNT[0] += 1; return '%%vpa.%s%d' % (tag, CNT[0])

def rewrite_function(body):
    """body: list of lines of one function (define .. }). returns (new lines, number of rewrites)"""
    n = 0
    # ---- collect bitcasts and ptrtoint seeds
    bc_to_i64 = {}     # i64* value -> (src type, src value)
    bc_of = {}         # src value -> [dest types]
    seeds = {}         # i64 value -> (P, pointer value)
    for l in body:
        m = re.match(r'\s*(' + VAL + r') = bitcast (.+) (' + VAL + r'|@[-\w.$"]+) to (.+?)\s*$', l)
        if m:
            bc_of.setdefault(m.group(3), []).append(m.group(4))
            if m.group(4) == 'i64*': bc_to_i64[m.group(1)] = (m.group(2).strip(), m.group(3))
        m = re.match(r'\s*(' + VAL + r') = ptrtoint (.+\*) (' + VAL + r'|@[-\w.$"]+) to i64\s*$', l)
        if m: seeds[m.group(1)] = (m.group(2), m.group(3))
    i2p_of = {}        # i64 value -> [dest types of inttoptr]
    i2p_to_i64 = {}    # i64* value -> i64 source value
    for l in body:
        m = re.match(r'\s*(' + VAL + r') = inttoptr i64 (' + VAL + r') to (.+?)\s*$', l)
        if m:
            i2p_of.setdefault(m.group(2), []).append(m.group(3))
            if m.group(3) == 'i64*': i2p_to_i64[m.group(1)] = m.group(2)
    casts = {}
    for c, sv in i2p_to_i64.items():
        cands = set()
        for dt in i2p_of.get(sv, []):
            if dt.endswith('*') and dt not in ('i64*', 'i8*'): cands.add(leaf_pointer(dt[:-1]))
        if len(cands) == 1:
            P = cands.pop()
            if P and P != 'i64*': casts[c] = ('i64', sv, P)      # source is an integer: address = inttoptr
    for c, (sty, sv) in bc_to_i64.items():
        if not sty.endswith('*'): continue
        P = None
        if sty == 'i8*':
            cands = set()
            for dt in bc_of.get(sv, []):
                if dt.endswith('*') and dt not in ('i64*', 'i8*'): cands.add(leaf_pointer(dt[:-1]))
            if len(cands) == 1: P = cands.pop()
        else:
            P = leaf_pointer(sty[:-1])
        if P and P != 'i64*': casts[c] = (sty, sv, P)
    # ---- B: which i64 phis/selects are pointer-like (optimistic fixpoint)
    phis = {}
    for l in body:
        m = re.match(r'\s*(' + VAL + r') = phi i64 (.*)$', l)
        if m:
            inc = re.findall(r'\[ (' + VAL + r'|-?\d+|undef|poison), (' + VAL + r') \]', m.group(2))
            phis[m.group(1)] = ('phi', inc)
        m = re.match(r'\s*(' + VAL + r') = select i1 (' + VAL + r'), i64 (' + VAL + r'|-?\d+|undef), i64 (' + VAL + r'|-?\d+|undef)\s*$', l)
        if m: phis[m.group(1)] = ('select', [(m.group(3), None), (m.group(4), None)], m.group(2))
    # results of pass-A loads will be ptrtoint seeds after this round; treat them as seeds for the fixpoint too
    future = set()
    for l in body:
        m = re.match(r'\s*(' + VAL + r') = load (atomic )?(volatile )?i64, i64\* (' + VAL + r')', l)
        if m and m.group(4) in casts: future.add(m.group(1))
        m = re.match(r'\s*(' + VAL + r') = extractvalue \{ i64, i1 \} (' + VAL + r'), 0', l)
    ptrlike = set(phis)
    changed = True
    while changed:
        changed = False
        for x in list(ptrlike):
            inc = phis[x][1]
            ok = True; some = False
            for v, _ in inc:
                if v in ('0', 'undef', 'poison'): continue
                if v in seeds or v in future or (v in ptrlike and v != x): some = True; continue
                if v == x: continue
                ok = False; break
            if not ok or not some:
                ptrlike.discard(x); changed = True
    # a phi whose only pointer-like evidence is `future` loads is rewritten in the next round (when those are real seeds)
    ready = set()
    for x in ptrlike:
        if all(v in ('0', 'undef', 'poison') or v in seeds or v in ptrlike for v, _ in phis[x][1]): ready.add(x)
    changed = True
    while changed:
        changed = False
        for x in list(ready):
            if any(v in ptrlike and v not in ready for v, _ in phis[x][1]): ready.discard(x); changed = True
    pver = {}   # i64 value -> i8* version name
    for x in ready: pver[x] = fresh('ph')
    seed_p8 = {}
    def p8_of(v):
        if v == '0': return 'null'
        if v in ('undef', 'poison'): return 'undef'
        if v in pver: return pver[v]
        return seed_p8[v]
    need_seed = set(v for x in ready for v, _ in phis[x][1] if v in seeds)
    for v in need_seed: seed_p8[v] = fresh('s')
    out = []
    pending = []   # ptrtoint lines to flush after the phi group
    for l in body:
        ind = re.match(r'\s*', l).group(0)
        isphi = re.match(r'\s*' + VAL + r' = phi ', l) is not None
        if pending and not isphi:
            out += pending; pending = []
        # seeds needing an i8* twin
        m = re.match(r'\s*(' + VAL + r') = ptrtoint (.+\*) (' + VAL + r'|@[-\w.$"]+) to i64\s*$', l)
        if m and m.group(1) in seed_p8:
            out.append('%s%s = bitcast %s %s to i8*' % (ind, seed_p8[m.group(1)], m.group(2), m.group(3)))
            out.append(l); continue
        m = re.match(r'\s*(' + VAL + r') = (phi|select) ', l)
        if m and m.group(1) in ready:
            x = m.group(1); kind = phis[x][0]
            if kind == 'phi':
                out.append('%s%s = phi i8* %s' % (ind, pver[x], ', '.join('[ %s, %s ]' % (p8_of(v), lab) for v, lab in phis[x][1])))
                pending.append('%s%s = ptrtoint i8* %s to i64' % (ind, x, pver[x]))
            else:
                a, b = phis[x][1][0][0], phis[x][1][1][0]
                out.append('%s%s = select i1 %s, i8* %s, i8* %s' % (ind, pver[x], phis[x][2], p8_of(a), p8_of(b)))
                out.append('%s%s = ptrtoint i8* %s to i64' % (ind, x, pver[x]))
            n += 1; continue
        # ---- A
        m = re.match(r'\s*(' + VAL + r') = load (atomic )?(volatile )?i64, i64\* (' + VAL + r')(.*)$', l)
        if m and m.group(4) in casts:
            sty, sv, P = casts[m.group(4)]
            pp, pv = fresh('pp'), fresh('v')
            out.append('%s%s = %s %s %s to %s*' % (ind, pp, 'inttoptr' if sty == 'i64' else 'bitcast', sty, sv, P))
            out.append('%s%s = load %s%s%s, %s* %s%s' % (ind, pv, m.group(2) or '', m.group(3) or '', P, P, pp, m.group(5)))
            out.append('%s%s = ptrtoint %s %s to i64' % (ind, m.group(1), P, pv))
            n += 1; continue
        m = re.match(r'\s*store (atomic )?(volatile )?i64 (\S+), i64\* (' + VAL + r')(.*)$', l)
        if m and m.group(4) in casts:
            sty, sv, P = casts[m.group(4)]
            pp = fresh('pp')
            out.append('%s%s = %s %s %s to %s*' % (ind, pp, 'inttoptr' if sty == 'i64' else 'bitcast', sty, sv, P))
            v = m.group(3)
            if v == '0': pv = 'null'
            else:
                pv = fresh('v'); out.append('%s%s = inttoptr i64 %s to %s' % (ind, pv, v, P))
            out.append('%sstore %s%s%s %s, %s* %s%s' % (ind, m.group(1) or '', m.group(2) or '', P, pv, P, pp, m.group(5)))
            n += 1; continue
        m = re.match(r'\s*(' + VAL + r') = cmpxchg (weak )?(volatile )?i64\* (' + VAL + r'), i64 (\S+), i64 (\S+?)( .*)$', l)
        if m and m.group(4) in casts:
            sty, sv, P = casts[m.group(4)]
            pp = fresh('pp')
            out.append('%s%s = %s %s %s to %s*' % (ind, pp, 'inttoptr' if sty == 'i64' else 'bitcast', sty, sv, P))
            ops = []
            for v in (m.group(5), m.group(6)):
                if v == '0': ops.append('null')
                else:
                    pv = fresh('v'); out.append('%s%s = inttoptr i64 %s to %s' % (ind, pv, v, P)); ops.append(pv)
            r, r0, r1, ri, ra = fresh('x'), fresh('x'), fresh('x'), fresh('x'), fresh('x')
            out.append('%s%s = cmpxchg %s%s%s* %s, %s %s, %s %s%s' % (ind, r, m.group(2) or '', m.group(3) or '', P, pp, P, ops[0], P, ops[1], m.group(7)))
            out.append('%s%s = extractvalue { %s, i1 } %s, 0' % (ind, r0, P, r))
            out.append('%s%s = extractvalue { %s, i1 } %s, 1' % (ind, r1, P, r))
            out.append('%s%s = ptrtoint %s %s to i64' % (ind, ri, P, r0))
            out.append('%s%s = insertvalue { i64, i1 } undef, i64 %s, 0' % (ind, ra, ri))
            out.append('%s%s = insertvalue { i64, i1 } %s, i1 %s, 1' % (ind, m.group(1), ra, r1))
            n += 1; continue
        out.append(l)
    return out, n

def one_round(lines):
    TYPES.clear()
    for l in lines:
        m = re.match(r'(%"[^"]+"|%[-\w.$]+) = type (.*)$', l)
        if m and m.group(2) != 'opaque': TYPES[m.group(1)] = m.group(2)
    out = []; total = 0; i = 0
    while i < len(lines):
        if lines[i].startswith('define '):
            j = i
            while lines[j] != '}': j += 1
            nb, n = rewrite_function(lines[i:j + 1])
            out += nb; total += n; i = j + 1
        else:
            out.append(lines[i]); i += 1
    return out, total

def opt(args, src, dst):
    p = subprocess.run(['opt-14'] + args + ['-S', src, '-o', dst], capture_output=True, text=True)
    if p.returncode != 0: sys.exit('ptratom: opt %s failed:\n%s' % (' '.join(args), p.stderr[-3000:]))

def main():
    src, dst = sys.argv[1], sys.argv[2]
    tmp = dst + '.ptratom.tmp.ll'
    opt(['-instnamer'], src, tmp)
    total = 0
    for rnd in range(6):
        lines = open(tmp).read().split('\n')
        lines, n = one_round(lines)
        if n == 0: break
        total += n
        open(tmp, 'w').write('\n'.join(lines))
        opt(['-instcombine', '-simplifycfg'], tmp, tmp)
    os.replace(tmp, dst)
    print('ptratom: %d accesses/phis of pointer-valued i64 data retyped in %d round(s)' % (total, rnd))

if __name__ == '__main__':
    main()

#!/bin/bash
# usage: tools/seed_confirm.sh <seed-id>...   (runs in the shared scratch worktree /tmp/wt_mut that has a complete build of HEAD)
# For each seed: apply patch.diff, rebuild incrementally, run the COMPLETE test suite, build+run the demo against the patched and
# the unpatched library, restore the worktree. Appends one line per seed to /verif/seeded/CONFIRM.log.
exec 9>/tmp/seed_confirm.lock; flock -n 9 || { echo 'another seed_confirm is running (shared worktree): refusing to start'; exit 3; }
W=/tmp/wt_mut; L=$W/_build/gnu_12.2_cxx11_64_relwithdebinfo; L0=/repo/_build/gnu_12.2_cxx11_64_relwithdebinfo
# the scratch worktree is removed at the end of a session (git -C /repo worktree remove --force /tmp/wt_mut); recreate it with a full build when missing
if [ ! -d $W ]; then git -C /repo worktree add --detach $W HEAD && (cd $W && cmake -G Ninja -B _build -DCMAKE_BUILD_TYPE=RelWithDebInfo -DTBB_TEST=ON > /dev/null && nice -n 10 cmake --build _build -j12 > /tmp/seedc_initial_build.log 2>&1) || exit 4; fi
for id in "$@"; do
  S=/verif/seeded/$id; cd $W && git checkout -q -- . && git apply $S/patch.diff || { echo "$id: patch does not apply" >> /verif/seeded/CONFIRM.log; continue; }
  nice -n 10 cmake --build _build -j8 > /tmp/seedc_$id.build.log 2>&1; brc=$?
  nice -n 5 ctest --test-dir _build -j6 --timeout 2400 > /tmp/seedc_$id.ctest.log 2>&1; trc=$?
  summary=$(grep -E "tests passed|tests failed" /tmp/seedc_$id.ctest.log | tail -1)
  failed=$(grep -E "\*\*\*Failed|\*\*\*Timeout|\*\*\*Exception" /tmp/seedc_$id.ctest.log | awk '{print $4}' | tr '\n' ' ')
  drc1=NA; drc0=NA
  if [ -f $S/demo.cpp ]; then
    g++ -std=c++17 -O2 -I$W/include $S/demo.cpp -L$L -ltbb -ltbbmalloc -lpthread -Wl,-rpath,$L -o /tmp/seedc_$id.demo1 2>/tmp/seedc_$id.demo.log && { timeout 300 /tmp/seedc_$id.demo1 > /tmp/seedc_$id.demo1.out 2>&1; drc1=$?; }
    g++ -std=c++17 -O2 -I/repo/include $S/demo.cpp -L$L0 -ltbb -ltbbmalloc -lpthread -Wl,-rpath,$L0 -o /tmp/seedc_$id.demo0 2>>/tmp/seedc_$id.demo.log && { timeout 300 /tmp/seedc_$id.demo0 > /tmp/seedc_$id.demo0.out 2>&1; drc0=$?; }
  fi
  echo "$(date +%H:%M) $id: build_rc=$brc ctest_rc=$trc [$summary] failed=[$failed] demo_with_change_rc=$drc1 demo_without_rc=$drc0" >> /verif/seeded/CONFIRM.log
  rm -f /tmp/seedc_$id.demo1 /tmp/seedc_$id.demo0
  cd $W && git checkout -q -- .
done
cd $W && nice -n 10 cmake --build _build -j8 > /dev/null 2>&1   # back to a clean HEAD build
echo "$(date +%H:%M) batch done: $*" >> /verif/seeded/CONFIRM.log

#!/bin/sh
# usage: tools/run_thorough_all.sh <jobs> <ID>...   : runs the thorough tier of each property in turn, logs exit code and wall time
J=$1; shift
for id in "$@"; do
  t0=$(date +%s); ./check $id --tier thorough --jobs $J > thorough_$id.log 2>&1; rc=$?
  echo "$(date +%H:%M) $id thorough exit=$rc wall=$(( $(date +%s) - t0 ))s $(grep -c INCONCLUSIVE thorough_$id.log) inconclusive $(grep -c '^VIOLATION' thorough_$id.log) violations" | tee -a thorough_summary.log
done

#!/bin/bash
# usage: tools/run_quick_all.sh [ids...]   runs every registered quick check against /repo (full runs: evidence/<id>.json is rewritten)
cd "$(dirname "$0")/.."
ids=${@:-C01 C02 C03 C04 C05 C06 C07 C08 C09 C10 C11 C12 C13 C14 C15 C16 C17 C18 C19 C20}
: > quick_summary.log
for id in $ids; do
  s=$(date +%s); ./check $id --tier quick > .build/quick_$id.log 2>&1; rc=$?
  echo "$(date -u +%H:%M) $id quick exit=$rc wall=$(( $(date +%s)-s ))s $(grep -c '\[INCONCLUSIVE\]' .build/quick_$id.log) inconclusive $(grep -c '^VIOLATION' .build/quick_$id.log) violations $(grep -c '^KNOWN-FINDING' .build/quick_$id.log) known" | tee -a quick_summary.log
done

#!/usr/bin/env python3
"""Rewrites section 9 of DESIGN.md from seeded/RESULTS.md (the running log of seeded changes)."""
import os, re
V = os.path.dirname(os.path.dirname(os.path.abspath(__file__)))
d = open(os.path.join(V, 'DESIGN.md')).read()
rows = [l for l in open(os.path.join(V, 'seeded', 'RESULTS.md')) if l.startswith('| ') and not l.startswith('| seed') and not l.startswith('|---')]
ind = [r for r in rows if not r.startswith('| real_')]
real = [r for r in rows if r.startswith('| real_')]
def first(r): return r.split('|')[1].strip().split(' ')[0]
names = []
for r in ind:
    n = first(r)
    if n not in names: names.append(n)
final = {}
for r in ind: final[first(r)] = r       # last row per seed = final state
caught_first = sum(1 for n in names if 'VIOLATION' in [r for r in ind if first(r) == n][0].split('|')[4] and 'missed' not in [r for r in ind if first(r) == n][0].split('|')[4])
caught_final = sum(1 for n in names if 'VIOLATION' in final[n].split('|')[4] or 'VIOLATION' in final[n].split('|')[5])
txt = '''## 9. Seeded changes and which checks catch them

Method: fresh sub-agents were given ONLY the text of one property and their own scratch git worktree of /repo, and asked for one
realistic change that breaks the property, compiles, passes the existing tests and needs something specific to manifest, with a
demonstration. Every delivered change is kept under `seeded/<id>/` (patch.diff, demo.cpp, the seeder's README.md, meta.json) and was
confirmed by `tools/seed_confirm.sh` in a scratch worktree with a complete build: incremental rebuild, the COMPLETE test suite,
the demo against the patched and the unpatched library (`seeded/CONFIRM.log`). `tools/seedtest.sh <id>` runs the property's check
against a scratch copy of the sources with the patch applied (VP_REPO mode), so /repo itself was never modified by a seed.
Three rounds were run (second round: "a different mechanism than the first seed"; third round, for half of the properties: "a
third mechanism, preferably in code the first two did not touch"). Where a change was missed, the gap was described
to the builder of that check in terms of uncovered behaviour (never by showing the patch), a harness or oracle was added, and the
seed was re-run; the table keeps the first verdict and the verdict after the follow-up.

Totals at the time of writing: %d independently seeded changes; %d caught by the checks as they were when the seed arrived;
%d caught after follow-up work (or by the thorough tier); the rest are listed with the reason. In addition the reverse patches
of the repaired defects (`seeded/real_*`, one per fix: commit) are all caught.

| seed | property | origin | quick tier | thorough tier | caught by / gap |
|---|---|---|---|---|---|
%s
Reverse patches of the repaired defects:

| seed | property | origin | quick tier | thorough tier | caught by |
|---|---|---|---|---|---|
%s
Reading the misses: (1) most first-round misses were *coverage* gaps next to the encoded code (a path cut by the round bound, an
object never reused, a node only driven by one caller, a failure path never followed by a second operation), not oracle
weaknesses - once the behaviour was in a harness the solver found the seeded interleaving or input in seconds to minutes;
(2) store-buffer effects need the TSO mode, which is affordable only for minimal hand-shakes (C04 has one in quick; C02 got `mutex_handshake_tso` in its thorough tier after r2_C02);
(3) weaker-than-TSO changes (C12 round 1) and operations outside a property's operation list (C12 round 2: swap) are not detectable
by these checks and are stated as such.
''' % (len(names), caught_first, caught_final, ''.join(ind), ''.join(real))
a = d.index('## 9. Seeded changes'); b = d.index('## 10. False alarms')
open(os.path.join(V, 'DESIGN.md'), 'w').write(d[:a] + txt + '\n' + d[b:])
print('section 9 rewritten: %d seeds, %d caught at first, %d finally' % (len(names), caught_first, caught_final))

#!/usr/bin/env python3
"""Unroll a (mutual) recursion D levels deep so that LLVM can inline it (thread bodies must not contain non-inlined callees,
and LLVM never inlines a function that calls itself).
usage: unrec.py in.raw.ll out.ll <entry-name-substring> <depth D>
Works on clang-14's unoptimised IR (-Xclang -disable-llvm-passes). Let S be the strongly connected component of the direct-call
graph that contains the entry function E (exactly one defined function must match the substring and it must return void).
Every function of S is cloned D times (suffix _L1.._LD, internal linkage). Inside level i (the originals are level 0) a call to
E is redirected to E_L(i+1); calls to the other members of S stay inside level i; at level D a call to E becomes a call to the
external `void vp_rec_limit(void)` (the harness defines it: it must cut the path with an assumption and the bound must be
reported). Calls from outside S are untouched, so E's real recursion is followed exactly D levels deep."""
import re, sys

GID = r'@(?:"[^"]+"|[-\w.$]+)'

def main():
    src, dst, sub, depth = sys.argv[1], sys.argv[2], sys.argv[3], int(sys.argv[4])
    lines = open(src).read().split('\n')
    funcs = {}   # name -> (start, end) inclusive line range
    i = 0
    while i < len(lines):
        m = re.match(r'define .*?(' + GID + r')\(', lines[i])
        if m:
            j = i
            while lines[j] != '}': j += 1
            funcs[m.group(1)] = (i, j); i = j
        i += 1
    entry = [n for n in funcs if sub in n]
    if len(entry) != 1: sys.exit('unrec: %d defined functions match %r (need exactly 1)' % (len(entry), sub))
    E = entry[0]
    if not re.match(r'define [^@]*\bvoid ' + re.escape(E) + r'\(', lines[funcs[E][0]]): sys.exit('unrec: entry must return void')
    calls = {}
    for n, (a, b) in funcs.items():
        cs = set()
        for l in lines[a + 1:b]:
            if ' call ' in l or l.lstrip().startswith('call ') or ' invoke ' in l or l.lstrip().startswith('invoke '):
                for g in re.findall(GID, l):
                    if g in funcs: cs.add(g)
        calls[n] = cs
    def reach(start, graph):
        seen = set(); st = [start]
        while st:
            x = st.pop()
            for y in graph.get(x, ()):
                if y not in seen: seen.add(y); st.append(y)
        return seen
    rev = {}
    for n, cs in calls.items():
        for c in cs: rev.setdefault(c, set()).add(n)
    S = (reach(E, calls) & reach(E, rev)) | ({E} if E in reach(E, calls) else set())
    if E not in S: sys.exit('unrec: %s is not recursive' % E)
    def lvl(n, k):
        if k == 0: return n
        return (n[:-1] + '_L%d"' % k) if n.endswith('"') else n + '_L%d' % k
    def rewrite(text_lines, k):
        out = []
        for l in text_lines:
            if re.search(GID, l) and not l.startswith('define '):
                iscall = bool(re.search(r'\b(call|invoke)\b', l))
                def rep(m):
                    g = m.group(0)
                    if g not in S: return g
                    if g == E and iscall: return lvl(E, k + 1) if k < depth else '@vp_rec_limit'
                    return lvl(g, k)
                if k == depth and iscall and re.search(r'\bcall void ' + re.escape(E) + r'\(', l):
                    ind = re.match(r'\s*', l).group(0)
                    out.append(ind + 'call void @vp_rec_limit()'); continue
                l = re.sub(GID, rep, l)
            out.append(l)
        return out
    new = []
    for k in range(1, depth + 1):
        for n in S:
            a, b = funcs[n]
            hdr = lines[a].replace(n + '(', lvl(n, k) + '(', 1)
            hdr = re.sub(r'^define (?:linkonce_odr|weak_odr|linkonce|weak|available_externally|internal|private|external)?\s*', 'define internal ', hdr)
            hdr = re.sub(r'\bdso_local\s+', '', hdr)
            hdr = re.sub(r'\s+comdat(\([^)]*\))?', '', hdr)
            new += [hdr] + rewrite(lines[a + 1:b + 1], k) + ['']
    # level 0: originals, calls to E from members of S go to level 1
    for n in S:
        a, b = funcs[n]
        lines[a + 1:b + 1] = rewrite(lines[a + 1:b + 1], 0)
    new.append('declare void @vp_rec_limit()')
    # insert clones before the first declare / attributes line at the end: simply append before 'attributes' block
    idx = next((i for i, l in enumerate(lines) if l.startswith('attributes #')), len(lines))
    lines[idx:idx] = new + ['']
    open(dst, 'w').write('\n'.join(lines))
    print('unrec: %s: SCC of %d functions unrolled to depth %d' % (E, len(S), depth))

if __name__ == '__main__':
    main()

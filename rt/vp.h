/* Runtime shared by every harness (cbmc build and native replay build).
 * Include after the generated unit header (which defines u8..u64, G(k), vp_* externs). */
#ifndef VP_RT_H
#define VP_RT_H
void *malloc(size_t); void free(void *); void exit(int);

#ifdef VP_NATIVE
int printf(const char *, ...);
u64 vp_nd_raw(void);                       /* rt/native.c: next value of the replay / random stream */
#define __CPROVER_assume(c) do { if (!(c)) { printf("VP-ASSUME-FALSE %s:%d\n", __FILE__, __LINE__); exit(3); } } while (0)
#define VP_ASSERT(c, msg) do { if (!(c)) { printf("VP-ASSERT-FAIL %s (%s:%d)\n", msg, __FILE__, __LINE__); exit(1); } } while (0)
#define VP_REACHED() do { printf("VP-WITNESS-REACHED\n"); } while (0)
#else
u64 nondet_u64(void);
#define vp_nd_raw nondet_u64
#define VP_ASSERT(c, msg) __CPROVER_assert((c), msg)
#define VP_REACHED() __CPROVER_assert(0, "VP_WITNESS")
#endif

/* every symbolic value of a harness comes through vp_nd(); the replay extracts the sequence of
 * values assigned to `v` here from the cbmc trace and feeds it back natively in the same order */
static u64 vp_nd(void) { u64 v = vp_nd_raw(); return v; }
static inline u64 vp_nd_range(u64 lo, u64 hi) {
#ifdef VP_NATIVE_RANDOM
  u64 v = vp_nd(); return hi >= lo ? lo + v % (hi - lo + 1) : lo;
#else
  u64 v = vp_nd(); __CPROVER_assume(v >= lo && v <= hi); return v;
#endif
}
#define vp_nd_bool() ((int)(vp_nd() & 1))

unsigned vp_left, vp_changed, vp_block_req;
/* called from an external stub in thread mode: park the calling thread; the call is re-executed when it is scheduled next
   (the stub must not have had side effects). Model of futex_wait / sem_wait / any blocking kernel call. */
#define VP_BLOCK() (vp_block_req = 1)
void vp_pause(void) {}
void vp_spin_hint(void) {}   /* wrapper-side marker: a loop containing it is a busy-wait loop */
unsigned vp_cur;              /* index of the model thread that is running (set by VP_RUNT / VP_QUIESCEn: a=0, b=1, c=2); for stubs */
void vp_trap(void) { VP_ASSERT(0, "llvm.trap reached"); }
void vp_unreachable(void) { VP_ASSERT(0, "unreachable reached"); }
/* default definitions of the OS/libc externals the translated code may reference (vpx_ prefix, see ir2c.py fname) */
#ifndef VP_OWN_YIELD
u32 vpx_sched_yield(void) { return 0; }
#endif
#ifndef VP_OWN_MALLOC
u8* vpx_malloc(u64 n) { u8* p = malloc(n); __CPROVER_assume(p != 0); return p; }
void vpx_free(u8* p) { free(p); }
#endif


/* ---- exception runtime (DESIGN 3.1): lowering target of invoke/landingpad/resume and the Itanium ABI entry points.
 * A throw sets the pending pointer vp_exc; calls return early while it is set; a landing pad consumes it.
 * Exception objects carry a 16-byte header {type_info*, refcount} in front, like the real ABI. */
#ifndef VP_NO_EXC
u8* vp_exc;
int vp_exc_thrown, vp_exc_destroyed;          /* ghost counters for oracles: objects thrown / released */
#define VP_MAXCAUGHT 4
#define VP_MAXTHR 4
static u8* vp_caught[VP_MAXTHR][VP_MAXCAUGHT]; static unsigned vp_ncaught[VP_MAXTHR];
static u8 vp_rethrown[VP_MAXTHR][VP_MAXCAUGHT];
#define VP_EXC_TYPE(p) (((u8**)(p))[-2])
#define VP_EXC_REFS(p) (((u64*)(p))[-1])
#ifndef VP_EXC_SUBTYPE
#define VP_EXC_SUBTYPE(thrown, caught) 0      /* harness may define: thrown type_info derives from caught type_info */
#endif
int vp_exc_matches(u8* obj, u8* ti) { return obj && (VP_EXC_TYPE(obj) == ti || VP_EXC_SUBTYPE(VP_EXC_TYPE(obj), ti)); }
void vp_exc_escaped(void) { VP_ASSERT(0, "exception escaped a thread body / noexcept boundary"); }
u8* vpx___cxa_allocate_exception(u64 n) { u8* p = malloc(n + 16); __CPROVER_assume(p != 0); p += 16; VP_EXC_TYPE(p) = 0; VP_EXC_REFS(p) = 0; return p; }
void vpx___cxa_free_exception(u8* p) { }
void vpx___cxa_throw(u8* p, u8* ti, u8* dtor) { VP_EXC_TYPE(p) = ti; VP_EXC_REFS(p) = 1; vp_exc = p; vp_exc_thrown++; }   /* the flight holds one reference */
u8* vpx___cxa_begin_catch(u8* p) {
  unsigned n = vp_ncaught[vp_cur]; VP_ASSERT(n < VP_MAXCAUGHT, "VP bound: nested catch depth");
  vp_caught[vp_cur][n] = p; vp_rethrown[vp_cur][n] = 0; vp_ncaught[vp_cur] = n + 1; return p; }
u8* vpx___cxa_get_exception_ptr(u8* p) { return p; }
void vpx___cxa_end_catch(void) {
  unsigned n = vp_ncaught[vp_cur]; VP_ASSERT(n > 0, "__cxa_end_catch without begin_catch"); n--; vp_ncaught[vp_cur] = n;
  u8* p = vp_caught[vp_cur][n];
  if (!vp_rethrown[vp_cur][n]) { VP_ASSERT(VP_EXC_REFS(p) > 0, "exception object released too often"); if (--VP_EXC_REFS(p) == 0) vp_exc_destroyed++; } }
void vpx___cxa_rethrow(void) {
  unsigned n = vp_ncaught[vp_cur]; VP_ASSERT(n > 0, "rethrow outside a handler (std::terminate)");
  vp_rethrown[vp_cur][n - 1] = 1; vp_exc = vp_caught[vp_cur][n - 1]; }
void _ZSt9terminatev(void) { VP_ASSERT(0, "std::terminate called"); }
/* the pointer the innermost active handler of the running model thread is handling (0 if none): std::current_exception */
static u8* vp_exc_current(void) { unsigned n = vp_ncaught[vp_cur]; return n ? vp_caught[vp_cur][n - 1] : 0; }
/* harness-side throw of a user exception of type token `ti` (any address used as a type_info) */
static void vp_throw_user(u8* ti) { u8* p = vpx___cxa_allocate_exception(8); vpx___cxa_throw(p, ti, 0); }
/* libstdc++'s std::exception_ptr entry points (shared ownership of the exception object; rethrow_exception starts a new
   flight that holds its own reference). Instantiate in a harness with the generated struct name of std::exception_ptr. */
#define VP_DEFINE_EPTR_STUBS(EPTR) \
  int vp_rethrows; \
  void _ZSt17current_exceptionv(EPTR* r) { r->f0 = vp_exc_current(); if (r->f0) VP_EXC_REFS(r->f0)++; } \
  void _ZNSt15__exception_ptr13exception_ptr9_M_addrefEv(EPTR* r) { if (r->f0) VP_EXC_REFS(r->f0)++; } \
  void _ZNSt15__exception_ptr13exception_ptr10_M_releaseEv(EPTR* r) { if (r->f0) { VP_ASSERT(VP_EXC_REFS(r->f0) > 0, "exception_ptr released more often than acquired"); if (--VP_EXC_REFS(r->f0) == 0) vp_exc_destroyed++; } } \
  void _ZSt17rethrow_exceptionNSt15__exception_ptr13exception_ptrE(EPTR* r) { VP_ASSERT(r->f0 != 0, "rethrow of a null exception_ptr"); VP_EXC_REFS(r->f0)++; vp_exc = r->f0; vp_rethrows++; }
#endif

/* ---- Lazy-CSeq style scheduler (thread-mode units) ---- */
#ifdef VP_TSO
#define VP_FL(fn) VP_FL_(fn)
#define VP_FL_(fn)    { fn##_flush((unsigned)vp_nd_range(0, SBD)); }
#define VP_FLALL(fn) VP_FLALL_(fn)
#define VP_FLALL_(fn) { fn##_flush(SBD); }
#else
#define VP_FL(fn) VP_FL_(fn)
#define VP_FL_(fn)
#define VP_FLALL(fn) VP_FLALL_(fn)
#define VP_FLALL_(fn)
#endif
/* free slice: run thread fn from its pc up to a solver-chosen context-switch point */
#define VP_RUN(fn) VP_RUN_(fn)
#define VP_RUN_(fn)    if (!fn##_fin) { VP_FL(fn) fn##_cs = (unsigned)vp_nd_range(fn##_pc, fn##_NV); fn##_step(); } else { VP_FL(fn) }   /* else: TSO, the store buffer of a finished thread keeps draining (no-op in SC mode) */
#define VP_RUNT(fn, tid) { vp_cur = (tid); VP_RUN(fn) }
/* forced slice: run as far as possible */
#define VP_RUNMAX(fn) VP_RUNMAX_(fn)
#define VP_RUNMAX_(fn) if (!fn##_fin) { VP_FLALL(fn) fn##_cs = fn##_NV; fn##_step(); VP_FLALL(fn) } else { VP_FLALL(fn) }
#define VP_STUCK(fn) VP_STUCK_(fn)
#define VP_STUCK_(fn)  (fn##_fin || fn##_blocked)

/* Two-round blocked-state oracle (DESIGN 3.3). Usage:
 *   VP_SETTLE2(a,b)  ...  ; afterwards vp_deadlock is 1 iff lost wake-up/hand-off/deadlock */
#define VP_QUIESCE2(a, b) VP_QUIESCE2_(a, b)
#define VP_QUIESCE2_(a, b) \
  vp_cur = 0; VP_RUNMAX(a) vp_cur = 1; VP_RUNMAX(b) \
  int vp_pb_ = VP_STUCK(a) && VP_STUCK(b); vp_changed = 0; \
  vp_cur = 0; VP_RUNMAX(a) vp_cur = 1; VP_RUNMAX(b) \
  int vp_unfinished = !a##_fin || !b##_fin; \
  int vp_deadlock = vp_unfinished && vp_pb_ && VP_STUCK(a) && VP_STUCK(b) && !vp_changed;
#define VP_QUIESCE3(a, b, c) VP_QUIESCE3_(a, b, c)
#define VP_QUIESCE3_(a, b, c) \
  vp_cur = 0; VP_RUNMAX(a) vp_cur = 1; VP_RUNMAX(b) vp_cur = 2; VP_RUNMAX(c) \
  int vp_pb_ = VP_STUCK(a) && VP_STUCK(b) && VP_STUCK(c); vp_changed = 0; \
  vp_cur = 0; VP_RUNMAX(a) vp_cur = 1; VP_RUNMAX(b) vp_cur = 2; VP_RUNMAX(c) \
  int vp_unfinished = !a##_fin || !b##_fin || !c##_fin; \
  int vp_deadlock = vp_unfinished && vp_pb_ && VP_STUCK(a) && VP_STUCK(b) && VP_STUCK(c) && !vp_changed;
/* Variant of the two-round oracle for thread bodies with NESTED wait loops (an outer retry loop around inner busy-wait loops, e.g.
 * queuing_rw_mutex "goto requested/waiting/retry"): a thread that parks at a different back edge in the probe round than in the
 * settling round has made control progress without writing memory (it left the inner wait loop) and is NOT stuck; the plain
 * VP_QUIESCEn would call that a deadlock. Here a deadlock additionally requires every thread to park at the same point twice. */
#define VP_QUIESCE2S(a, b) VP_QUIESCE2S_(a, b)
#define VP_QUIESCE2S_(a, b) \
  vp_cur = 0; VP_RUNMAX(a) vp_cur = 1; VP_RUNMAX(b) \
  int vp_pb_ = VP_STUCK(a) && VP_STUCK(b); unsigned vp_pca_ = a##_pc, vp_pcb_ = b##_pc; vp_changed = 0; \
  vp_cur = 0; VP_RUNMAX(a) vp_cur = 1; VP_RUNMAX(b) \
  int vp_unfinished = !a##_fin || !b##_fin; \
  int vp_deadlock = vp_unfinished && vp_pb_ && VP_STUCK(a) && VP_STUCK(b) && !vp_changed && vp_pca_ == a##_pc && vp_pcb_ == b##_pc;
#define VP_QUIESCE3S(a, b, c) VP_QUIESCE3S_(a, b, c)
#define VP_QUIESCE3S_(a, b, c) \
  vp_cur = 0; VP_RUNMAX(a) vp_cur = 1; VP_RUNMAX(b) vp_cur = 2; VP_RUNMAX(c) \
  int vp_pb_ = VP_STUCK(a) && VP_STUCK(b) && VP_STUCK(c); unsigned vp_pca_ = a##_pc, vp_pcb_ = b##_pc, vp_pcc_ = c##_pc; vp_changed = 0; \
  vp_cur = 0; VP_RUNMAX(a) vp_cur = 1; VP_RUNMAX(b) vp_cur = 2; VP_RUNMAX(c) \
  int vp_unfinished = !a##_fin || !b##_fin || !c##_fin; \
  int vp_deadlock = vp_unfinished && vp_pb_ && VP_STUCK(a) && VP_STUCK(b) && VP_STUCK(c) && !vp_changed && vp_pca_ == a##_pc && vp_pcb_ == b##_pc && vp_pcc_ == c##_pc;
#endif

/* translator validation driver: the wrapper's vp_selftest() pushes values through vp_emit();
 * linked once against the real C++ object and once against the generated C, outputs are diffed */
#include <stdio.h>
#include <stdint.h>
void vp_selftest(void);
void vp_emit(uint64_t v) { printf("%llu\n", (unsigned long long)v); }
void vp_pause(void) {} void vp_spin_hint(void) {} void vp_trap(void) { printf("trap\n"); } void vp_unreachable(void) { printf("unreachable\n"); }
unsigned vp_left, vp_changed, vp_block_req;
int main(void) { vp_selftest(); return 0; }

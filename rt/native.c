/* Native nondet source for replay / random smoke runs of harnesses.
 * VP_REPLAY=<file>: whitespace-separated decimal u64 values, consumed in order (then zeros).
 * otherwise: xorshift PRNG seeded by VP_SEED, biased to boundary values. */
#include <stdint.h>
#include <stdio.h>
#include <stdlib.h>
static FILE* f; static int init; static uint64_t st = 88172645463325252ull;
uint64_t vp_nd_raw(void) {
  if (!init) {
    init = 1;
    const char* p = getenv("VP_REPLAY");
    if (p) { f = fopen(p, "r"); if (!f) { perror(p); exit(4); } }
    const char* s = getenv("VP_SEED"); if (s) st ^= strtoull(s, 0, 10) * 0x9E3779B97F4A7C15ull;
  }
  if (f) { unsigned long long v = 0; if (fscanf(f, "%llu", &v) != 1) v = 0; return v; }
  st ^= st << 13; st ^= st >> 7; st ^= st << 17;
  uint64_t r = st;
  switch ((r >> 60) & 7) {
    case 0: return r & 7;
    case 1: return (r & 0xff);
    case 2: return ~(r & 7);
    case 3: return 1ull << ((r >> 8) & 63);
    case 4: return (1ull << ((r >> 8) & 63)) - 1 + (r & 2);
    default: return r;
  }
}
/* generated C calls __CPROVER_fence(...) for seq_cst fences/stores: a no-op in the (sequential) native build */
void __CPROVER_fence(const char* a, ...) { (void)a; }
